use serde_json::Value;
use std::io::Write;

pub struct Tracer {
    out: std::io::BufWriter<std::fs::File>,
    pub events: usize,
}

impl Tracer {
    pub fn create(path: &str) -> Self {
        let f = std::fs::File::create(path).unwrap_or_else(|e| panic!("create {}: {}", path, e));
        Self {
            out: std::io::BufWriter::new(f),
            events: 0,
        }
    }
    pub fn emit(&mut self, v: Value) {
        serde_json::to_writer(&mut self.out, &v).expect("write trace");
        self.out.write_all(b"\n").expect("write trace");
        self.events += 1;
    }
    pub fn finish(mut self) {
        self.out.flush().expect("flush trace");
    }
}
