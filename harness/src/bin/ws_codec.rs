//! Executor for the WebTorrent JSON codec (property C15).
//!
//! usage: ws_codec <cases.jsonl> <trace.ndjson>
//!
//! It only executes and records; every verdict is taken by TLC against
//! spec/WsCodec_Trace.tla.  Notation shared with the specification:
//!   * a string is the array of its code points, a number its decimal text,
//!     an optional value is [] or [x];
//!   * a JSON value is a tree {"t": "s"|"z"|"n"|"a"|"o"|"m", "v": ...}
//!     (see spec/WsCodec.tla);
//!   * a decoding result is ["ok", message] | ["err"] | ["panic"].
//!
//! Operations:
//!   reset      -> {"ev":"reset", ...}
//!   decode     : write the tree as JSON text in the requested style, feed it to
//!                InMessage / OutMessage::from_ws_message as a text and as a binary frame
//!   roundtrip  : build the message, to_ws_message, record the produced JSON as a tree,
//!                decode the produced frame and the same bytes as a binary frame
//!   rawbin     : feed the given bytes as a binary frame

use std::borrow::Cow;
use std::panic::{catch_unwind, AssertUnwindSafe};

use aquatic_ws_protocol::common::*;
use aquatic_ws_protocol::incoming::*;
use aquatic_ws_protocol::outgoing::*;
use serde_json::{json, Map, Value};

use vharness::trace::Tracer;
use vharness::*;

// ---------------------------------------------------------------------------
// projection  message <-> JSON (the notation of the specification)

fn cps_of(s: &str) -> Value {
    Value::Array(s.chars().map(|c| json!(c as u32)).collect())
}

fn string_of(v: &Value) -> String {
    v.as_array()
        .unwrap_or_else(|| panic!("code points expected: {}", v))
        .iter()
        .map(|c| {
            let n = c.as_u64().expect("code point") as u32;
            char::from_u32(n).unwrap_or_else(|| panic!("not a scalar value: {}", n))
        })
        .collect()
}

fn id_of(b: &[u8; 20]) -> Value {
    Value::Array(b.iter().map(|x| json!(*x)).collect())
}

fn bytes20(v: &Value) -> [u8; 20] {
    let a = v.as_array().unwrap_or_else(|| panic!("20 bytes expected: {}", v));
    assert!(a.len() == 20, "20 bytes expected: {}", v);
    let mut b = [0u8; 20];
    for (i, x) in a.iter().enumerate() {
        let n = x.as_u64().expect("byte");
        assert!(n < 256);
        b[i] = n as u8;
    }
    b
}

fn num_of(n: usize) -> Value {
    json!(n.to_string())
}

fn usize_of(v: &Value) -> usize {
    v.as_str()
        .unwrap_or_else(|| panic!("decimal text expected: {}", v))
        .parse()
        .unwrap_or_else(|_| panic!("usize expected: {}", v))
}

fn opt_of<T>(o: &Option<T>, f: impl Fn(&T) -> Value) -> Value {
    match o {
        None => json!([]),
        Some(x) => json!([f(x)]),
    }
}

fn opt_from<T>(v: &Value, f: impl Fn(&Value) -> T) -> Option<T> {
    let a = v.as_array().unwrap_or_else(|| panic!("option expected: {}", v));
    match a.len() {
        0 => None,
        1 => Some(f(&a[0])),
        _ => panic!("option expected: {}", v),
    }
}

fn event_name(e: &AnnounceEvent) -> Value {
    json!(match e {
        AnnounceEvent::Started => "started",
        AnnounceEvent::Stopped => "stopped",
        AnnounceEvent::Completed => "completed",
        AnnounceEvent::Update => "update",
    })
}

fn event_from(v: &Value) -> AnnounceEvent {
    match v.as_str().expect("event") {
        "started" => AnnounceEvent::Started,
        "stopped" => AnnounceEvent::Stopped,
        "completed" => AnnounceEvent::Completed,
        "update" => AnnounceEvent::Update,
        e => panic!("bad event {}", e),
    }
}

fn project_in(m: &InMessage) -> Value {
    match m {
        InMessage::AnnounceRequest(r) => json!({
            "k": "announce",
            "ih": id_of(&r.info_hash.0),
            "pid": id_of(&r.peer_id.0),
            "left": opt_of(&r.bytes_left, |n| num_of(*n)),
            "event": opt_of(&r.event, event_name),
            "offers": opt_of(&r.offers, |os| Value::Array(
                os.iter().map(|o| json!({"oid": id_of(&o.offer_id.0), "sdp": cps_of(&o.offer.sdp)})).collect())),
            "numwant": opt_of(&r.numwant, |n| num_of(*n)),
            "answer": opt_of(&r.answer, |a| cps_of(&a.sdp)),
            "to": opt_of(&r.answer_to_peer_id, |p| id_of(&p.0)),
            "aoid": opt_of(&r.answer_offer_id, |p| id_of(&p.0)),
        }),
        InMessage::ScrapeRequest(r) => json!({
            "k": "scrape",
            "ihs": opt_of(&r.info_hashes, |h| match h {
                ScrapeRequestInfoHashes::Single(x) => json!({"form": "single", "hs": [id_of(&x.0)]}),
                ScrapeRequestInfoHashes::Multiple(xs) => json!({
                    "form": "multi",
                    "hs": Value::Array(xs.iter().map(|x| id_of(&x.0)).collect())}),
            }),
        }),
    }
}

fn build_in(p: &Value) -> InMessage {
    match get_str(p, "k") {
        "announce" => InMessage::AnnounceRequest(AnnounceRequest {
            action: AnnounceAction::Announce,
            info_hash: InfoHash(bytes20(&p["ih"])),
            peer_id: PeerId(bytes20(&p["pid"])),
            bytes_left: opt_from(&p["left"], usize_of),
            event: opt_from(&p["event"], event_from),
            offers: opt_from(&p["offers"], |os| {
                os.as_array()
                    .expect("offers")
                    .iter()
                    .map(|o| AnnounceRequestOffer {
                        offer: RtcOffer {
                            t: RtcOfferType::Offer,
                            sdp: string_of(&o["sdp"]),
                        },
                        offer_id: OfferId(bytes20(&o["oid"])),
                    })
                    .collect()
            }),
            numwant: opt_from(&p["numwant"], usize_of),
            answer: opt_from(&p["answer"], |s| RtcAnswer {
                t: RtcAnswerType::Answer,
                sdp: string_of(s),
            }),
            answer_to_peer_id: opt_from(&p["to"], |b| PeerId(bytes20(b))),
            answer_offer_id: opt_from(&p["aoid"], |b| OfferId(bytes20(b))),
        }),
        "scrape" => InMessage::ScrapeRequest(ScrapeRequest {
            action: ScrapeAction::Scrape,
            info_hashes: opt_from(&p["ihs"], |h| {
                let hs: Vec<InfoHash> = h["hs"]
                    .as_array()
                    .expect("hs")
                    .iter()
                    .map(|b| InfoHash(bytes20(b)))
                    .collect();
                match get_str(h, "form") {
                    "single" => ScrapeRequestInfoHashes::Single(hs[0]),
                    "multi" => ScrapeRequestInfoHashes::Multiple(hs),
                    f => panic!("bad form {}", f),
                }
            }),
        }),
        k => panic!("bad incoming kind {}", k),
    }
}

fn project_out(m: &OutMessage) -> Value {
    match m {
        OutMessage::OfferOutMessage(o) => json!({
            "k": "offer", "pid": id_of(&o.peer_id.0), "ih": id_of(&o.info_hash.0),
            "oid": id_of(&o.offer_id.0), "sdp": cps_of(&o.offer.sdp)}),
        OutMessage::AnswerOutMessage(o) => json!({
            "k": "answer", "pid": id_of(&o.peer_id.0), "ih": id_of(&o.info_hash.0),
            "oid": id_of(&o.offer_id.0), "sdp": cps_of(&o.answer.sdp)}),
        OutMessage::AnnounceResponse(r) => json!({
            "k": "ann_resp", "ih": id_of(&r.info_hash.0), "complete": num_of(r.complete),
            "incomplete": num_of(r.incomplete), "interval": num_of(r.announce_interval)}),
        OutMessage::ScrapeResponse(r) => json!({
            "k": "scr_resp",
            "files": Value::Array(r.files.iter().map(|(h, s)| json!({
                "ih": id_of(&h.0), "complete": num_of(s.complete),
                "incomplete": num_of(s.incomplete), "downloaded": num_of(s.downloaded)})).collect())}),
        OutMessage::ErrorResponse(e) => json!({
            "k": "error",
            "reason": cps_of(&e.failure_reason),
            "eaction": opt_of(&e.action, |a| json!(match a {
                ErrorResponseAction::Announce => "announce",
                ErrorResponseAction::Scrape => "scrape",
            })),
            "eih": opt_of(&e.info_hash, |h| id_of(&h.0))}),
    }
}

fn build_out(p: &Value) -> OutMessage {
    match get_str(p, "k") {
        "offer" => OutMessage::OfferOutMessage(OfferOutMessage {
            action: AnnounceAction::Announce,
            peer_id: PeerId(bytes20(&p["pid"])),
            info_hash: InfoHash(bytes20(&p["ih"])),
            offer: RtcOffer {
                t: RtcOfferType::Offer,
                sdp: string_of(&p["sdp"]),
            },
            offer_id: OfferId(bytes20(&p["oid"])),
        }),
        "answer" => OutMessage::AnswerOutMessage(AnswerOutMessage {
            action: AnnounceAction::Announce,
            peer_id: PeerId(bytes20(&p["pid"])),
            info_hash: InfoHash(bytes20(&p["ih"])),
            answer: RtcAnswer {
                t: RtcAnswerType::Answer,
                sdp: string_of(&p["sdp"]),
            },
            offer_id: OfferId(bytes20(&p["oid"])),
        }),
        "ann_resp" => OutMessage::AnnounceResponse(AnnounceResponse {
            action: AnnounceAction::Announce,
            info_hash: InfoHash(bytes20(&p["ih"])),
            complete: usize_of(&p["complete"]),
            incomplete: usize_of(&p["incomplete"]),
            announce_interval: usize_of(&p["interval"]),
        }),
        "scr_resp" => OutMessage::ScrapeResponse(ScrapeResponse {
            action: ScrapeAction::Scrape,
            files: p["files"]
                .as_array()
                .expect("files")
                .iter()
                .map(|f| {
                    (
                        InfoHash(bytes20(&f["ih"])),
                        ScrapeStatistics {
                            complete: usize_of(&f["complete"]),
                            incomplete: usize_of(&f["incomplete"]),
                            downloaded: usize_of(&f["downloaded"]),
                        },
                    )
                })
                .collect(),
        }),
        "error" => OutMessage::ErrorResponse(ErrorResponse {
            failure_reason: Cow::Owned(string_of(&p["reason"])),
            action: opt_from(&p["eaction"], |a| match a.as_str().expect("action") {
                "announce" => ErrorResponseAction::Announce,
                "scrape" => ErrorResponseAction::Scrape,
                x => panic!("bad action {}", x),
            }),
            info_hash: opt_from(&p["eih"], |b| InfoHash(bytes20(b))),
        }),
        k => panic!("bad outgoing kind {}", k),
    }
}

// ---------------------------------------------------------------------------
// trees <-> JSON text

fn hex4(out: &mut String, u: u32) {
    out.push_str(&format!("\\u{:04x}", u));
}

fn write_uescape(out: &mut String, cp: u32, upper: bool) {
    let mut put = |u: u32| {
        if upper {
            out.push_str(&format!("\\u{:04X}", u));
        } else {
            hex4(out, u);
        }
    };
    if cp >= 0x10000 {
        let v = cp - 0x10000;
        put(0xD800 + (v >> 10));
        put(0xDC00 + (v & 0x3ff));
    } else {
        put(cp);
    }
}

/// styles: "raw"   - only what JSON requires is escaped (as \u00xx, \" and \\)
///         "short" - two-character escapes where JSON has them (incl. \/), the rest raw
///         "uesc"  - every character as \uXXXX (surrogate pairs above U+FFFF)
///         "mixed" - alternately raw and \uXXXX (upper-case hex)
fn write_string(out: &mut String, cps: &Value, style: &str) {
    out.push('"');
    for (i, c) in cps.as_array().expect("code points").iter().enumerate() {
        let cp = c.as_u64().expect("code point") as u32;
        let ch = char::from_u32(cp).unwrap_or_else(|| panic!("not a scalar value: {}", cp));
        let must = cp < 0x20 || cp == 0x22 || cp == 0x5c;
        match style {
            "uesc" => write_uescape(out, cp, false),
            "mixed" if i % 2 == 1 => write_uescape(out, cp, true),
            "short" => match cp {
                0x22 => out.push_str("\\\""),
                0x5c => out.push_str("\\\\"),
                0x2f => out.push_str("\\/"),
                0x08 => out.push_str("\\b"),
                0x0c => out.push_str("\\f"),
                0x0a => out.push_str("\\n"),
                0x0d => out.push_str("\\r"),
                0x09 => out.push_str("\\t"),
                _ if must => write_uescape(out, cp, false),
                _ => out.push(ch),
            },
            _ => match cp {
                0x22 => out.push_str("\\\""),
                0x5c => out.push_str("\\\\"),
                _ if must => write_uescape(out, cp, false),
                _ => out.push(ch),
            },
        }
    }
    out.push('"');
}

fn write_tree(out: &mut String, t: &Value, style: &str) {
    let v = &t["v"];
    match get_str(t, "t") {
        "s" => write_string(out, v, style),
        "z" => out.push_str("null"),
        "n" => out.push_str(v.as_str().expect("decimal text")),
        "a" => {
            out.push('[');
            for (i, x) in v.as_array().expect("array").iter().enumerate() {
                if i > 0 {
                    out.push(',');
                }
                write_tree(out, x, style);
            }
            out.push(']');
        }
        ty @ ("o" | "m") => {
            out.push('{');
            for (i, p) in v.as_array().expect("pairs").iter().enumerate() {
                if i > 0 {
                    out.push(',');
                }
                if ty == "o" {
                    write_string(out, &cps_of(p[0].as_str().expect("key")), "raw");
                } else {
                    write_string(out, &p[0], style);
                }
                out.push(':');
                write_tree(out, &p[1], style);
            }
            out.push('}');
        }
        x => panic!("bad node type {}", x),
    }
}

/// serde_json's reading of a JSON text, in tree notation (object keys in sorted order)
fn tree_of(v: &Value, files: bool) -> Value {
    match v {
        Value::Null => json!({"t": "z", "v": []}),
        Value::Bool(_) => panic!("no booleans in this protocol"),
        Value::Number(n) => json!({"t": "n", "v": n.to_string()}),
        Value::String(s) => json!({"t": "s", "v": cps_of(s)}),
        Value::Array(a) => json!({"t": "a", "v": a.iter().map(|x| tree_of(x, false)).collect::<Vec<_>>()}),
        Value::Object(o) => {
            if files {
                json!({"t": "m", "v": o.iter().map(|(k, x)| json!([cps_of(k), tree_of(x, false)])).collect::<Vec<_>>()})
            } else {
                json!({"t": "o", "v": o.iter().map(|(k, x)| json!([k, tree_of(x, k == "files")])).collect::<Vec<_>>()})
            }
        }
    }
}

/// canonical form for comparing two trees (pairs of objects sorted by key)
fn canon(t: &Value) -> Value {
    let v = &t["v"];
    match get_str(t, "t") {
        "a" => json!({"t": "a", "v": v.as_array().unwrap().iter().map(canon).collect::<Vec<_>>()}),
        ty @ ("o" | "m") => {
            let mut m: Map<String, Value> = Map::new();
            for p in v.as_array().unwrap() {
                let k = if ty == "o" { p[0].as_str().unwrap().to_string() } else { string_of(&p[0]) };
                assert!(m.insert(k, canon(&p[1])).is_none(), "duplicate key");
            }
            json!({"t": ty, "v": Value::Object(m)})
        }
        _ => t.clone(),
    }
}

// ---------------------------------------------------------------------------
// frames (tungstenite::Message is only reachable through the protocol crate's API)

fn text_frame<M: From<String>>(s: String) -> M {
    M::from(s)
}
fn binary_frame<M: From<Vec<u8>>>(b: Vec<u8>) -> M {
    M::from(b)
}

/// Panics of the code under test are data (and silent); panics of the executor itself are
/// tool errors and must be visible.
static QUIET: std::sync::atomic::AtomicBool = std::sync::atomic::AtomicBool::new(false);

fn guarded<T>(f: impl FnOnce() -> T) -> std::thread::Result<T> {
    use std::sync::atomic::Ordering::SeqCst;
    QUIET.store(true, SeqCst);
    let r = catch_unwind(AssertUnwindSafe(f));
    QUIET.store(false, SeqCst);
    r
}

fn result<T>(r: std::thread::Result<anyhow::Result<T>>, p: impl Fn(&T) -> Value) -> (Value, Value) {
    match r {
        Ok(Ok(m)) => (json!(["ok", p(&m)]), Value::Null),
        Ok(Err(e)) => (json!(["err"]), json!(format!("{:#}", e))),
        Err(e) => (json!(["panic"]), json!(panic_message(e))),
    }
}

fn decode_text(dir: &str, text: &str) -> (Value, Value) {
    let s = text.to_string();
    if dir == "in" {
        result(guarded(|| InMessage::from_ws_message(text_frame(s))), project_in)
    } else {
        result(guarded(|| OutMessage::from_ws_message(text_frame(s))), project_out)
    }
}

fn decode_binary(dir: &str, bytes: &[u8]) -> (Value, Value) {
    let b = bytes.to_vec();
    if dir == "in" {
        result(guarded(|| InMessage::from_ws_message(binary_frame(b))), project_in)
    } else {
        result(guarded(|| OutMessage::from_ws_message(binary_frame(b))), project_out)
    }
}

// ---------------------------------------------------------------------------

fn main() {
    let args: Vec<String> = std::env::args().collect();
    if args.len() != 3 {
        eprintln!("usage: ws_codec <cases.jsonl> <trace.ndjson>");
        std::process::exit(2);
    }
    let cases = read_behaviours(&args[1]);
    let mut tr = Tracer::create(&args[2]);
    let default_hook = std::panic::take_hook();
    std::panic::set_hook(Box::new(move |info| {
        if !QUIET.load(std::sync::atomic::Ordering::SeqCst) {
            default_hook(info);
        }
    }));
    for c in &cases {
        let annotate = |mut e: Value| -> Value {
            for k in ["n", "tag"] {
                if let Some(x) = c.get(k) {
                    e[k] = x.clone();
                }
            }
            e
        };
        match get_str(c, "op") {
            "reset" => {
                let mut e = c.clone();
                e.as_object_mut().unwrap().remove("op");
                e["ev"] = json!("reset");
                tr.emit(e);
            }
            "decode" => {
                let dir = get_str(c, "dir");
                let style = get_str(c, "style");
                let mut text = String::new();
                write_tree(&mut text, &c["tree"], style);
                // the writer must say what the tree says (independent reading by serde_json)
                let back: Value = serde_json::from_str(&text)
                    .unwrap_or_else(|e| panic!("writer produced invalid JSON ({}): {}", e, text));
                assert!(
                    canon(&tree_of(&back, false)) == canon(&c["tree"]),
                    "writer and tree disagree: {}",
                    text
                );
                let (t, terr) = decode_text(dir, &text);
                let (b, berr) = decode_binary(dir, text.as_bytes());
                let mut e = json!({"ev": "decode", "dir": dir, "style": style, "tree": c["tree"],
                                   "text": t, "bin": b, "json_len": text.len()});
                if !terr.is_null() {
                    e["text_err"] = terr;
                }
                if !berr.is_null() {
                    e["bin_err"] = berr;
                }
                if text.len() <= 600 {
                    e["json"] = json!(text);
                }
                tr.emit(annotate(e));
            }
            "roundtrip" => {
                let dir = get_str(c, "dir");
                let case = &c["msg"];
                // encode
                let (msg, frame_is_text, payload): (Value, bool, Vec<u8>) = if dir == "in" {
                    let m = build_in(case);
                    let f = m.to_ws_message();
                    (project_in(&m), f.is_text(), f.into_data().to_vec())
                } else {
                    let m = build_out(case);
                    let f = m.to_ws_message();
                    (project_out(&m), f.is_text(), f.into_data().to_vec())
                };
                let enc = match std::str::from_utf8(&payload).ok().and_then(|s| serde_json::from_str::<Value>(s).ok()) {
                    Some(v) if v.is_object() => tree_of(&v, false),
                    _ => json!({"t": "invalid", "v": []}),
                };
                // decode the frame as produced (text) and the same payload as a binary frame
                let (t, terr) = match String::from_utf8(payload.clone()) {
                    Ok(s) if frame_is_text => decode_text(dir, &s),
                    _ => (json!(["err"]), json!("encoder did not produce a text frame")),
                };
                let (b, berr) = decode_binary(dir, &payload);
                let mut e = json!({"ev": "roundtrip", "dir": dir, "case": case, "msg": msg,
                                   "frame": if frame_is_text { "text" } else { "other" },
                                   "enc": enc, "text": t, "bin": b, "json_len": payload.len()});
                if !terr.is_null() {
                    e["text_err"] = terr;
                }
                if !berr.is_null() {
                    e["bin_err"] = berr;
                }
                tr.emit(annotate(e));
            }
            "rawbin" => {
                let dir = get_str(c, "dir");
                let bytes: Vec<u8> = c["bytes"]
                    .as_array()
                    .expect("bytes")
                    .iter()
                    .map(|x| x.as_u64().expect("byte") as u8)
                    .collect();
                let (r, err) = decode_binary(dir, &bytes);
                let mut e = json!({"ev": "rawbin", "dir": dir, "bytes": c["bytes"], "res": r,
                                   "name": c["name"], "where": c["where"]});
                if !err.is_null() {
                    e["err"] = err;
                }
                tr.emit(annotate(e));
            }
            op => panic!("unknown op {}", op),
        }
    }
    tr.finish();
}
