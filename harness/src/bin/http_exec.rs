//! Sequential executor for one HTTP swarm worker's state
//! (aquatic_http::verif::TorrentMaps) - properties C07 C02 C10 C11.
//!
//! usage: http_exec <behaviours.jsonl> <trace.ndjson>

use std::net::SocketAddr;
use std::panic::{catch_unwind, AssertUnwindSafe};
use std::sync::Arc;

use aquatic_common::access_list::{update_access_list, AccessListArcSwap, AccessListMode};
use aquatic_common::{
    CanonicalSocketAddr, SecondsSinceServerStart, ServerStartInstant, ValidUntil,
};
use aquatic_http::config::Config;
use aquatic_http::verif::TorrentMaps;
use aquatic_http_protocol::common::*;
use aquatic_http_protocol::request::*;
use rand::prelude::SmallRng;
use rand::SeedableRng;
use serde_json::{json, Value};

use vharness::ids;
use vharness::trace::Tracer;
use vharness::*;

struct Run {
    config: Config,
    maps: TorrentMaps,
    access_list: Arc<AccessListArcSwap>,
    start: ServerStartInstant,
    rng: SmallRng,
    dump: bool,
    dir: tempfile::TempDir,
}

fn new_run(cfg: &Value, seed: u64) -> Run {
    let dir = tempfile::tempdir().expect("tempdir");
    let mut config = Config::default();
    config.protocol.max_peers = get_i64_or(cfg, "max_peers", 50) as usize;
    config.protocol.max_scrape_torrents = get_i64_or(cfg, "max_scrape", 100) as usize;
    config.access_list.path = dir.path().join("access-list.txt");
    config.access_list.mode = match get_str_or(cfg, "mode", "off") {
        "off" => AccessListMode::Off,
        "allow" => AccessListMode::Allow,
        "deny" => AccessListMode::Deny,
        m => panic!("bad mode {}", m),
    };
    Run {
        config,
        maps: TorrentMaps::new(0),
        access_list: Arc::new(AccessListArcSwap::default()),
        start: ServerStartInstant::new(),
        rng: SmallRng::seed_from_u64(seed),
        dump: get_bool_or(cfg, "dumps", true),
        dir,
    }
}

fn event_of(s: &str) -> AnnounceEvent {
    match s {
        "started" => AnnounceEvent::Started,
        "stopped" => AnnounceEvent::Stopped,
        "completed" => AnnounceEvent::Completed,
        "none" => AnnounceEvent::Empty,
        _ => panic!("bad event {}", s),
    }
}

fn exec_op(run: &mut Run, op: &Value) -> Value {
    let mut ev = match get_str(op, "op") {
        "announce" => {
            let fam = get_i64(op, "fam") as u8;
            let h = get_i64(op, "h") as u32;
            let key = get_str(op, "key");
            let (ip, port) = ids::key_addr(fam, key);
            if get_bool_or(op, "gated", false)
                && !run
                    .access_list
                    .load()
                    .allows(run.config.access_list.mode, &ids::info_hash(h))
            {
                return finish(run, json!({"ev":"announce_rejected","t":[fam,h],"key":key}));
            }
            let numwant = get_i64(op, "numwant");
            let left = get_i64(op, "left");
            let deadline = get_i64(op, "deadline") as u32;
            let request = AnnounceRequest {
                info_hash: InfoHash(ids::info_hash(h)),
                peer_id: PeerId(ids::peer_id(get_i64_or(op, "pid", 1) as u32)),
                port,
                bytes_uploaded: 0,
                bytes_downloaded: 0,
                bytes_left: match (left, op.get("leftval").and_then(|v| v.as_str())) {
                    (0, _) => 0,
                    (_, Some("max")) => usize::MAX,
                    _ => 1,
                },
                event: event_of(get_str(op, "event")),
                numwant: if numwant < 0 { None } else { Some(numwant as usize) },
                key: None,
            };
            let resp = run.maps.handle_announce_request(
                &run.config,
                &mut run.rng,
                ValidUntil::new_raw(SecondsSinceServerStart::new_raw(deadline)),
                CanonicalSocketAddr::new(SocketAddr::new(ip, 40000)),
                request,
            );
            let p4: Vec<Value> = resp
                .peers
                .0
                .iter()
                .map(|p| json!(ids::key_name(p.ip_address.into(), p.port)))
                .collect();
            let p6: Vec<Value> = resp
                .peers6
                .0
                .iter()
                .map(|p| json!(ids::key_name(p.ip_address.into(), p.port)))
                .collect();
            json!({"ev":"announce","t":[fam,h],"key":key,"event":get_str(op,"event"),
                   "left":left,"numwant":numwant,"deadline":deadline,
                   "gated":get_bool_or(op, "gated", false),
                   "reply":{"seeders":resp.complete,"leechers":resp.incomplete,
                            "peers4":p4,"peers6":p6,
                            "warning":resp.warning_message.is_some()}})
        }
        "scrape" => {
            let fam = get_i64(op, "fam") as u8;
            let hs: Vec<u32> = op["hs"]
                .as_array()
                .expect("hs")
                .iter()
                .map(|x| x.as_i64().unwrap() as u32)
                .collect();
            let (ip, _) = ids::key_addr(fam, "k0");
            let request = ScrapeRequest {
                info_hashes: hs.iter().map(|h| InfoHash(ids::info_hash(*h))).collect(),
            };
            let resp = run.maps.handle_scrape_request(
                &run.config,
                CanonicalSocketAddr::new(SocketAddr::new(ip, 40000)),
                request,
            );
            let reply: Vec<Value> = resp
                .files
                .iter()
                .map(|(ih, s)| {
                    json!([
                        ids::info_hash_rev(&ih.0).map(|x| x as i64).unwrap_or(-1),
                        s.complete,
                        s.incomplete,
                        s.downloaded
                    ])
                })
                .collect();
            json!({"ev":"scrape","fam":fam,"hs":hs,"reply":reply})
        }
        "clean" => {
            let now = get_i64(op, "now") as u32;
            aquatic_common::verif::set_mock_seconds_elapsed(Some(now));
            run.maps.clean(&run.config, &run.access_list, run.start);
            aquatic_common::verif::set_mock_seconds_elapsed(None);
            json!({"ev":"clean","now":now})
        }
        "reload" => {
            let path = run.config.access_list.path.clone();
            let file = op.get("file").cloned().unwrap_or(json!({}));
            if get_str_or(&file, "kind", "good") == "missing" {
                let _ = std::fs::remove_file(&path);
            } else {
                std::fs::write(&path, get_str(op, "text")).expect("write access list");
            }
            let res = update_access_list(&run.config.access_list, &run.access_list);
            json!({"ev":"reload","file":file,"ok":res.is_ok()})
        }
        "allowed" => {
            let h = get_i64(op, "h") as u32;
            let ok = run
                .access_list
                .load()
                .allows(run.config.access_list.mode, &ids::info_hash(h));
            json!({"ev":"allowed","h":h,"ok":ok})
        }
        o => panic!("unknown op {}", o),
    };
    if run.dump {
        ev["dump"] = dump_json(&run.maps.verif_dump());
    }
    ev
}

fn finish(run: &mut Run, mut ev: Value) -> Value {
    if run.dump {
        ev["dump"] = dump_json(&run.maps.verif_dump());
    }
    ev
}

fn main() {
    let args: Vec<String> = std::env::args().collect();
    if args.len() != 3 {
        eprintln!("usage: http_exec <behaviours.jsonl> <trace.ndjson>");
        std::process::exit(2);
    }
    quiet_panics();
    let behaviours = read_behaviours(&args[1]);
    let mut tracer = Tracer::create(&args[2]);
    let seed: u64 = std::env::var("VERIF_SEED")
        .ok()
        .and_then(|s| s.parse().ok())
        .unwrap_or(1);
    for (i, b) in behaviours.iter().enumerate() {
        let cfg = b.get("cfg").cloned().unwrap_or(json!({}));
        let runid = get_i64_or(b, "run", i as i64);
        let mut run = new_run(&cfg, seed.wrapping_mul(1_000_003).wrapping_add(runid as u64));
        let mut reset = json!({"ev":"reset","run":runid,"tracker":"http"});
        for (k, v) in cfg.as_object().cloned().unwrap_or_default() {
            reset[k] = v;
        }
        reset["max_peers"] = json!(run.config.protocol.max_peers);
        reset["max_scrape"] = json!(run.config.protocol.max_scrape_torrents);
        reset["mode"] = json!(get_str_or(&cfg, "mode", "off"));
        reset["dumps"] = json!(run.dump);
        tracer.emit(reset);
        for op in b["ops"].as_array().expect("ops") {
            let r = catch_unwind(AssertUnwindSafe(|| exec_op(&mut run, op)));
            match r {
                Ok(ev) => tracer.emit(ev),
                Err(e) => {
                    aquatic_common::verif::set_mock_seconds_elapsed(None);
                    tracer.emit(json!({"ev":"panic","during":op,"msg":panic_message(e)}));
                    break;
                }
            }
        }
        drop(run.dir);
    }
    eprintln!("http_exec: {} runs, {} events", behaviours.len(), tracer.events);
    tracer.finish();
}
