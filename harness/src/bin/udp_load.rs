//! Runs the bundled UDP load tester in this process: udp_load <config.json>
//! (the load tester's own serde `Config`, missing fields take their defaults).
//! Used as a child process against a scripted tracker (lib/ext_loadtest.py).

fn main() {
    let args: Vec<String> = std::env::args().collect();
    if args.len() != 2 {
        eprintln!("usage: udp_load <config.json>");
        std::process::exit(2);
    }
    let text = std::fs::read_to_string(&args[1]).expect("read config");
    let config: aquatic_udp_load_test::config::Config = serde_json::from_str(&text).expect("load test config");
    match aquatic_udp_load_test::run(config) {
        Ok(()) => println!("LOAD-RETURNED ok"),
        Err(e) => println!("LOAD-RETURNED err {:#}", e),
    }
}
