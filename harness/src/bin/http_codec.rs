//! Executor for the HTTP wire codec (aquatic_http_protocol) - property C14.
//!
//! usage: http_codec <cases.jsonl> <trace.ndjson>
//!
//! Every case is executed on the real protocol library and recorded; nothing is
//! judged here.  All numbers travel as big-endian byte arrays (TLC integers are
//! 32 bit), all strings as arrays of bytes (replies, keys) or of code points
//! (GET paths), options as arrays of length 0 or 1.
//!
//!   get_path : Request::parse_http_get_path(path)            (+ Request::parse_bytes
//!              of "GET <path> HTTP/1.1" when the case asks for it with "http":true)
//!   req_rt   : Request::write(req, b"") -> Request::parse_bytes
//!   reply    : Response::write_bytes(reply) -> Response::parse_bytes
//!
//! A `{"ev":"reset"}` line is written every `batch` events so that the trace
//! can be validated in independent runs.

use std::collections::BTreeMap;
use std::net::{Ipv4Addr, Ipv6Addr};
use std::panic::{catch_unwind, AssertUnwindSafe};

use aquatic_http_protocol::common::*;
use aquatic_http_protocol::request::*;
use aquatic_http_protocol::response::*;
use serde_json::{json, Value};

use vharness::trace::Tracer;
use vharness::*;

// ---------------------------------------------------------------- JSON -> values

fn bytes_of(v: &Value) -> Vec<u8> {
    v.as_array()
        .unwrap_or_else(|| panic!("expected byte array, got {}", v))
        .iter()
        .map(|x| {
            let n = x.as_u64().unwrap_or_else(|| panic!("bad byte {}", x));
            assert!(n <= 255, "bad byte {}", n);
            n as u8
        })
        .collect()
}

fn field<'a>(v: &'a Value, k: &str) -> &'a Value {
    v.get(k).unwrap_or_else(|| panic!("missing field {} in {}", k, v))
}

fn arr20(v: &Value) -> [u8; 20] {
    let b = bytes_of(v);
    let mut a = [0u8; 20];
    assert_eq!(b.len(), 20, "identifier in a case must have 20 bytes");
    a.copy_from_slice(&b);
    a
}

fn be_u64(v: &Value) -> u64 {
    let b = bytes_of(v);
    assert_eq!(b.len(), 8, "number must have 8 bytes");
    let mut a = [0u8; 8];
    a.copy_from_slice(&b);
    u64::from_be_bytes(a)
}

fn be_u16(v: &Value) -> u16 {
    let b = bytes_of(v);
    assert_eq!(b.len(), 2, "port must have 2 bytes");
    u16::from_be_bytes([b[0], b[1]])
}

fn opt<'a>(v: &'a Value) -> Option<&'a Value> {
    let a = v.as_array().unwrap_or_else(|| panic!("option must be an array: {}", v));
    assert!(a.len() <= 1);
    a.first()
}

fn utf8(v: &Value) -> String {
    String::from_utf8(bytes_of(v)).expect("case strings must be valid UTF-8")
}

fn event_of(s: &str) -> AnnounceEvent {
    match s {
        "started" => AnnounceEvent::Started,
        "stopped" => AnnounceEvent::Stopped,
        "completed" => AnnounceEvent::Completed,
        "empty" => AnnounceEvent::Empty,
        _ => panic!("bad event {}", s),
    }
}

fn request_of(v: &Value) -> Request {
    match get_str(v, "kind") {
        "announce" => Request::Announce(AnnounceRequest {
            info_hash: InfoHash(arr20(field(v, "info_hash"))),
            peer_id: PeerId(arr20(field(v, "peer_id"))),
            port: be_u16(field(v, "port")),
            bytes_uploaded: be_u64(field(v, "uploaded")) as usize,
            bytes_downloaded: be_u64(field(v, "downloaded")) as usize,
            bytes_left: be_u64(field(v, "left")) as usize,
            event: event_of(get_str(v, "event")),
            numwant: opt(field(v, "numwant")).map(|x| be_u64(x) as usize),
            key: opt(field(v, "key")).map(|x| utf8(x).as_str().into()),
        }),
        "scrape" => Request::Scrape(ScrapeRequest {
            info_hashes: field(v, "info_hashes")
                .as_array()
                .expect("info_hashes")
                .iter()
                .map(|h| InfoHash(arr20(h)))
                .collect(),
        }),
        k => panic!("bad request kind {}", k),
    }
}

fn response_of(v: &Value) -> Response {
    match get_str(v, "kind") {
        "announce" => Response::Announce(AnnounceResponse {
            announce_interval: be_u64(field(v, "interval")) as usize,
            complete: be_u64(field(v, "complete")) as usize,
            incomplete: be_u64(field(v, "incomplete")) as usize,
            peers: ResponsePeerListV4(
                field(v, "peers")
                    .as_array()
                    .expect("peers")
                    .iter()
                    .map(|p| {
                        let ip = bytes_of(field(p, "ip"));
                        assert_eq!(ip.len(), 4);
                        ResponsePeer {
                            ip_address: Ipv4Addr::new(ip[0], ip[1], ip[2], ip[3]),
                            port: be_u16(field(p, "port")),
                        }
                    })
                    .collect(),
            ),
            peers6: ResponsePeerListV6(
                field(v, "peers6")
                    .as_array()
                    .expect("peers6")
                    .iter()
                    .map(|p| {
                        let ip = bytes_of(field(p, "ip"));
                        assert_eq!(ip.len(), 16);
                        let mut a = [0u8; 16];
                        a.copy_from_slice(&ip);
                        ResponsePeer {
                            ip_address: Ipv6Addr::from(a),
                            port: be_u16(field(p, "port")),
                        }
                    })
                    .collect(),
            ),
            warning_message: opt(field(v, "warning")).map(utf8),
        }),
        "scrape" => {
            let mut files = BTreeMap::new();
            for f in field(v, "files").as_array().expect("files") {
                files.insert(
                    InfoHash(arr20(field(f, "h"))),
                    ScrapeStatistics {
                        complete: be_u64(field(f, "complete")) as usize,
                        incomplete: be_u64(field(f, "incomplete")) as usize,
                        downloaded: 0,
                    },
                );
            }
            Response::Scrape(ScrapeResponse { files })
        }
        "failure" => Response::Failure(FailureResponse::new(utf8(field(v, "reason")))),
        k => panic!("bad reply kind {}", k),
    }
}

// ---------------------------------------------------------------- values -> JSON

fn jb(b: &[u8]) -> Value {
    Value::Array(b.iter().map(|x| json!(*x)).collect())
}

fn j64(n: usize) -> Value {
    jb(&(n as u64).to_be_bytes())
}

fn request_json(r: &Request) -> Value {
    match r {
        Request::Announce(a) => json!({
            "kind": "announce",
            "info_hash": jb(&a.info_hash.0),
            "peer_id": jb(&a.peer_id.0),
            "port": jb(&a.port.to_be_bytes()),
            "uploaded": j64(a.bytes_uploaded),
            "downloaded": j64(a.bytes_downloaded),
            "left": j64(a.bytes_left),
            "event": match a.event {
                AnnounceEvent::Started => "started",
                AnnounceEvent::Stopped => "stopped",
                AnnounceEvent::Completed => "completed",
                AnnounceEvent::Empty => "empty",
            },
            "numwant": match a.numwant { Some(n) => json!([j64(n)]), None => json!([]) },
            "key": match a.key { Some(ref k) => json!([jb(k.as_bytes())]), None => json!([]) },
        }),
        Request::Scrape(s) => json!({
            "kind": "scrape",
            "info_hashes": Value::Array(s.info_hashes.iter().map(|h| jb(&h.0)).collect()),
        }),
    }
}

fn response_json(r: &Response) -> Value {
    match r {
        Response::Announce(a) => json!({
            "kind": "announce",
            "interval": j64(a.announce_interval),
            "complete": j64(a.complete),
            "incomplete": j64(a.incomplete),
            "peers": Value::Array(a.peers.0.iter().map(|p| json!({
                "ip": jb(&p.ip_address.octets()), "port": jb(&p.port.to_be_bytes())})).collect()),
            "peers6": Value::Array(a.peers6.0.iter().map(|p| json!({
                "ip": jb(&p.ip_address.octets()), "port": jb(&p.port.to_be_bytes())})).collect()),
            "warning": match a.warning_message {
                Some(ref w) => json!([jb(w.as_bytes())]),
                None => json!([]),
            },
        }),
        Response::Scrape(s) => json!({
            "kind": "scrape",
            "files": Value::Array(s.files.iter().map(|(h, st)| json!({
                "h": jb(&h.0),
                "complete": j64(st.complete),
                "downloaded": j64(st.downloaded),
                "incomplete": j64(st.incomplete)})).collect()),
        }),
        Response::Failure(f) => json!({
            "kind": "failure",
            "reason": jb(f.failure_reason.as_bytes()),
        }),
    }
}

fn parse_result(r: Result<anyhow::Result<Option<Request>>, Box<dyn std::any::Any + Send>>) -> Value {
    match r {
        Ok(Ok(Some(req))) => json!({"st": "ok", "req": request_json(&req)}),
        Ok(Ok(None)) => json!({"st": "partial"}),
        Ok(Err(e)) => json!({"st": "err", "msg": format!("{:#}", e)}),
        Err(p) => json!({"st": "panic", "msg": panic_message(p)}),
    }
}

// ---------------------------------------------------------------- operations

fn exec(case: &Value) -> Value {
    let mut ev = case.clone();
    let o = ev.as_object_mut().expect("case object");
    let op = get_str(case, "op").to_string();
    o.remove("op");
    o.insert("ev".into(), json!(op));
    match op.as_str() {
        "get_path" => {
            let path: String = field(case, "path")
                .as_array()
                .expect("path")
                .iter()
                .map(|c| char::from_u32(c.as_u64().expect("cp") as u32).expect("code point"))
                .collect();
            let r = catch_unwind(AssertUnwindSafe(|| {
                Request::parse_http_get_path(&path).map(Some)
            }));
            o.insert("res".into(), parse_result(r));
            if case.get("http").and_then(|x| x.as_bool()).unwrap_or(false) {
                let mut wire = Vec::new();
                wire.extend_from_slice(b"GET ");
                wire.extend_from_slice(path.as_bytes());
                wire.extend_from_slice(b" HTTP/1.1\r\nHost: t\r\n\r\n");
                let r = catch_unwind(AssertUnwindSafe(|| Request::parse_bytes(&wire)));
                o.insert("res_http".into(), parse_result(r));
            } else {
                o.insert("http".into(), json!(false));
            }
        }
        "req_rt" => {
            let req = request_of(field(case, "req"));
            let mut wire = Vec::new();
            let w = catch_unwind(AssertUnwindSafe(|| req.write(&mut wire, b"")));
            match w {
                Ok(Ok(())) => {
                    o.insert("wire".into(), jb(&wire));
                    let r = catch_unwind(AssertUnwindSafe(|| Request::parse_bytes(&wire)));
                    o.insert("res".into(), parse_result(r));
                }
                Ok(Err(e)) => {
                    o.insert("wire".into(), json!([]));
                    o.insert("res".into(), json!({"st": "write_err", "msg": e.to_string()}));
                }
                Err(p) => {
                    o.insert("wire".into(), json!([]));
                    o.insert("res".into(), json!({"st": "panic", "msg": panic_message(p)}));
                }
            }
        }
        "reply" => {
            let reply = response_of(field(case, "reply"));
            let mut bytes = Vec::new();
            let w = catch_unwind(AssertUnwindSafe(|| reply.write_bytes(&mut bytes)));
            match w {
                Ok(Ok(n)) => {
                    o.insert("bytes".into(), jb(&bytes));
                    o.insert("nwritten".into(), json!(n.to_string()));
                    let r = catch_unwind(AssertUnwindSafe(|| Response::parse_bytes(&bytes)));
                    let parsed = match r {
                        Ok(Ok(resp)) => json!({"st": "ok", "reply": response_json(&resp)}),
                        Ok(Err(e)) => json!({"st": "err", "msg": e.to_string()}),
                        Err(p) => json!({"st": "panic", "msg": panic_message(p)}),
                    };
                    o.insert("parsed".into(), parsed);
                }
                Ok(Err(e)) => {
                    o.insert("bytes".into(), json!([]));
                    o.insert("parsed".into(), json!({"st": "write_err", "msg": e.to_string()}));
                }
                Err(p) => {
                    o.insert("bytes".into(), json!([]));
                    o.insert("parsed".into(), json!({"st": "panic", "msg": panic_message(p)}));
                }
            }
        }
        other => panic!("unknown op {}", other),
    }
    ev
}

fn main() {
    let args: Vec<String> = std::env::args().collect();
    if args.len() != 3 {
        eprintln!("usage: http_codec <cases.jsonl> <trace.ndjson>");
        std::process::exit(2);
    }
    quiet_panics();
    let cases = read_behaviours(&args[1]);
    let mut tr = Tracer::create(&args[2]);
    let batch = std::env::var("VERIF_BATCH")
        .ok()
        .and_then(|s| s.parse::<usize>().ok())
        .unwrap_or(25);
    for (i, c) in cases.iter().enumerate() {
        if i % batch == 0 {
            tr.emit(json!({"ev": "reset", "run": i / batch}));
        }
        tr.emit(exec(c));
    }
    tr.finish();
}
