//! Cooperative scheduler for the UDP tracker's shared swarm state (property C04).
//!
//! usage: udp_sched <jobs.jsonl> <trace.ndjson>
//!
//! A job is {"run":n, "program":{"1":[ops],"2":[ops],...}, "strategy":{...}}.
//! Strategies:
//!   {"kind":"schedule","order":[t,...]}   one run following the given thread order
//!   {"kind":"dfs","max_runs":N}           depth-first enumeration of the real yield points
//!   {"kind":"random","runs":N}            random schedules (VERIF_SEED)
//!   {"kind":"free","runs":N}              real parallel threads, no controller
//!
//! The real `TorrentMaps` is driven from real threads.  With a controller
//! installed (aquatic_udp::verif_sync) exactly one thread runs at a time and
//! every acquisition of a relevant lock is a scheduling point; acquisitions
//! are attempted with try_*, so "all unfinished threads blocked" is observed
//! as a deadlock event instead of a hang.
//!
//! Output per executed schedule: a `reset` line, `call` lines (with the reply
//! the operation eventually returned), `ret` lines, possibly `deadlock` or
//! `panic`, and a `final` line with the state dump at quiescence.

use std::cell::Cell;
use std::collections::{HashMap, HashSet};
use std::net::SocketAddr;
use std::num::NonZeroU16;
use std::panic::{catch_unwind, AssertUnwindSafe};
use std::sync::{Arc, Condvar, Mutex};
use std::time::{Duration, Instant};

use aquatic_common::access_list::AccessListArcSwap;
use aquatic_common::{CanonicalSocketAddr, SecondsSinceServerStart, ValidUntil};
use aquatic_udp::common::*;
use aquatic_udp::config::Config;
use aquatic_udp::swarm::TorrentMaps;
use aquatic_udp::verif_sync::{self, Controller, Mode};
use aquatic_udp_protocol::*;
use rand::prelude::SmallRng;
use rand::{RngExt, SeedableRng};
use serde_json::{json, Value};

use vharness::ids;
use vharness::trace::Tracer;
use vharness::*;

thread_local! {
    static THREAD_ID: Cell<usize> = const { Cell::new(0) };
}

#[derive(Clone, Debug, PartialEq)]
enum Status {
    NotStarted,
    Running,
    AtYield(u64),
    /// blocked on a lock; the flag says whether it wants exclusive access (write / upgrade)
    Blocked(u64, bool),
    Done,
}

struct Shared {
    status: HashMap<usize, Status>,
    current: Option<usize>,
    relevant: HashSet<u64>,
    /// shard write locks currently held, per thread
    holding_shard_write: HashMap<usize, usize>,
    log: Vec<Value>,
    abort: bool,
}

struct Sched {
    shared: Mutex<Shared>,
    cv: Condvar,
    nshards: u64,
}

struct AbortRun;

impl Sched {
    fn me() -> usize {
        THREAD_ID.with(|c| c.get())
    }
    fn is_shard(&self, lock: u64) -> bool {
        lock < self.nshards
    }
    /// park the calling worker until the scheduler grants it
    fn park(&self, me: usize, st: Status) {
        let mut g = self.shared.lock().unwrap();
        g.status.insert(me, st);
        g.current = None;
        self.cv.notify_all();
        loop {
            if g.abort {
                drop(g);
                std::panic::resume_unwind(Box::new(AbortRun));
            }
            if g.current == Some(me) {
                g.status.insert(me, Status::Running);
                return;
            }
            g = self.cv.wait(g).unwrap();
        }
    }
}

impl Controller for Sched {
    fn yield_point(&self, lock: u64, mode: Mode) {
        let me = Self::me();
        if me == 0 {
            return; // main thread (dumps): not scheduled
        }
        {
            let g = self.shared.lock().unwrap();
            // shards no operation of the program touches commute with everything
            if self.is_shard(lock) && !g.relevant.contains(&lock) {
                return;
            }
            // the nested read of a uniquely owned peer map in cleaning phase 2 cannot block
            if !self.is_shard(lock)
                && mode == Mode::Read
                && g.holding_shard_write.get(&me).copied().unwrap_or(0) > 0
            {
                return;
            }
        }
        self.park(me, Status::AtYield(lock));
        // parking_lot's RwLock is task-fair: a shared acquisition queues behind a waiting writer even
        // if the lock is only read-locked (so a recursive read can deadlock).  try_read would succeed
        // here, so the queueing is emulated: while another thread is blocked wanting exclusive access
        // to this lock, a reader counts as blocked too.
        if mode == Mode::Read || mode == Mode::UpgradableRead {
            loop {
                let writer_waiting = {
                    let g = self.shared.lock().unwrap();
                    g.status
                        .iter()
                        .any(|(t, s)| *t != me && *s == Status::Blocked(lock, true))
                };
                if !writer_waiting {
                    break;
                }
                self.park(me, Status::Blocked(lock, false));
            }
        }
    }
    fn blocked(&self, lock: u64, mode: Mode) {
        let me = Self::me();
        if me == 0 {
            return;
        }
        self.park(me, Status::Blocked(lock, mode == Mode::Write || mode == Mode::Upgrade));
    }
    fn acquired(&self, lock: u64, mode: Mode) {
        let me = Self::me();
        let mut g = self.shared.lock().unwrap();
        if self.is_shard(lock) && (mode == Mode::Write || mode == Mode::Upgrade) {
            *g.holding_shard_write.entry(me).or_insert(0) += 1;
        }
        if me != 0 && (!self.is_shard(lock) || g.relevant.contains(&lock)) {
            // after the acquisition, still inside the critical section: the log order is the lock order
            g.log
                .push(json!({"ev":"acq","thr":me,"lock":lock,"mode":format!("{:?}", mode)}));
        }
    }
    fn releasing(&self, lock: u64, mode: Mode) {
        let me = Self::me();
        let mut g = self.shared.lock().unwrap();
        if self.is_shard(lock) && mode == Mode::Write {
            if let Some(n) = g.holding_shard_write.get_mut(&me) {
                *n = n.saturating_sub(1);
            }
        }
        if me != 0 && (!self.is_shard(lock) || g.relevant.contains(&lock)) {
            g.log
                .push(json!({"ev":"rel","thr":me,"lock":lock,"mode":format!("{:?}", mode)}));
        }
        // threads blocked on this lock may try again
        let waiters: Vec<usize> = g
            .status
            .iter()
            .filter(|(_, s)| matches!(s, Status::Blocked(l, _) if *l == lock))
            .map(|(t, _)| *t)
            .collect();
        for t in waiters {
            g.status.insert(t, Status::AtYield(lock));
        }
    }
}

// ---------------------------------------------------------------------------

fn run_op(maps: &TorrentMaps, config: &Config, op: &Value, rng: &mut SmallRng) -> Value {
    let (tx, _rx) = crossbeam_channel::unbounded();
    match get_str(op, "kind") {
        "announce" => {
            let h = get_i64(op, "h") as u32;
            let key = get_str(op, "key").to_string();
            let (ip, port) = ids::key_addr(4, &key);
            let stop = get_bool_or(op, "stop", false);
            let request = AnnounceRequest {
                connection_id: ConnectionId::new(0),
                action_placeholder: Default::default(),
                transaction_id: TransactionId::new(1),
                info_hash: InfoHash(ids::info_hash(h)),
                peer_id: PeerId(ids::peer_id(1)),
                bytes_downloaded: NumberOfBytes::new(0),
                bytes_left: NumberOfBytes::new(1),
                bytes_uploaded: NumberOfBytes::new(0),
                event: if stop {
                    AnnounceEvent::Stopped.into()
                } else {
                    AnnounceEvent::Started.into()
                },
                ip_address: Ipv4AddrBytes([0, 0, 0, 0]),
                key: PeerKey::new(0),
                peers_wanted: NumberOfPeers::new(-1),
                port: Port::new(NonZeroU16::new(port).unwrap()),
            };
            let resp = maps.announce(
                config,
                &tx,
                rng,
                &request,
                CanonicalSocketAddr::new(SocketAddr::new(ip, 40000)),
                ValidUntil::new_raw(SecondsSinceServerStart::new_raw(get_i64_or(op, "d", 0) as u32)),
            );
            match resp {
                Response::AnnounceIpv4(r) => {
                    json!((r.fixed.seeders.0.get() + r.fixed.leechers.0.get()) as i64)
                }
                _ => json!(-1),
            }
        }
        "scrape" => {
            // one reply entry per requested hash: the units of a scrape are linearized separately
            let hs: Vec<u32> = op["hs"]
                .as_array()
                .expect("scrape.hs")
                .iter()
                .map(|x| x.as_u64().unwrap() as u32)
                .collect();
            let (ip, _) = ids::key_addr(4, "k0");
            let resp = maps.scrape(
                ScrapeRequest {
                    connection_id: ConnectionId::new(0),
                    transaction_id: TransactionId::new(1),
                    info_hashes: hs.iter().map(|h| InfoHash(ids::info_hash(*h))).collect(),
                },
                CanonicalSocketAddr::new(SocketAddr::new(ip, 40000)),
            );
            Value::Array(
                resp.torrent_stats
                    .iter()
                    .map(|s| json!((s.seeders.0.get() + s.leechers.0.get()) as i64))
                    .collect(),
            )
        }
        "clean" => {
            let stats: CachePaddedArc<IpVersionStatistics<SwarmWorkerStatistics>> = Default::default();
            let al = Arc::new(AccessListArcSwap::default());
            maps.clean_and_update_statistics(
                config,
                &stats,
                &tx,
                &al,
                SecondsSinceServerStart::new_raw(get_i64(op, "now") as u32),
                false,
            );
            json!(0)
        }
        k => panic!("unknown op kind {}", k),
    }
}

fn program_threads(program: &Value) -> Vec<(usize, Vec<Value>)> {
    let mut v: Vec<(usize, Vec<Value>)> = program
        .as_object()
        .expect("program")
        .iter()
        .map(|(k, ops)| (k.parse().unwrap(), ops.as_array().unwrap().clone()))
        .collect();
    v.sort_by_key(|x| x.0);
    v
}

fn relevant_shards(program: &Value) -> HashSet<u64> {
    let mut s = HashSet::new();
    for (_, ops) in program_threads(program) {
        for op in ops {
            // ipv4 shards have lock ids 0..16, ipv6 16..32; programs use ipv4 only
            if let Some(h) = op.get("h").and_then(|x| x.as_i64()) {
                s.insert((ids::info_hash(h as u32)[0] % 16) as u64);
            }
            if let Some(hs) = op.get("hs").and_then(|x| x.as_array()) {
                for h in hs {
                    s.insert((ids::info_hash(h.as_u64().unwrap() as u32)[0] % 16) as u64);
                }
            }
        }
    }
    s
}

struct Outcome {
    events: Vec<Value>,
    choices: Vec<(usize, Vec<usize>)>, // (chosen, runnable set) per scheduling point
    deadlock: bool,
}

/// Execute one controlled schedule. `pick(point_index, runnable) -> thread`.
fn run_controlled(
    program: &Value,
    seed: u64,
    mut pick: impl FnMut(usize, &[usize]) -> usize,
) -> Outcome {
    verif_sync::set_controller(None);
    verif_sync::reset_lock_ids();
    let maps = TorrentMaps::default(); // locks 0..32 are the shards
    let config = Config::default();
    let threads = program_threads(program);
    let sched = Arc::new(Sched {
        shared: Mutex::new(Shared {
            status: threads.iter().map(|(t, _)| (*t, Status::NotStarted)).collect(),
            current: None,
            relevant: relevant_shards(program),
            holding_shard_write: HashMap::new(),
            log: Vec::new(),
            abort: false,
        }),
        cv: Condvar::new(),
        nshards: 32,
    });
    verif_sync::set_controller(Some(sched.clone()));
    let mut handles = Vec::new();
    for (t, ops) in threads.iter().cloned() {
        let maps = maps.clone();
        let config = config.clone();
        let sched = sched.clone();
        handles.push(std::thread::spawn(move || {
            THREAD_ID.with(|c| c.set(t));
            let mut rng = SmallRng::seed_from_u64(seed.wrapping_add(t as u64));
            let r = catch_unwind(AssertUnwindSafe(|| {
                // wait for the first grant
                sched.park(t, Status::AtYield(u64::MAX));
                for (i, op) in ops.iter().enumerate() {
                    let idx = {
                        let mut g = sched.shared.lock().unwrap();
                        g.log.push(json!({"ev":"call","thr":t,"i":i+1,"op":op}));
                        g.log.len() - 1
                    };
                    let reply = run_op(&maps, &config, op, &mut rng);
                    let mut g = sched.shared.lock().unwrap();
                    g.log[idx]["reply"] = reply.clone();
                    g.log.push(json!({"ev":"ret","thr":t,"i":i+1,"reply":reply}));
                }
            }));
            let mut g = sched.shared.lock().unwrap();
            if let Err(e) = r {
                if !e.is::<AbortRun>() {
                    g.log.push(json!({"ev":"panic","thr":t,"msg":panic_message(e)}));
                    g.abort = true;
                }
            }
            g.status.insert(t, Status::Done);
            if g.current == Some(t) {
                g.current = None;
            }
            sched.cv.notify_all();
        }));
    }
    // scheduler loop
    let mut choices = Vec::new();
    let mut deadlock = false;
    let started = Instant::now();
    loop {
        let mut g = sched.shared.lock().unwrap();
        // wait until nobody is running and every thread has reached its first park
        loop {
            let someone_running = g.current.is_some()
                || g.status.values().any(|s| *s == Status::NotStarted || *s == Status::Running);
            if !someone_running || g.abort {
                break;
            }
            let (g2, to) = sched.cv.wait_timeout(g, Duration::from_secs(5)).unwrap();
            g = g2;
            if to.timed_out() && started.elapsed() > Duration::from_secs(20) {
                eprintln!("udp_sched: scheduler stuck: {:?}", g.status);
                std::process::exit(2);
            }
        }
        if g.abort {
            break;
        }
        let mut runnable: Vec<usize> = g
            .status
            .iter()
            .filter(|(_, s)| matches!(s, Status::AtYield(_)))
            .map(|(t, _)| *t)
            .collect();
        runnable.sort();
        if runnable.is_empty() {
            if g.status.values().all(|s| *s == Status::Done) {
                break;
            }
            // every unfinished thread is blocked on a held lock
            let blocked: Vec<Value> = g
                .status
                .iter()
                .filter_map(|(t, s)| match s {
                    Status::Blocked(l, w) => Some(json!([t, l, w])),
                    _ => None,
                })
                .collect();
            g.log.push(json!({"ev":"deadlock","blocked":blocked}));
            g.abort = true;
            deadlock = true;
            sched.cv.notify_all();
            break;
        }
        let t = pick(choices.len(), &runnable);
        let t = if runnable.contains(&t) { t } else { runnable[0] };
        choices.push((t, runnable));
        g.current = Some(t);
        sched.cv.notify_all();
    }
    {
        let mut g = sched.shared.lock().unwrap();
        g.abort = g.abort || deadlock;
        sched.cv.notify_all();
    }
    for h in handles {
        let _ = h.join();
    }
    verif_sync::set_controller(None);
    let mut events = std::mem::take(&mut sched.shared.lock().unwrap().log);
    let aborted = events
        .iter()
        .any(|e| e["ev"] == "deadlock" || e["ev"] == "panic");
    if !aborted {
        events.push(json!({"ev":"final","dump":dump_json(&maps.verif_dump())}));
    }
    Outcome {
        events,
        choices,
        deadlock,
    }
}

/// Real parallel execution, no controller.
fn run_free(program: &Value, seed: u64) -> Vec<Value> {
    verif_sync::set_controller(None);
    let maps = TorrentMaps::default();
    let config = Config::default();
    let log: Arc<Mutex<Vec<Value>>> = Arc::new(Mutex::new(Vec::new()));
    let threads = program_threads(program);
    let barrier = Arc::new(std::sync::Barrier::new(threads.len()));
    let mut handles = Vec::new();
    for (t, ops) in threads.iter().cloned() {
        let maps = maps.clone();
        let config = config.clone();
        let log = log.clone();
        let barrier = barrier.clone();
        handles.push(std::thread::spawn(move || {
            let mut rng = SmallRng::seed_from_u64(seed.wrapping_add(t as u64));
            barrier.wait();
            for (i, op) in ops.iter().enumerate() {
                let idx = {
                    let mut g = log.lock().unwrap();
                    g.push(json!({"ev":"call","thr":t,"i":i+1,"op":op}));
                    g.len() - 1
                };
                let r = catch_unwind(AssertUnwindSafe(|| run_op(&maps, &config, op, &mut rng)));
                let mut g = log.lock().unwrap();
                match r {
                    Ok(reply) => {
                        g[idx]["reply"] = reply.clone();
                        g.push(json!({"ev":"ret","thr":t,"i":i+1,"reply":reply}));
                    }
                    Err(e) => {
                        g.push(json!({"ev":"panic","thr":t,"msg":panic_message(e)}));
                        return;
                    }
                }
            }
        }));
    }
    let deadline = Instant::now() + Duration::from_secs(20);
    for h in handles {
        while !h.is_finished() {
            if Instant::now() > deadline {
                let mut ev = std::mem::take(&mut *log.lock().unwrap());
                ev.push(json!({"ev":"deadlock","blocked":"no progress for 20 s in free-running mode"}));
                return ev;
            }
            std::thread::sleep(Duration::from_millis(1));
        }
        let _ = h.join();
    }
    let mut events = std::mem::take(&mut *log.lock().unwrap());
    if !events.iter().any(|e| e["ev"] == "panic") {
        events.push(json!({"ev":"final","dump":dump_json(&maps.verif_dump())}));
    }
    events
}

fn emit_run(tracer: &mut Tracer, runid: &mut i64, job: i64, program: &Value, kind: &str, schedule: &[usize], events: Vec<Value>) {
    tracer.emit(json!({"ev":"reset","run":*runid,"job":job,"program":program,"kind":kind,"schedule":schedule}));
    for e in events {
        tracer.emit(e);
    }
    *runid += 1;
}

fn main() {
    let args: Vec<String> = std::env::args().collect();
    if args.len() != 3 {
        eprintln!("usage: udp_sched <jobs.jsonl> <trace.ndjson>");
        std::process::exit(2);
    }
    quiet_panics();
    let jobs = read_behaviours(&args[1]);
    let mut tracer = Tracer::create(&args[2]);
    let seed: u64 = std::env::var("VERIF_SEED")
        .ok()
        .and_then(|s| s.parse().ok())
        .unwrap_or(1);
    let mut runid: i64 = 0;
    let mut nsched = 0usize;
    let mut ndeadlock = 0usize;
    for (j, job) in jobs.iter().enumerate() {
        let jobid = get_i64_or(job, "run", j as i64);
        let program = &job["program"];
        let strat = &job["strategy"];
        match get_str(strat, "kind") {
            "schedule" => {
                let order: Vec<usize> = strat["order"]
                    .as_array()
                    .unwrap()
                    .iter()
                    .map(|x| x.as_u64().unwrap() as usize)
                    .collect();
                let mut pos = 0usize;
                let out = run_controlled(program, seed, |_, runnable| {
                    while pos < order.len() {
                        let t = order[pos];
                        pos += 1;
                        if runnable.contains(&t) {
                            return t;
                        }
                    }
                    runnable[0]
                });
                ndeadlock += out.deadlock as usize;
                let sch: Vec<usize> = out.choices.iter().map(|c| c.0).collect();
                emit_run(&mut tracer, &mut runid, jobid, program, "schedule", &sch, out.events);
                nsched += 1;
            }
            "dfs" => {
                let max_runs = get_i64_or(strat, "max_runs", 100) as usize;
                // stack of (prefix choices); classic stateless DFS with replay
                let mut prefix: Vec<usize> = Vec::new();
                let mut n = 0usize;
                loop {
                    let pf = prefix.clone();
                    let out = run_controlled(program, seed, |i, runnable| {
                        if i < pf.len() {
                            pf[i]
                        } else {
                            runnable[0]
                        }
                    });
                    ndeadlock += out.deadlock as usize;
                    let sch: Vec<usize> = out.choices.iter().map(|c| c.0).collect();
                    let choices = out.choices.clone();
                    emit_run(&mut tracer, &mut runid, jobid, program, "dfs", &sch, out.events);
                    nsched += 1;
                    n += 1;
                    if n >= max_runs {
                        break;
                    }
                    // next: deepest point with an untried larger alternative
                    let mut next: Option<Vec<usize>> = None;
                    for i in (0..choices.len()).rev() {
                        let (chosen, runnable) = &choices[i];
                        if let Some(alt) = runnable.iter().find(|t| **t > *chosen) {
                            let mut p: Vec<usize> = choices[..i].iter().map(|c| c.0).collect();
                            p.push(*alt);
                            next = Some(p);
                            break;
                        }
                    }
                    match next {
                        Some(p) => prefix = p,
                        None => break,
                    }
                }
            }
            "random" => {
                let runs = get_i64_or(strat, "runs", 50) as usize;
                for r in 0..runs {
                    let mut rng = SmallRng::seed_from_u64(
                        seed.wrapping_mul(7919).wrapping_add((jobid as u64) << 20).wrapping_add(r as u64),
                    );
                    // biased: keep running the same thread with probability 1/2
                    let mut last = 0usize;
                    let out = run_controlled(program, seed + r as u64, |_, runnable| {
                        if runnable.contains(&last) && rng.random_bool(0.5) {
                            return last;
                        }
                        last = runnable[rng.random_range(0..runnable.len())];
                        last
                    });
                    ndeadlock += out.deadlock as usize;
                    let sch: Vec<usize> = out.choices.iter().map(|c| c.0).collect();
                    emit_run(&mut tracer, &mut runid, jobid, program, "random", &sch, out.events);
                    nsched += 1;
                }
            }
            "free" => {
                let runs = get_i64_or(strat, "runs", 50) as usize;
                for r in 0..runs {
                    let ev = run_free(program, seed + r as u64);
                    emit_run(&mut tracer, &mut runid, jobid, program, "free", &[], ev);
                    nsched += 1;
                }
            }
            k => panic!("unknown strategy {}", k),
        }
    }
    eprintln!(
        "udp_sched: {} jobs, {} schedules executed, {} deadlocks, {} events",
        jobs.len(),
        nsched,
        ndeadlock,
        tracer.events
    );
    tracer.finish();
}
