//! Runs one real tracker in this process: srv <udp|http|ws> <config.json>
//!
//! Always used as a child process (a tracker's worker threads cannot be
//! stopped).  The configuration is the tracker's own serde `Config`
//! deserialised from JSON (missing fields take their defaults).  If `run()`
//! returns, its result and a monotonic timestamp are printed and the process
//! exits with status 3.

use std::time::Instant;

fn main() {
    let start = Instant::now();
    let args: Vec<String> = std::env::args().collect();
    if args.len() != 3 {
        eprintln!("usage: srv <udp|http|ws> <config.json>");
        std::process::exit(2);
    }
    let text = std::fs::read_to_string(&args[2]).expect("read config");
    // touch the fault registry so that its monotonic clock starts now
    let _ = aquatic_common::verif::monotonic_ms();
    let result = match args[1].as_str() {
        "udp" => {
            let config: aquatic_udp::config::Config = serde_json::from_str(&text).expect("udp config");
            println!("SRV-START udp t_ms={}", aquatic_common::verif::monotonic_ms());
            aquatic_udp::run(config)
        }
        "http" => {
            let config: aquatic_http::config::Config = serde_json::from_str(&text).expect("http config");
            println!("SRV-START http t_ms={}", aquatic_common::verif::monotonic_ms());
            aquatic_http::run(config)
        }
        "ws" => {
            let config: aquatic_ws::config::Config = serde_json::from_str(&text).expect("ws config");
            println!("SRV-START ws t_ms={}", aquatic_common::verif::monotonic_ms());
            aquatic_ws::run(config)
        }
        t => panic!("unknown tracker {}", t),
    };
    let _ = start;
    match result {
        Ok(()) => println!("RUN-RETURNED ok t_ms={}", aquatic_common::verif::monotonic_ms()),
        Err(e) => println!(
            "RUN-RETURNED err t_ms={} msg={:#}",
            aquatic_common::verif::monotonic_ms(),
            e
        ),
    }
    use std::io::Write;
    let _ = std::io::stdout().flush();
    std::process::exit(3);
}
