//! Crash / reader experiments on the UDP tracker's full-scrape export (C20, second half).
//!
//! usage: udp_export <dir> <n_old> <n_new> <mode>
//!   mode "crash":  first export of n_old torrents, then a second export of n_new torrents during
//!                  which a fault point armed through AQUATIC_VERIF_FAULTS aborts the process
//!   mode "reader": as above without a crash; a reader thread polls the file throughout the second
//!                  export and classifies every read (prints a JSON summary)

use std::net::SocketAddr;
use std::num::NonZeroU16;
use std::sync::atomic::{AtomicBool, Ordering};
use std::sync::Arc;

use aquatic_common::access_list::AccessListArcSwap;
use aquatic_common::{CanonicalSocketAddr, SecondsSinceServerStart, ValidUntil};
use aquatic_udp::common::*;
use aquatic_udp::config::Config;
use aquatic_udp::swarm::TorrentMaps;
use aquatic_udp_protocol::*;
use rand::prelude::SmallRng;
use rand::SeedableRng;

use vharness::ids;

fn announce(maps: &TorrentMaps, config: &Config, h: u32, key: u32, seeder: bool) {
    let (tx, _rx) = crossbeam_channel::unbounded();
    let mut rng = SmallRng::seed_from_u64(1);
    let (ip, port) = ids::key_addr(4, &format!("k{}", key));
    let request = AnnounceRequest {
        connection_id: ConnectionId::new(0),
        action_placeholder: Default::default(),
        transaction_id: TransactionId::new(1),
        info_hash: InfoHash(ids::info_hash(h)),
        peer_id: PeerId(ids::peer_id(1)),
        bytes_downloaded: NumberOfBytes::new(0),
        bytes_left: NumberOfBytes::new(if seeder { 0 } else { 1 }),
        bytes_uploaded: NumberOfBytes::new(0),
        event: AnnounceEvent::Started.into(),
        ip_address: Ipv4AddrBytes([0, 0, 0, 0]),
        key: PeerKey::new(0),
        peers_wanted: NumberOfPeers::new(-1),
        port: Port::new(NonZeroU16::new(port).unwrap()),
    };
    maps.announce(
        config,
        &tx,
        &mut rng,
        &request,
        CanonicalSocketAddr::new(SocketAddr::new(ip, 40000)),
        ValidUntil::new_raw(SecondsSinceServerStart::new_raw(1000)),
    );
}

fn export(maps: &TorrentMaps, config: &Config) {
    let stats: CachePaddedArc<IpVersionStatistics<SwarmWorkerStatistics>> = Default::default();
    let (tx, _rx) = crossbeam_channel::unbounded();
    let al = Arc::new(AccessListArcSwap::default());
    maps.clean_and_update_statistics(config, &stats, &tx, &al, SecondsSinceServerStart::new_raw(1), true);
}

fn main() {
    let args: Vec<String> = std::env::args().collect();
    if args.len() != 5 {
        eprintln!("usage: udp_export <dir> <n_old> <n_new> <crash|reader>");
        std::process::exit(2);
    }
    let dir = std::path::PathBuf::from(&args[1]);
    let n_old: u32 = args[2].parse().unwrap();
    let n_new: u32 = args[3].parse().unwrap();
    let mut config = Config::default();
    config.scrape_exports.enable_scrape_exports = true;
    config.scrape_exports.path = dir.join("export.txt");
    let maps = TorrentMaps::default();
    if args[4] == "single" {
        // a fresh process exporting n_old torrents once into a directory that may hold leftovers
        for h in 1..=n_old {
            announce(&maps, &config, h, 0, true);
        }
        export(&maps, &config);
        println!("SINGLE-EXPORT-DONE");
        return;
    }
    // old generation: torrent h has one seeder
    for h in 1..=n_old {
        announce(&maps, &config, h, 0, true);
    }
    export(&maps, &config);
    println!("FIRST-EXPORT-DONE");
    // new generation: every old torrent gains a leecher, and new torrents appear
    for h in 1..=n_new {
        announce(&maps, &config, h, 1, false);
    }
    if args[4] == "reader" {
        let stop = Arc::new(AtomicBool::new(false));
        let path = config.scrape_exports.path.clone();
        let stop2 = stop.clone();
        let reader = std::thread::spawn(move || {
            let (mut old, mut new, mut other, mut missing) = (0u64, 0u64, 0u64, 0u64);
            let mut sample = String::new();
            while !stop2.load(Ordering::SeqCst) {
                match std::fs::read_to_string(&path) {
                    Ok(text) => {
                        let lines: Vec<&str> = text.lines().collect();
                        let well_formed = lines.iter().all(|l| l.split(' ').count() == 4) && text.ends_with('\n');
                        let all_old = well_formed && lines.len() as u32 == n_old && lines.iter().all(|l| l.ends_with(" 1 0"));
                        let all_new = well_formed
                            && lines.len() as u32 == n_old.max(n_new)
                            && lines.iter().all(|l| l.ends_with(" 1 1") || l.ends_with(" 0 1") || l.ends_with(" 1 0"))
                            && lines.iter().filter(|l| l.ends_with(" 1 1") || l.ends_with(" 0 1")).count() as u32 == n_new;
                        if all_old {
                            old += 1
                        } else if all_new {
                            new += 1
                        } else {
                            other += 1;
                            if sample.is_empty() {
                                sample = format!("{} lines, last: {:?}", lines.len(), lines.last());
                            }
                        }
                    }
                    Err(_) => missing += 1,
                }
            }
            (old, new, other, missing, sample)
        });
        for _ in 0..3 {
            export(&maps, &config);
        }
        std::thread::sleep(std::time::Duration::from_millis(20));
        stop.store(true, Ordering::SeqCst);
        let (old, new, other, missing, sample) = reader.join().unwrap();
        println!(
            "{{\"ev\":\"reader\",\"reads_old\":{},\"reads_new\":{},\"reads_other\":{},\"reads_missing\":{},\"sample\":{:?}}}",
            old, new, other, missing, sample
        );
    } else {
        export(&maps, &config);
        println!("SECOND-EXPORT-DONE");
    }
}
