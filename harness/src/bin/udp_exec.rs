//! Sequential executor for the UDP tracker's swarm state
//! (aquatic_udp::swarm::TorrentMaps) - properties C01 C02 C10 C11 C20(a).
//!
//! usage: udp_exec <behaviours.jsonl> <trace.ndjson>
//!
//! Each behaviour {"run":n,"cfg":{...},"ops":[...]} is executed on fresh
//! state; every operation is logged with its arguments and everything the
//! caller can observe.  Panics are caught and logged as events.

use std::net::{IpAddr, SocketAddr};
use std::num::NonZeroU16;
use std::panic::{catch_unwind, AssertUnwindSafe};
use std::sync::atomic::Ordering;
use std::sync::Arc;

use aquatic_common::access_list::{update_access_list, AccessListArcSwap, AccessListMode};
use aquatic_common::{CanonicalSocketAddr, SecondsSinceServerStart, ValidUntil};
use aquatic_udp::common::*;
use aquatic_udp::config::Config;
use aquatic_udp::swarm::TorrentMaps;
use aquatic_udp_protocol::*;
use rand::prelude::SmallRng;
use rand::SeedableRng;
use serde_json::{json, Value};

use vharness::ids;
use vharness::trace::Tracer;
use vharness::*;

fn event_of(s: &str) -> AnnounceEvent {
    match s {
        "started" => AnnounceEvent::Started,
        "stopped" => AnnounceEvent::Stopped,
        "completed" => AnnounceEvent::Completed,
        "none" => AnnounceEvent::None,
        _ => panic!("bad event {}", s),
    }
}

/// `left` is given either as a sign (-1/0/1, expanded to extreme values
/// chosen by `leftval`) or directly.
fn left_value(op: &Value) -> i64 {
    let sign = get_i64(op, "left");
    match op.get("leftval").and_then(|v| v.as_str()) {
        Some("max") if sign > 0 => i64::MAX,
        Some("min") if sign < 0 => i64::MIN,
        _ => sign,
    }
}

struct Run {
    config: Config,
    maps: TorrentMaps,
    access_list: Arc<AccessListArcSwap>,
    statistics: CachePaddedArc<IpVersionStatistics<SwarmWorkerStatistics>>,
    sender: crossbeam_channel::Sender<StatisticsMessage>,
    receiver: crossbeam_channel::Receiver<StatisticsMessage>,
    rng: SmallRng,
    dump: bool,
    dir: tempfile::TempDir,
}

fn drain_msgs(rx: &crossbeam_channel::Receiver<StatisticsMessage>) -> Vec<Value> {
    let mut out = Vec::new();
    for m in rx.try_iter() {
        match m {
            StatisticsMessage::PeerAdded(p) => out.push(json!([
                "added",
                ids::peer_id_rev(&p.0).map(|x| x as i64).unwrap_or(-1)
            ])),
            StatisticsMessage::PeerRemoved(p) => out.push(json!([
                "removed",
                ids::peer_id_rev(&p.0).map(|x| x as i64).unwrap_or(-1)
            ])),
            _ => {}
        }
    }
    out
}

fn new_run(cfg: &Value, seed: u64) -> Run {
    let dir = tempfile::tempdir().expect("tempdir");
    let mut config = Config::default();
    config.protocol.max_response_peers = get_i64_or(cfg, "max_resp", 30) as usize;
    config.statistics.interval = 1;
    config.statistics.print_to_stdout = true; // makes statistics "active"
    config.statistics.peer_clients = get_bool_or(cfg, "peer_clients", true);
    config.scrape_exports.enable_scrape_exports = true;
    config.scrape_exports.path = dir.path().join("export.txt");
    config.access_list.path = dir.path().join("access-list.txt");
    config.access_list.mode = match get_str_or(cfg, "mode", "off") {
        "off" => AccessListMode::Off,
        "allow" => AccessListMode::Allow,
        "deny" => AccessListMode::Deny,
        m => panic!("bad mode {}", m),
    };
    let (sender, receiver) = crossbeam_channel::unbounded();
    Run {
        config,
        maps: TorrentMaps::default(),
        access_list: Arc::new(AccessListArcSwap::default()),
        statistics: Default::default(),
        sender,
        receiver,
        rng: SmallRng::seed_from_u64(seed),
        dump: get_bool_or(cfg, "dumps", false),
        dir,
    }
}

fn src_addr(fam: u8, key: &str) -> (CanonicalSocketAddr, u16) {
    let (ip, port) = ids::key_addr(fam, key);
    // The source port of the datagram is unrelated to the announced port.
    (CanonicalSocketAddr::new(SocketAddr::new(ip, 40000)), port)
}

fn peers_json<I: Ip>(fam: u8, peers: &[ResponsePeer<I>]) -> Vec<Value>
where
    I: Into<IpAddr> + Copy,
{
    let _ = fam;
    peers
        .iter()
        .map(|p| {
            let ip: IpAddr = p.ip_address.into();
            json!(ids::key_name(ip, p.port.0.get()))
        })
        .collect()
}

fn exec_op(run: &mut Run, op: &Value) -> Value {
    let mut ev = exec_op_inner(run, op);
    if run.dump {
        ev["dump"] = dump_json(&run.maps.verif_dump());
    }
    ev
}

fn exec_op_inner(run: &mut Run, op: &Value) -> Value {
    match get_str(op, "op") {
        "announce" => {
            let fam = get_i64(op, "fam") as u8;
            let h = get_i64(op, "h") as u32;
            let key = get_str(op, "key");
            let (src, port) = src_addr(fam, key);
            let pid = get_i64(op, "pid") as u32;
            if get_bool_or(op, "gated", false)
                && !run
                    .access_list
                    .load()
                    .allows(run.config.access_list.mode, &ids::info_hash(h))
            {
                // the socket workers answer with an error and never call the swarm
                return json!({"ev":"announce_rejected","t":[fam,h],"key":key});
            }
            let numwant = get_i64(op, "numwant") as i32;
            let deadline = get_i64(op, "deadline") as u32;
            let request = AnnounceRequest {
                connection_id: ConnectionId::new(0),
                action_placeholder: Default::default(),
                transaction_id: TransactionId::new(7),
                info_hash: InfoHash(ids::info_hash(h)),
                peer_id: PeerId(ids::peer_id(pid)),
                bytes_downloaded: NumberOfBytes::new(0),
                bytes_left: NumberOfBytes::new(left_value(op)),
                bytes_uploaded: NumberOfBytes::new(0),
                event: event_of(get_str(op, "event")).into(),
                // in-request address field: must never influence anything
                ip_address: Ipv4AddrBytes([8, 8, 8, 8]),
                key: PeerKey::new(0),
                peers_wanted: NumberOfPeers::new(numwant),
                port: Port::new(NonZeroU16::new(port).unwrap()),
            };
            let valid_until = ValidUntil::new_raw(SecondsSinceServerStart::new_raw(deadline));
            let resp = run.maps.announce(
                &run.config,
                &run.sender,
                &mut run.rng,
                &request,
                src,
                valid_until,
            );
            let (rfam, seeders, leechers, peers) = match resp {
                Response::AnnounceIpv4(r) => (
                    4,
                    r.fixed.seeders.0.get(),
                    r.fixed.leechers.0.get(),
                    r.peers
                        .iter()
                        .map(|p| {
                            json!(ids::key_name(
                                IpAddr::V4(p.ip_address.into()),
                                p.port.0.get()
                            ))
                        })
                        .collect::<Vec<_>>(),
                ),
                Response::AnnounceIpv6(r) => (
                    6,
                    r.fixed.seeders.0.get(),
                    r.fixed.leechers.0.get(),
                    r.peers
                        .iter()
                        .map(|p| {
                            json!(ids::key_name(
                                IpAddr::V6(p.ip_address.into()),
                                p.port.0.get()
                            ))
                        })
                        .collect::<Vec<_>>(),
                ),
                _ => (0, -1, -1, vec![]),
            };
            let msgs = drain_msgs(&run.receiver);
            json!({"ev":"announce","t":[fam,h],"key":key,"event":get_str(op,"event"),
                   "left":get_i64(op,"left"),"numwant":numwant,"deadline":deadline,"pid":pid,
                   "gated":get_bool_or(op, "gated", false),
                   "reply":{"fam":rfam,"seeders":seeders,"leechers":leechers,"peers":peers},
                   "msgs":msgs})
        }
        "scrape" => {
            let fam = get_i64(op, "fam") as u8;
            let hs: Vec<u32> = op["hs"]
                .as_array()
                .expect("hs")
                .iter()
                .map(|x| x.as_i64().unwrap() as u32)
                .collect();
            let (src, _) = src_addr(fam, "k0");
            let request = ScrapeRequest {
                connection_id: ConnectionId::new(0),
                transaction_id: TransactionId::new(9),
                info_hashes: hs.iter().map(|h| InfoHash(ids::info_hash(*h))).collect(),
            };
            let resp = run.maps.scrape(request, src);
            let reply: Vec<Value> = resp
                .torrent_stats
                .iter()
                .map(|s| json!([s.seeders.0.get(), s.leechers.0.get()]))
                .collect();
            json!({"ev":"scrape","fam":fam,"hs":hs,"reply":reply})
        }
        "clean" => {
            let now = get_i64(op, "now") as u32;
            let export = get_bool_or(op, "export", true);
            let _ = std::fs::remove_file(&run.config.scrape_exports.path);
            run.maps.clean_and_update_statistics(
                &run.config,
                &run.statistics,
                &run.sender,
                &run.access_list,
                SecondsSinceServerStart::new_raw(now),
                export,
            );
            let msgs = drain_msgs(&run.receiver);
            let removed: Vec<Value> = msgs
                .iter()
                .filter(|m| m[0] == "removed")
                .map(|m| m[1].clone())
                .collect();
            let other: Vec<Value> = msgs.iter().filter(|m| m[0] != "removed").cloned().collect();
            let mut lines = Vec::new();
            let mut export_state = "absent";
            if let Ok(text) = std::fs::read_to_string(&run.config.scrape_exports.path) {
                export_state = "present";
                for line in text.lines() {
                    let parts: Vec<&str> = line.split(' ').collect();
                    if parts.len() != 4 {
                        lines.push(json!(["?", line]));
                        continue;
                    }
                    let mut hb = [0u8; 20];
                    let ok = parts[1].len() == 40
                        && (0..20).all(|i| {
                            u8::from_str_radix(&parts[1][2 * i..2 * i + 2], 16)
                                .map(|b| hb[i] = b)
                                .is_ok()
                        });
                    let h = if ok { ids::info_hash_rev(&hb) } else { None };
                    lines.push(json!([
                        parts[0].parse::<i64>().unwrap_or(-1),
                        h.map(|x| x as i64).unwrap_or(-1),
                        parts[2].parse::<i64>().unwrap_or(-1),
                        parts[3].parse::<i64>().unwrap_or(-1)
                    ]));
                }
            }
            let tmp_left = run.config.scrape_exports.tmp_path().exists();
            let s = &run.statistics;
            json!({"ev":"clean","now":now,"export_on":export,
                   "torrents":[s.ipv4.torrents.load(Ordering::Relaxed), s.ipv6.torrents.load(Ordering::Relaxed)],
                   "peers":[s.ipv4.peers.load(Ordering::Relaxed), s.ipv6.peers.load(Ordering::Relaxed)],
                   "removed":removed,"othermsgs":other,
                   "export_file":export_state,"export":lines,"tmp_left":tmp_left})
        }
        "reload" => {
            let path = run.config.access_list.path.clone();
            let file = op.get("file").cloned().unwrap_or(json!({}));
            if get_str_or(&file, "kind", "good") == "missing" {
                let _ = std::fs::remove_file(&path);
            } else {
                std::fs::write(&path, get_str(op, "text")).expect("write access list");
            }
            let res = update_access_list(&run.config.access_list, &run.access_list);
            json!({"ev":"reload","file":file,"ok":res.is_ok()})
        }
        "allowed" => {
            // the gate the socket workers apply before calling the swarm
            let h = get_i64(op, "h") as u32;
            let ok = run
                .access_list
                .load()
                .allows(run.config.access_list.mode, &ids::info_hash(h));
            json!({"ev":"allowed","h":h,"ok":ok})
        }
        o => panic!("unknown op {}", o),
    }
}

fn main() {
    let args: Vec<String> = std::env::args().collect();
    if args.len() != 3 {
        eprintln!("usage: udp_exec <behaviours.jsonl> <trace.ndjson>");
        std::process::exit(2);
    }
    quiet_panics();
    let behaviours = read_behaviours(&args[1]);
    let mut tracer = Tracer::create(&args[2]);
    let seed: u64 = std::env::var("VERIF_SEED")
        .ok()
        .and_then(|s| s.parse().ok())
        .unwrap_or(1);
    for (i, b) in behaviours.iter().enumerate() {
        let cfg = b.get("cfg").cloned().unwrap_or(json!({}));
        let runid = get_i64_or(b, "run", i as i64);
        let mut run = new_run(&cfg, seed.wrapping_mul(1_000_003).wrapping_add(runid as u64));
        let mut reset = json!({"ev":"reset","run":runid,"tracker":"udp"});
        for (k, v) in cfg.as_object().cloned().unwrap_or_default() {
            reset[k] = v;
        }
        reset["max_resp"] = json!(run.config.protocol.max_response_peers);
        reset["mode"] = json!(get_str_or(&cfg, "mode", "off"));
        reset["dumps"] = json!(run.dump);
        tracer.emit(reset);
        for op in b["ops"].as_array().expect("ops") {
            let r = catch_unwind(AssertUnwindSafe(|| exec_op(&mut run, op)));
            match r {
                Ok(ev) => tracer.emit(ev),
                Err(e) => {
                    tracer.emit(json!({"ev":"panic","during":op,"msg":panic_message(e)}));
                    break;
                }
            }
        }
        drop(run.dir);
    }
    eprintln!("udp_exec: {} runs, {} events", behaviours.len(), tracer.events);
    tracer.finish();
}
