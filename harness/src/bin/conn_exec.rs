//! Executor for the UDP ConnectionValidator (property C05).
//!
//! usage: conn_exec <behaviours.jsonl> <trace.ndjson>
//!
//! ops: issue{ip}, clock{t:[hi,lo]}, check{ip, id:{ref:n | ref:n,flip:[bits] | raw:"hex" | foreign:n}}
//! Times are pairs [hi, lo] in base 2^20.

use std::net::{IpAddr, Ipv4Addr, Ipv6Addr, SocketAddr};
use std::panic::{catch_unwind, AssertUnwindSafe};

use aquatic_common::CanonicalSocketAddr;
use aquatic_udp::config::Config;
use aquatic_udp::workers::socket::ConnectionValidator;
use aquatic_udp_protocol::ConnectionId;
use serde_json::{json, Value};

use vharness::trace::Tracer;
use vharness::*;

fn big(v: &Value) -> u64 {
    let a = v.as_array().expect("big");
    a[0].as_u64().unwrap() * (1 << 20) + a[1].as_u64().unwrap()
}

fn addr(ip: &Value) -> CanonicalSocketAddr {
    let a = ip.as_array().expect("ip");
    let n = a[1].as_u64().unwrap() as u16;
    let ip = match a[0].as_str().unwrap() {
        "v4" => IpAddr::V4(Ipv4Addr::new(10, 0, (n >> 8) as u8, n as u8)),
        "map" => IpAddr::V6(Ipv4Addr::new(10, 0, (n >> 8) as u8, n as u8).to_ipv6_mapped()),
        // host numbers above 255 also differ in the upper address bytes
        "v6" => IpAddr::V6(Ipv6Addr::new(0xfd00, n >> 8, 0, 0, n >> 8, 0, 0, n)),
        k => panic!("bad ip kind {}", k),
    };
    CanonicalSocketAddr::new(SocketAddr::new(ip, 4000 + n))
}

fn hex(id: ConnectionId) -> String {
    format!("{:016x}", id.0.get() as u64)
}

fn main() {
    let args: Vec<String> = std::env::args().collect();
    if args.len() != 3 {
        eprintln!("usage: conn_exec <behaviours.jsonl> <trace.ndjson>");
        std::process::exit(2);
    }
    quiet_panics();
    let behaviours = read_behaviours(&args[1]);
    let mut tracer = Tracer::create(&args[2]);
    for (i, b) in behaviours.iter().enumerate() {
        let runid = get_i64_or(b, "run", i as i64);
        let max_age = big(&b["cfg"]["max_age"]);
        let mut config = Config::default();
        config.cleaning.max_connection_age = max_age as u32;
        let mut validator = ConnectionValidator::new(&config).expect("validator");
        // a second instance with its own key: ids "from a previous run"
        let mut other = ConnectionValidator::new(&config).expect("validator");
        let mut issued: Vec<ConnectionId> = Vec::new();
        let mut foreign: Vec<ConnectionId> = Vec::new();
        let mut now: u32 = 0;
        tracer.emit(json!({"ev":"reset","run":runid,"max_age":b["cfg"]["max_age"]}));
        for op in b["ops"].as_array().expect("ops") {
            let r = catch_unwind(AssertUnwindSafe(|| match get_str(op, "op") {
                "clock" => {
                    now = big(&op["t"]) as u32;
                    validator.verif_set_elapsed(now);
                    other.verif_set_elapsed(now);
                    json!({"ev":"clock","t":op["t"]})
                }
                "issue" => {
                    let a = addr(&op["ip"]);
                    let id = validator.create_connection_id(a);
                    issued.push(id);
                    foreign.push(other.create_connection_id(a));
                    json!({"ev":"issue","ip":op["ip"],"id":hex(id)})
                }
                "check" => {
                    let a = addr(&op["ip"]);
                    let spec = &op["id"];
                    let (id, how) = if let Some(n) = spec.get("foreign").and_then(|x| x.as_u64()) {
                        (foreign[n as usize % foreign.len().max(1)], "foreign")
                    } else if let Some(raw) = spec.get("raw").and_then(|x| x.as_str()) {
                        (
                            ConnectionId::new(u64::from_str_radix(raw, 16).expect("raw hex") as i64),
                            "raw",
                        )
                    } else {
                        let n = spec["ref"].as_u64().expect("ref") as usize;
                        let mut v = issued[n % issued.len().max(1)].0.get() as u64;
                        let mut how = "ref";
                        if let Some(bits) = spec.get("flip").and_then(|x| x.as_array()) {
                            for bit in bits {
                                v ^= 1u64 << (bit.as_u64().unwrap() % 64);
                            }
                            how = "flip";
                        }
                        (ConnectionId::new(v as i64), how)
                    };
                    let ok = validator.connection_id_valid(a, id);
                    json!({"ev":"check","ip":op["ip"],"id":hex(id),"ok":ok,"how":how})
                }
                o => panic!("unknown op {}", o),
            }));
            match r {
                Ok(ev) => tracer.emit(ev),
                Err(e) => {
                    tracer.emit(json!({"ev":"panic","during":op,"msg":panic_message(e)}));
                    break;
                }
            }
        }
    }
    eprintln!("conn_exec: {} runs, {} events", behaviours.len(), tracer.events);
    tracer.finish();
}
