//! Sequential executor for one WebTorrent swarm worker's storage
//! (aquatic_ws::verif::TorrentMaps) - properties C08 C09 C02 C10 C11.
//!
//! usage: ws_exec <behaviours.jsonl> <trace.ndjson>
//!
//! Operations are client-level (announce / scrape / close on a connection).
//! The socket workers' per-connection bookkeeping (one peer id per torrent,
//! the list of announced torrents sent as ConnectionClosed on close) lives in
//! private async code; it is emulated here exactly as
//! crates/ws/src/workers/socket/connection.rs does it, and what it did is
//! logged (`refused`, `closed_calls`) so that the specification checks the
//! emulation too.  The real socket workers are exercised end to end by C17.

use std::collections::HashMap;
use std::panic::{catch_unwind, AssertUnwindSafe};
use std::sync::Arc;

use aquatic_common::access_list::{update_access_list, AccessListArcSwap, AccessListMode};
use aquatic_common::ServerStartInstant;
use aquatic_ws::common::*;
use aquatic_ws::config::Config;
use aquatic_ws::verif::TorrentMaps;
use aquatic_ws_protocol::common::*;
use aquatic_ws_protocol::incoming::*;
use aquatic_ws_protocol::outgoing::*;
use rand::prelude::SmallRng;
use rand::SeedableRng;
use serde_json::{json, Value};
use slotmap::KeyData;

use vharness::ids;
use vharness::trace::Tracer;
use vharness::*;

struct Run {
    config: Config,
    maps: TorrentMaps,
    access_list: Arc<AccessListArcSwap>,
    start: ServerStartInstant,
    rng: SmallRng,
    dump: bool,
    /// socket-side emulation: (consumer, slot) -> info hash -> peer id
    announced: HashMap<(u8, u64), HashMap<u32, u32>>,
    dir: tempfile::TempDir,
}

fn new_run(cfg: &Value, seed: u64) -> Run {
    let dir = tempfile::tempdir().expect("tempdir");
    let mut config = Config::default();
    config.protocol.max_offers = get_i64_or(cfg, "max_offers", 10) as usize;
    config.protocol.max_scrape_torrents = get_i64_or(cfg, "max_scrape", 255) as usize;
    config.cleaning.max_peer_age = get_i64_or(cfg, "max_peer_age", 180) as u32;
    config.cleaning.max_offer_age = get_i64_or(cfg, "max_offer_age", 120) as u32;
    config.access_list.path = dir.path().join("access-list.txt");
    config.access_list.mode = match get_str_or(cfg, "mode", "off") {
        "off" => AccessListMode::Off,
        "allow" => AccessListMode::Allow,
        "deny" => AccessListMode::Deny,
        m => panic!("bad mode {}", m),
    };
    Run {
        config,
        maps: TorrentMaps::new(0),
        access_list: Arc::new(AccessListArcSwap::default()),
        start: ServerStartInstant::new(),
        rng: SmallRng::seed_from_u64(seed),
        dump: get_bool_or(cfg, "dumps", true),
        announced: HashMap::new(),
        dir,
    }
}

fn conn_of(op: &Value) -> (u8, u64) {
    let c = op["c"].as_array().expect("c");
    (c[0].as_i64().unwrap() as u8, c[1].as_i64().unwrap() as u64)
}

fn connection_id(slot: u64) -> ConnectionId {
    // version 1 (occupied), index = slot
    ConnectionId::from(KeyData::from_ffi((1u64 << 32) | slot))
}

fn conn_json(consumer: ConsumerId, conn: ConnectionId) -> Value {
    use slotmap::Key;
    let ffi = conn.data().as_ffi();
    json!([consumer.0, ffi & 0xffff_ffff])
}

fn meta(c: (u8, u64), fam: u8) -> InMessageMeta {
    InMessageMeta {
        out_message_consumer_id: ConsumerId(c.0),
        connection_id: connection_id(c.1),
        ip_version: if fam == 4 { IpVersion::V4 } else { IpVersion::V6 },
        pending_scrape_id: None,
    }
}

fn sdp(kind: &str, pid: u32, oid: u32) -> String {
    format!("{}-{}-{}\"\\\u{1F600}", kind, pid, oid)
}

fn h_of(ih: &InfoHash) -> i64 {
    ids::info_hash_rev(&ih.0).map(|x| x as i64).unwrap_or(-1)
}
fn p_of(b: &[u8; 20]) -> i64 {
    ids::peer_id_rev(b).map(|x| x as i64).unwrap_or(-1)
}

fn out_json(out: &[(OutMessageMeta, OutMessage)]) -> Vec<Value> {
    out.iter()
        .map(|(m, msg)| {
            let to = conn_json(m.out_message_consumer_id, m.connection_id);
            match msg {
                OutMessage::OfferOutMessage(o) => {
                    let from = p_of(&o.peer_id.0);
                    let oid = p_of(&o.offer_id.0);
                    json!({"kind":"offer","to":to,"h":h_of(&o.info_hash),"from":from,"oid":oid,
                           "payload_ok": o.offer.sdp == sdp("offer", from as u32, oid as u32)})
                }
                OutMessage::AnswerOutMessage(a) => {
                    let from = p_of(&a.peer_id.0);
                    let oid = p_of(&a.offer_id.0);
                    json!({"kind":"answer","to":to,"h":h_of(&a.info_hash),"from":from,"oid":oid,
                           "payload_ok": a.answer.sdp == sdp("answer", from as u32, oid as u32)})
                }
                OutMessage::AnnounceResponse(r) => {
                    json!({"kind":"announce","to":to,"h":h_of(&r.info_hash),
                           "seeders":r.complete,"leechers":r.incomplete})
                }
                OutMessage::ScrapeResponse(r) => {
                    let mut files: Vec<(i64, usize, usize)> = r
                        .files
                        .iter()
                        .map(|(ih, s)| (h_of(ih), s.complete, s.incomplete))
                        .collect();
                    files.sort();
                    json!({"kind":"scrape","to":to,
                           "files": files.iter().map(|f| json!([f.0, f.1, f.2])).collect::<Vec<_>>()})
                }
                OutMessage::ErrorResponse(e) => {
                    json!({"kind":"error","to":to,
                           "h": e.info_hash.map(|ih| h_of(&ih)).unwrap_or(-1)})
                }
            }
        })
        .collect()
}

/// ConnectionCleanupData::after_close + handle_control_message_stream
fn close_connection(run: &mut Run, c: (u8, u64), fam: u8) -> Vec<Value> {
    let mut calls = Vec::new();
    let mut list: Vec<(u32, u32)> = run
        .announced
        .remove(&c)
        .unwrap_or_default()
        .into_iter()
        .collect();
    list.sort();
    for (h, pid) in list {
        run.maps.handle_connection_closed(
            InfoHash(ids::info_hash(h)),
            PeerId(ids::peer_id(pid)),
            if fam == 4 { IpVersion::V4 } else { IpVersion::V6 },
            ConsumerId(c.0),
            connection_id(c.1),
        );
        calls.push(json!([h, pid]));
    }
    calls
}

fn exec_op(run: &mut Run, op: &Value) -> Value {
    let mut ev = match get_str(op, "op") {
        "announce" => {
            let c = conn_of(op);
            let fam = get_i64(op, "fam") as u8;
            let h = get_i64(op, "h") as u32;
            let pid = get_i64(op, "pid") as u32;
            let event = get_str(op, "event");
            let left = get_i64(op, "left");
            let now = get_i64(op, "now") as u32;
            let offers: Vec<u32> = op["offers"]
                .as_array()
                .map(|a| a.iter().map(|x| x.as_i64().unwrap() as u32).collect())
                .unwrap_or_default();
            let answer: Vec<u32> = op["answer"]
                .as_array()
                .map(|a| a.iter().map(|x| x.as_i64().unwrap() as u32).collect())
                .unwrap_or_default();
            let mut ev = json!({"ev":"announce","c":[c.0,c.1],"fam":fam,"h":h,"pid":pid,"event":event,
                                "left":left,"offers":offers,"answer":answer,"now":now});
            ev["gated"] = json!(get_bool_or(op, "gated", false));
            if get_bool_or(op, "gated", false)
                && !run
                    .access_list
                    .load()
                    .allows(run.config.access_list.mode, &ids::info_hash(h))
            {
                return finish(run, json!({"ev":"announce_rejected","c":[c.0,c.1],"fam":fam,"t":[fam,h],"pid":pid}));
            }
            // socket side: one peer id per torrent and connection
            let entry = run.announced.entry(c).or_default();
            if let Some(prev) = entry.get(&h) {
                if *prev != pid {
                    ev["refused"] = json!(true);
                    ev["out"] = json!([{"kind":"error","to":[c.0,c.1],"h":h}]);
                    ev["closed_calls"] = json!(close_connection(run, c, fam));
                    return finish(run, ev);
                }
            } else {
                entry.insert(h, pid);
            }
            if event == "stopped" {
                entry.remove(&h);
            }
            let request = AnnounceRequest {
                action: AnnounceAction::Announce,
                info_hash: InfoHash(ids::info_hash(h)),
                peer_id: PeerId(ids::peer_id(pid)),
                bytes_left: match left {
                    0 => Some(0),
                    1 => Some(if op.get("leftval").is_some() { usize::MAX } else { 1 }),
                    _ => None,
                },
                event: match event {
                    "started" => Some(AnnounceEvent::Started),
                    "stopped" => Some(AnnounceEvent::Stopped),
                    "completed" => Some(AnnounceEvent::Completed),
                    "update" => Some(AnnounceEvent::Update),
                    "none" => None,
                    e => panic!("bad event {}", e),
                },
                offers: if op.get("offers").map(|o| o.is_null()).unwrap_or(true) {
                    None
                } else {
                    Some(
                        offers
                            .iter()
                            .map(|oid| AnnounceRequestOffer {
                                offer: RtcOffer {
                                    t: RtcOfferType::Offer,
                                    sdp: sdp("offer", pid, *oid),
                                },
                                offer_id: OfferId(ids::peer_id(*oid)),
                            })
                            .collect(),
                    )
                },
                numwant: Some(offers.len()),
                answer: (answer.len() == 2).then(|| RtcAnswer {
                    t: RtcAnswerType::Answer,
                    sdp: sdp("answer", pid, answer[1]),
                }),
                answer_to_peer_id: (answer.len() == 2).then(|| PeerId(ids::peer_id(answer[0]))),
                answer_offer_id: (answer.len() == 2).then(|| OfferId(ids::peer_id(answer[1]))),
            };
            let mut out = Vec::new();
            aquatic_common::verif::set_mock_seconds_elapsed(Some(now));
            run.maps.handle_announce_request(
                &run.config,
                &mut run.rng,
                &mut out,
                run.start,
                meta(c, fam),
                request,
            );
            aquatic_common::verif::set_mock_seconds_elapsed(None);
            ev["refused"] = json!(false);
            ev["out"] = json!(out_json(&out));
            ev
        }
        "scrape" => {
            let c = conn_of(op);
            let fam = get_i64(op, "fam") as u8;
            let hs: Vec<u32> = op["hs"]
                .as_array()
                .expect("hs")
                .iter()
                .map(|x| x.as_i64().unwrap() as u32)
                .collect();
            let request = ScrapeRequest {
                action: ScrapeAction::Scrape,
                info_hashes: Some(if hs.len() == 1 && get_bool_or(op, "single", false) {
                    ScrapeRequestInfoHashes::Single(InfoHash(ids::info_hash(hs[0])))
                } else {
                    ScrapeRequestInfoHashes::Multiple(
                        hs.iter().map(|h| InfoHash(ids::info_hash(*h))).collect(),
                    )
                }),
            };
            let mut out = Vec::new();
            run.maps
                .handle_scrape_request(&run.config, &mut out, meta(c, fam), request);
            json!({"ev":"scrape","c":[c.0,c.1],"fam":fam,"hs":hs,"out":out_json(&out)})
        }
        "close" => {
            let c = conn_of(op);
            let fam = get_i64(op, "fam") as u8;
            let calls = close_connection(run, c, fam);
            json!({"ev":"close","c":[c.0,c.1],"fam":fam,"closed_calls":calls})
        }
        "clean" => {
            let now = get_i64(op, "now") as u32;
            aquatic_common::verif::set_mock_seconds_elapsed(Some(now));
            run.maps.clean(&run.config, &run.access_list, run.start);
            aquatic_common::verif::set_mock_seconds_elapsed(None);
            json!({"ev":"clean","now":now})
        }
        "reload" => {
            let path = run.config.access_list.path.clone();
            let file = op.get("file").cloned().unwrap_or(json!({}));
            if get_str_or(&file, "kind", "good") == "missing" {
                let _ = std::fs::remove_file(&path);
            } else {
                std::fs::write(&path, get_str(op, "text")).expect("write access list");
            }
            let res = update_access_list(&run.config.access_list, &run.access_list);
            json!({"ev":"reload","file":file,"ok":res.is_ok()})
        }
        "allowed" => {
            let h = get_i64(op, "h") as u32;
            let ok = run
                .access_list
                .load()
                .allows(run.config.access_list.mode, &ids::info_hash(h));
            json!({"ev":"allowed","h":h,"ok":ok})
        }
        o => panic!("unknown op {}", o),
    };
    if run.dump {
        ev["dump"] = dump_json(&run.maps.verif_dump());
    }
    ev
}

fn finish(run: &mut Run, mut ev: Value) -> Value {
    if run.dump {
        ev["dump"] = dump_json(&run.maps.verif_dump());
    }
    ev
}

fn main() {
    let args: Vec<String> = std::env::args().collect();
    if args.len() != 3 {
        eprintln!("usage: ws_exec <behaviours.jsonl> <trace.ndjson>");
        std::process::exit(2);
    }
    quiet_panics();
    let behaviours = read_behaviours(&args[1]);
    let mut tracer = Tracer::create(&args[2]);
    let seed: u64 = std::env::var("VERIF_SEED")
        .ok()
        .and_then(|s| s.parse().ok())
        .unwrap_or(1);
    for (i, b) in behaviours.iter().enumerate() {
        let cfg = b.get("cfg").cloned().unwrap_or(json!({}));
        let runid = get_i64_or(b, "run", i as i64);
        let mut run = new_run(&cfg, seed.wrapping_mul(1_000_003).wrapping_add(runid as u64));
        let mut reset = json!({"ev":"reset","run":runid,"tracker":"ws"});
        for (k, v) in cfg.as_object().cloned().unwrap_or_default() {
            reset[k] = v;
        }
        reset["max_offers"] = json!(run.config.protocol.max_offers);
        reset["max_scrape"] = json!(run.config.protocol.max_scrape_torrents);
        reset["max_peer_age"] = json!(run.config.cleaning.max_peer_age);
        reset["max_offer_age"] = json!(run.config.cleaning.max_offer_age);
        reset["mode"] = json!(get_str_or(&cfg, "mode", "off"));
        reset["dumps"] = json!(run.dump);
        tracer.emit(reset);
        for op in b["ops"].as_array().expect("ops") {
            let r = catch_unwind(AssertUnwindSafe(|| exec_op(&mut run, op)));
            match r {
                Ok(ev) => tracer.emit(ev),
                Err(e) => {
                    aquatic_common::verif::set_mock_seconds_elapsed(None);
                    tracer.emit(json!({"ev":"panic","during":op,"msg":panic_message(e)}));
                    break;
                }
            }
        }
        drop(run.dir);
    }
    eprintln!("ws_exec: {} runs, {} events", behaviours.len(), tracer.events);
    tracer.finish();
}
