//! Executor for the UDP wire codec (aquatic_udp_protocol) - property C13.
//!
//! usage: udp_codec <cases.jsonl> <trace.ndjson>
//!
//! Every case line is echoed into the trace together with what the real code
//! did.  Nothing is judged here: the recorded bytes and parse results are
//! validated by TLC against spec/Bep15.tla (spec/Bep15_Trace.tla).
//!
//! Values cross the boundary as big-endian byte arrays only:
//!   an n-byte integer field  <->  [b1, .., bn]  via from_be_bytes / to_be_bytes.
//!
//! cases:
//!   {"ev":"reset", ...}                                   echoed
//!   {"ev":"req",  "kind":K, "f":{..}, "max":m}            Request::write_bytes, then parse_bytes of the result
//!   {"ev":"parse","bytes":[..], "max":m}                  Request::parse_bytes
//!   {"ev":"resp", "kind":K, "fam":4|6, "f":{..}}          Response::write_bytes, then parse_bytes(.., fam == 4)
//!   {"ev":"presp","bytes":[..], "fam":4|6}                Response::parse_bytes

use std::borrow::Cow;
use std::panic::{catch_unwind, AssertUnwindSafe};

use aquatic_udp_protocol::*;
use serde_json::{json, Map, Value};

use vharness::trace::Tracer;
use vharness::*;

fn bytes_of(v: &Value) -> Vec<u8> {
    v.as_array()
        .unwrap_or_else(|| panic!("expected byte array, got {}", v))
        .iter()
        .map(|x| {
            let n = x.as_u64().unwrap_or_else(|| panic!("expected byte, got {}", x));
            assert!(n < 256, "byte out of range: {}", n);
            n as u8
        })
        .collect()
}

fn arr<const N: usize>(v: &Value, k: &str) -> [u8; N] {
    let f = v.get(k).unwrap_or_else(|| panic!("missing field {} in {}", k, v));
    let b = bytes_of(f);
    b.as_slice()
        .try_into()
        .unwrap_or_else(|_| panic!("field {} must have {} bytes, has {}", k, N, b.len()))
}

fn arr_at<const N: usize>(v: &Value) -> [u8; N] {
    let b = bytes_of(v);
    b.as_slice()
        .try_into()
        .unwrap_or_else(|_| panic!("expected {} bytes, got {}", N, b.len()))
}

fn jb(b: &[u8]) -> Value {
    json!(b)
}

fn i64v(v: &Value, k: &str) -> i64 {
    i64::from_be_bytes(arr::<8>(v, k))
}
fn i32v(v: &Value, k: &str) -> i32 {
    i32::from_be_bytes(arr::<4>(v, k))
}

fn event_of(s: &str) -> AnnounceEvent {
    match s {
        "started" => AnnounceEvent::Started,
        "stopped" => AnnounceEvent::Stopped,
        "completed" => AnnounceEvent::Completed,
        "none" => AnnounceEvent::None,
        _ => panic!("bad event {}", s),
    }
}

/// Name of a parsed event.  (The wildcard arm keeps the executor compiling if the
/// codec grows a fifth event; such a value is recorded as "other".)
#[allow(unreachable_patterns)]
fn event_name(e: AnnounceEvent) -> &'static str {
    match e {
        AnnounceEvent::Started => "started",
        AnnounceEvent::Stopped => "stopped",
        AnnounceEvent::Completed => "completed",
        AnnounceEvent::None => "none",
        _ => "other",
    }
}

fn port_of(b: [u8; 2]) -> Port {
    Port(u16::from_be_bytes(b).into())
}

fn build_request(kind: &str, f: &Value) -> Request {
    match kind {
        "connect" => Request::Connect(ConnectRequest {
            transaction_id: TransactionId::new(i32v(f, "tid")),
        }),
        "announce" => Request::Announce(AnnounceRequest {
            connection_id: ConnectionId::new(i64v(f, "cid")),
            action_placeholder: AnnounceActionPlaceholder::default(),
            transaction_id: TransactionId::new(i32v(f, "tid")),
            info_hash: InfoHash(arr::<20>(f, "hash")),
            peer_id: PeerId(arr::<20>(f, "pid")),
            bytes_downloaded: NumberOfBytes::new(i64v(f, "down")),
            bytes_left: NumberOfBytes::new(i64v(f, "left")),
            bytes_uploaded: NumberOfBytes::new(i64v(f, "up")),
            event: event_of(get_str(f, "event")),
            ip_address: Ipv4AddrBytes(arr::<4>(f, "ip")),
            key: PeerKey::new(i32v(f, "key")),
            peers_wanted: NumberOfPeers::new(i32v(f, "numwant")),
            port: port_of(arr::<2>(f, "port")),
        }),
        "scrape" => Request::Scrape(ScrapeRequest {
            connection_id: ConnectionId::new(i64v(f, "cid")),
            transaction_id: TransactionId::new(i32v(f, "tid")),
            info_hashes: f["hashes"]
                .as_array()
                .expect("hashes")
                .iter()
                .map(|h| InfoHash(arr_at::<20>(h)))
                .collect(),
        }),
        k => panic!("bad request kind {}", k),
    }
}

fn request_json(r: &Request) -> Value {
    match r {
        Request::Connect(c) => json!({"ok": true, "kind": "connect",
            "f": {"tid": jb(&c.transaction_id.0.get().to_be_bytes())}}),
        Request::Announce(a) => {
            // copy out of the packed struct
            let cid = a.connection_id;
            let tid = a.transaction_id;
            let hash = a.info_hash;
            let pid = a.peer_id;
            let down = a.bytes_downloaded;
            let left = a.bytes_left;
            let up = a.bytes_uploaded;
            let event = a.event;
            let ip = a.ip_address;
            let key = a.key;
            let numwant = a.peers_wanted;
            let port = a.port;
            json!({"ok": true, "kind": "announce", "f": {
                "cid": jb(&cid.0.get().to_be_bytes()),
                "tid": jb(&tid.0.get().to_be_bytes()),
                "hash": jb(&hash.0),
                "pid": jb(&pid.0),
                "down": jb(&down.0.get().to_be_bytes()),
                "left": jb(&left.0.get().to_be_bytes()),
                "up": jb(&up.0.get().to_be_bytes()),
                "event": event_name(event),
                "ip": jb(&ip.0),
                "key": jb(&key.0.get().to_be_bytes()),
                "numwant": jb(&numwant.0.get().to_be_bytes()),
                "port": jb(&port.0.get().to_be_bytes()),
            }})
        }
        Request::Scrape(s) => json!({"ok": true, "kind": "scrape", "f": {
            "cid": jb(&s.connection_id.0.get().to_be_bytes()),
            "tid": jb(&s.transaction_id.0.get().to_be_bytes()),
            "hashes": s.info_hashes.iter().map(|h| jb(&h.0)).collect::<Vec<_>>(),
        }}),
    }
}

fn parse_request_json(bytes: &[u8], max: u8) -> Value {
    match Request::parse_bytes(bytes, max) {
        Ok(r) => request_json(&r),
        Err(RequestParseError::Sendable {
            connection_id,
            transaction_id,
            err,
        }) => json!({"ok": false, "sendable": true, "err": err,
            "cid": jb(&connection_id.0.get().to_be_bytes()),
            "tid": jb(&transaction_id.0.get().to_be_bytes())}),
        Err(RequestParseError::Unsendable { err }) => {
            json!({"ok": false, "sendable": false, "err": format!("{:?}", err)})
        }
    }
}

fn peers_of<I: Ip, const N: usize>(f: &Value, mk: impl Fn([u8; N]) -> I) -> Vec<ResponsePeer<I>> {
    f["peers"]
        .as_array()
        .expect("peers")
        .iter()
        .map(|p| ResponsePeer {
            ip_address: mk(arr_at::<N>(&p[0])),
            port: port_of(arr_at::<2>(&p[1])),
        })
        .collect()
}

fn build_response(kind: &str, fam: i64, f: &Value) -> Response {
    match kind {
        "connect" => Response::Connect(ConnectResponse {
            transaction_id: TransactionId::new(i32v(f, "tid")),
            connection_id: ConnectionId::new(i64v(f, "cid")),
        }),
        "announce" => {
            let fixed = AnnounceResponseFixedData {
                transaction_id: TransactionId::new(i32v(f, "tid")),
                announce_interval: AnnounceInterval::new(i32v(f, "interval")),
                leechers: NumberOfPeers::new(i32v(f, "leechers")),
                seeders: NumberOfPeers::new(i32v(f, "seeders")),
            };
            if fam == 4 {
                Response::AnnounceIpv4(AnnounceResponse {
                    fixed,
                    peers: peers_of::<Ipv4AddrBytes, 4>(f, Ipv4AddrBytes),
                })
            } else {
                Response::AnnounceIpv6(AnnounceResponse {
                    fixed,
                    peers: peers_of::<Ipv6AddrBytes, 16>(f, Ipv6AddrBytes),
                })
            }
        }
        "scrape" => Response::Scrape(ScrapeResponse {
            transaction_id: TransactionId::new(i32v(f, "tid")),
            torrent_stats: f["stats"]
                .as_array()
                .expect("stats")
                .iter()
                .map(|s| TorrentScrapeStatistics {
                    seeders: NumberOfPeers::new(i32::from_be_bytes(arr_at::<4>(&s[0]))),
                    completed: NumberOfDownloads::new(i32::from_be_bytes(arr_at::<4>(&s[1]))),
                    leechers: NumberOfPeers::new(i32::from_be_bytes(arr_at::<4>(&s[2]))),
                })
                .collect(),
        }),
        "error" => Response::Error(ErrorResponse {
            transaction_id: TransactionId::new(i32v(f, "tid")),
            message: Cow::Owned(
                String::from_utf8(bytes_of(&f["msg"])).expect("error message must be UTF-8"),
            ),
        }),
        k => panic!("bad response kind {}", k),
    }
}

fn fixed_json(fixed: &AnnounceResponseFixedData, peers: Vec<Value>, fam: i64) -> Value {
    let tid = fixed.transaction_id;
    let interval = fixed.announce_interval;
    let leechers = fixed.leechers;
    let seeders = fixed.seeders;
    json!({"ok": true, "kind": "announce", "fam": fam, "f": {
        "tid": jb(&tid.0.get().to_be_bytes()),
        "interval": jb(&interval.0.get().to_be_bytes()),
        "leechers": jb(&leechers.0.get().to_be_bytes()),
        "seeders": jb(&seeders.0.get().to_be_bytes()),
        "peers": peers,
    }})
}

fn response_json(r: &Response) -> Value {
    match r {
        Response::Connect(c) => {
            let tid = c.transaction_id;
            let cid = c.connection_id;
            json!({"ok": true, "kind": "connect", "f": {
                "tid": jb(&tid.0.get().to_be_bytes()),
                "cid": jb(&cid.0.get().to_be_bytes())}})
        }
        Response::AnnounceIpv4(a) => fixed_json(
            &a.fixed,
            a.peers
                .iter()
                .map(|p| {
                    let ip = p.ip_address;
                    let port = p.port;
                    json!([jb(&ip.0), jb(&port.0.get().to_be_bytes())])
                })
                .collect(),
            4,
        ),
        Response::AnnounceIpv6(a) => fixed_json(
            &a.fixed,
            a.peers
                .iter()
                .map(|p| {
                    let ip = p.ip_address;
                    let port = p.port;
                    json!([jb(&ip.0), jb(&port.0.get().to_be_bytes())])
                })
                .collect(),
            6,
        ),
        Response::Scrape(s) => json!({"ok": true, "kind": "scrape", "f": {
            "tid": jb(&s.transaction_id.0.get().to_be_bytes()),
            "stats": s.torrent_stats.iter().map(|t| {
                let se = t.seeders;
                let co = t.completed;
                let le = t.leechers;
                json!([jb(&se.0.get().to_be_bytes()), jb(&co.0.get().to_be_bytes()),
                       jb(&le.0.get().to_be_bytes())])
            }).collect::<Vec<_>>(),
        }}),
        Response::Error(e) => json!({"ok": true, "kind": "error", "f": {
            "tid": jb(&e.transaction_id.0.get().to_be_bytes()),
            "msg": jb(e.message.as_bytes()),
        }}),
    }
}

fn parse_response_json(bytes: &[u8], fam: i64) -> Value {
    match Response::parse_bytes(bytes, fam == 4) {
        Ok(r) => response_json(&r),
        Err(e) => json!({"ok": false, "err": format!("{:?}", e.kind())}),
    }
}

enum Prepared {
    Req(Request, u8),
    Parse(Vec<u8>, u8),
    Resp(Response, i64),
    PResp(Vec<u8>, i64),
}

/// Decode the case (a malformed case is a tool error: it panics outside catch_unwind).
fn prepare(case: &Value) -> Prepared {
    match get_str(case, "ev") {
        "req" => Prepared::Req(
            build_request(get_str(case, "kind"), &case["f"]),
            get_i64(case, "max") as u8,
        ),
        "parse" => Prepared::Parse(bytes_of(&case["bytes"]), get_i64(case, "max") as u8),
        "resp" => {
            let fam = get_i64(case, "fam");
            Prepared::Resp(build_response(get_str(case, "kind"), fam, &case["f"]), fam)
        }
        "presp" => Prepared::PResp(bytes_of(&case["bytes"]), get_i64(case, "fam")),
        e => panic!("unknown case kind {}", e),
    }
}

/// Run the real code.
fn exec(p: &Prepared) -> Map<String, Value> {
    let mut out = Map::new();
    match p {
        Prepared::Req(r, max) => {
            let mut buf = Vec::new();
            match r.write_bytes(&mut buf) {
                Ok(()) => {
                    out.insert("wbytes".into(), jb(&buf));
                    out.insert("back".into(), parse_request_json(&buf, *max));
                }
                Err(e) => {
                    out.insert("werr".into(), json!(format!("{:?}", e)));
                }
            }
        }
        Prepared::Parse(b, max) => {
            out.insert("res".into(), parse_request_json(b, *max));
        }
        Prepared::Resp(r, fam) => {
            let mut buf = Vec::new();
            match r.write_bytes(&mut buf) {
                Ok(()) => {
                    out.insert("wbytes".into(), jb(&buf));
                    out.insert("back".into(), parse_response_json(&buf, *fam));
                }
                Err(e) => {
                    out.insert("werr".into(), json!(format!("{:?}", e)));
                }
            }
        }
        Prepared::PResp(b, fam) => {
            out.insert("res".into(), parse_response_json(b, *fam));
        }
    }
    out
}

fn main() {
    let args: Vec<String> = std::env::args().collect();
    if args.len() != 3 {
        eprintln!("usage: udp_codec <cases.jsonl> <trace.ndjson>");
        std::process::exit(2);
    }
    quiet_panics();
    let cases = read_behaviours(&args[1]);
    let mut tr = Tracer::create(&args[2]);
    for case in cases {
        if get_str(&case, "ev") == "reset" {
            tr.emit(case);
            continue;
        }
        let prepared = prepare(&case);
        match catch_unwind(AssertUnwindSafe(|| exec(&prepared))) {
            Ok(extra) => {
                let mut o = case.as_object().expect("case object").clone();
                for (k, v) in extra {
                    o.insert(k, v);
                }
                tr.emit(Value::Object(o));
            }
            Err(e) => {
                tr.emit(json!({"ev": "panic", "case": case, "msg": panic_message(e)}));
            }
        }
    }
    tr.finish();
}
