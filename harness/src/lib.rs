//! Shared helpers for the conformance executors.
//!
//! The executors are deliberately dumb: they run operations against the real
//! code and record what happened.  They never decide whether a reply is right;
//! that is done by TLC against the TLA+ specification.

pub mod ids;
pub mod trace;

use serde_json::Value;
use std::io::BufRead;

/// Read behaviours (one JSON object per line) from a file.
pub fn read_behaviours(path: &str) -> Vec<Value> {
    let f = std::fs::File::open(path).unwrap_or_else(|e| panic!("open {}: {}", path, e));
    std::io::BufReader::new(f)
        .lines()
        .map(|l| l.expect("read line"))
        .filter(|l| !l.trim().is_empty())
        .map(|l| serde_json::from_str(&l).expect("behaviour json"))
        .collect()
}

pub fn panic_message(e: Box<dyn std::any::Any + Send>) -> String {
    if let Some(s) = e.downcast_ref::<&str>() {
        s.to_string()
    } else if let Some(s) = e.downcast_ref::<String>() {
        s.clone()
    } else {
        "<non-string panic>".to_string()
    }
}

/// Silence the default panic hook's backtrace printing (panics are data).
pub fn quiet_panics() {
    std::panic::set_hook(Box::new(|_| {}));
}

pub fn get_i64(v: &Value, k: &str) -> i64 {
    v.get(k)
        .and_then(|x| x.as_i64())
        .unwrap_or_else(|| panic!("missing int field {} in {}", k, v))
}
pub fn get_i64_or(v: &Value, k: &str, d: i64) -> i64 {
    v.get(k).and_then(|x| x.as_i64()).unwrap_or(d)
}
pub fn get_str<'a>(v: &'a Value, k: &str) -> &'a str {
    v.get(k)
        .and_then(|x| x.as_str())
        .unwrap_or_else(|| panic!("missing string field {} in {}", k, v))
}
pub fn get_str_or<'a>(v: &'a Value, k: &str, d: &'a str) -> &'a str {
    v.get(k).and_then(|x| x.as_str()).unwrap_or(d)
}
pub fn get_bool_or(v: &Value, k: &str, d: bool) -> bool {
    v.get(k).and_then(|x| x.as_bool()).unwrap_or(d)
}

/// JSON projection of a state dump (aquatic_common::verif::TorrentDump), with
/// concrete values mapped back to the specification's identifiers.
/// [[fam, h, kind, nseed, strong, [[key, seeder, deadline, pid], ...]], ...]
pub fn dump_json(dump: &[aquatic_common::verif::TorrentDump]) -> Value {
    use serde_json::json;
    let mut out = Vec::new();
    for t in dump {
        let fam = if t.ipv4 { 4 } else { 6 };
        let h = ids::info_hash_rev(&t.info_hash).map(|x| x as i64).unwrap_or(-1);
        let peers: Vec<Value> = t
            .peers
            .iter()
            .map(|p| {
                let key = match (p.addr, p.peer_id) {
                    (Some((ip, port)), _) => json!(ids::key_name(ip, port)),
                    (None, Some(pid)) => json!(ids::peer_id_rev(&pid).map(|x| x as i64).unwrap_or(-1)),
                    _ => json!("?"),
                };
                let pid = p
                    .peer_id
                    .and_then(|b| ids::peer_id_rev(&b))
                    .map(|x| x as i64)
                    .unwrap_or(0);
                let mut e = vec![key, json!(p.seeder), json!(p.valid_until), json!(pid)];
                if let Some((consumer, conn)) = p.owner {
                    e.push(json!([consumer, conn & 0xffff_ffff]));
                    e.push(json!(p
                        .expecting_answers
                        .iter()
                        .map(|(from, offer, until)| json!([
                            ids::peer_id_rev(from).map(|x| x as i64).unwrap_or(-1),
                            ids::peer_id_rev(offer).map(|x| x as i64).unwrap_or(-1),
                            until
                        ]))
                        .collect::<Vec<_>>()));
                }
                json!(e)
            })
            .collect();
        out.push(json!([
            fam,
            h,
            if t.large { "large" } else { "small" },
            t.num_seeders.map(|x| x as i64).unwrap_or(-1),
            t.strong_count.map(|x| x as i64).unwrap_or(-1),
            peers
        ]));
    }
    json!(out)
}
