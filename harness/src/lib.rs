pub fn hello() {}
