//! Static, injective tables between the specification's small identifiers
//! and concrete protocol values (DESIGN.md section 3.1).

use std::net::{IpAddr, Ipv4Addr, Ipv6Addr};

/// info hash h -> 20 bytes.  The first byte is `h % 256`, which is the only
/// byte the code interprets (shard = byte0 % 16, swarm worker = byte0 % n).
pub fn info_hash(h: u32) -> [u8; 20] {
    let mut b = [0xABu8; 20];
    b[0] = (h % 256) as u8;
    b[1..5].copy_from_slice(&h.to_be_bytes());
    b
}

pub fn info_hash_rev(b: &[u8; 20]) -> Option<u32> {
    let h = u32::from_be_bytes([b[1], b[2], b[3], b[4]]);
    if info_hash(h) == *b {
        Some(h)
    } else {
        None
    }
}

pub fn info_hash_hex(h: u32) -> String {
    info_hash(h).iter().map(|b| format!("{:02x}", b)).collect()
}

/// peer id p -> 20 bytes "-qB4250-%012d"
pub fn peer_id(p: u32) -> [u8; 20] {
    let s = format!("-qB4250-{:012}", p);
    let mut b = [0u8; 20];
    b.copy_from_slice(s.as_bytes());
    b
}

pub fn peer_id_rev(b: &[u8; 20]) -> Option<u32> {
    let s = std::str::from_utf8(b).ok()?;
    let n: u32 = s.strip_prefix("-qB4250-")?.parse().ok()?;
    Some(n)
}

/// Peer key "k<i>" -> (host index, port).  Two ports per host, so keys share
/// hosts and share ports without coinciding.
pub fn key_index(key: &str) -> u32 {
    key.trim_start_matches(|c: char| !c.is_ascii_digit())
        .parse()
        .unwrap_or_else(|_| panic!("bad key name {}", key))
}

pub fn key_host_port(i: u32) -> (u32, u16) {
    (i / 2 + 1, 2000 + (i % 2) as u16)
}

pub fn host_ip(fam: u8, host: u32) -> IpAddr {
    if fam == 4 {
        IpAddr::V4(Ipv4Addr::new(10, 0, (host / 256) as u8, (host % 256) as u8))
    } else {
        IpAddr::V6(Ipv6Addr::new(0xfd00, 0, 0, 0, 0, 0, (host / 65536) as u16, (host % 65536) as u16))
    }
}

pub fn key_addr(fam: u8, key: &str) -> (IpAddr, u16) {
    let (host, port) = key_host_port(key_index(key));
    (host_ip(fam, host), port)
}

/// Reverse lookup: (ip, port) -> "k<i>", or a literal "?ip:port" string for
/// addresses outside the table (which no specification action will match).
pub fn key_name(ip: IpAddr, port: u16) -> String {
    let host = match ip {
        IpAddr::V4(a) => {
            let o = a.octets();
            if o[0] == 10 && o[1] == 0 {
                Some(o[2] as u32 * 256 + o[3] as u32)
            } else {
                None
            }
        }
        IpAddr::V6(a) => {
            let s = a.segments();
            if s[0] == 0xfd00 && s[1..6].iter().all(|x| *x == 0) {
                Some(s[6] as u32 * 65536 + s[7] as u32)
            } else {
                None
            }
        }
    };
    match host {
        Some(h) if h >= 1 && (port == 2000 || port == 2001) => {
            format!("k{}", (h - 1) * 2 + (port - 2000) as u32)
        }
        _ => format!("?{}:{}", ip, port),
    }
}
