------------------------- MODULE UdpLoadClient_Gen -------------------------
(* Network behaviours for the conformance run of the load tester: the number *)
(* of copies (0 = lost, 1, 2 = duplicated) delivered of each of the first    *)
(* NFates connect replies.                                                    *)
EXTENDS UdpLoadClient

CONSTANT NFates
VARIABLE fates
gvars == <<vars, fates>>

GInit == Init /\ fates = <<>>
GNext == /\ Next
         /\ fates' = IF issued' # issued THEN Append(fates, Cardinality(net' \ net)) ELSE fates
GSpec == GInit /\ [][GNext]_gvars

Bound == Len(fates) <= NFates
Emit == Len(fates) = NFates => PrintT(<<"FATES", fates>>)
GView == <<fates, phase, Len(ids)>>
=============================================================================
