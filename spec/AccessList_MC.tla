---------------------------- MODULE AccessList_MC ----------------------------
EXTENDS AccessList, Json, TLC

MCFiles ==
    {[kind |-> "good", hashes |-> S] : S \in SUBSET Hashes}
    \cup {[kind |-> "bad", hashes |-> S, at |-> k] : S \in {{}, {1}, {1, 2}}, k \in {"first", "middle", "last"}}
    \cup {[kind |-> "missing"]}

Id(f, l, s) == <<IF f.kind = "good" THEN <<"good", f.hashes>>
                 ELSE IF f.kind = "bad" THEN <<"bad", f.hashes, f.at>> ELSE <<"missing">>, l, s>>
EmitEdge == PrintT(<<"EDGE", ToString(Id(file, list, stored)), ToJson(op'), ToString(Id(file', list', stored'))>>)
=============================================================================
