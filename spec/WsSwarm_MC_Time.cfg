\* Config Time (C10): peers live 2, offers live 1; announces at 0..2, cleaning at 0..4
SPECIFICATION Spec
CONSTANTS
  Conns <- GenConns
  Hashes = {1}
  Pids = {1, 2}
  OfferIds = {1}
  Times = {0, 1, 2}
  CleanTimes = {0, 1, 2, 3, 4}
  MaxPeerAge = 2
  MaxOfferAge = 1
  MaxOffers = 1
  MaxScrape = 2
  OfferLists <- GenOfferLists
  ScrapeLists <- MCScrapeLists
  Events = {"started"}
  Lefts = {0, 2}
  Fixed = TRUE
VIEW View
INVARIANTS TypeOK ClosedLeavesNothing AnnConsistent PendingFaithful
PROPERTIES RefinesReference Ownership
CHECK_DEADLOCK FALSE
