----------------------------- MODULE HttpCodec -----------------------------
(***************************************************************************)
(* Reference codec of the HTTP tracker protocol (property C14) over        *)
(* sequences of integers: code points for GET paths, bytes (0..255) for    *)
(* everything else.                                                        *)
(*                                                                         *)
(*  (i)   UrlDecode20   the identifier decoder as a state machine          *)
(*  (ii)  ParsePath     location + query string -> request or reject       *)
(*  (iii) BencAnnounce / BencScrape / BencFailure  canonical bencode       *)
(*        writers (an independent encoder: sorted keys by construction,    *)
(*        decimal strings computed here by long division), and BParse, a   *)
(*        generic validating bencode reader used for the model's own laws. *)
(*                                                                         *)
(* Numbers are big-endian byte sequences (TLC integers have 32 bits): a    *)
(* port has 2 bytes, every other number 8.  Options are sequences of       *)
(* length 0 or 1.  The *Domain predicates delimit the inputs the statement *)
(* of C14 speaks about; outside of them the reference is not a judge.      *)
(*                                                                         *)
(* Style note: TLC caches the value of an operator *argument* but          *)
(* re-evaluates a LET definition at every use, so values that are used     *)
(* more than once are handed to a helper operator instead of being named   *)
(* in a LET (the helpers carry a digit or a letter suffix).                 *)
(***************************************************************************)
EXTENDS Integers, Sequences, FiniteSets, TLC

----------------------------------------------------------------------------
(* characters *)

LowerCase == <<"a","b","c","d","e","f","g","h","i","j","k","l","m",
               "n","o","p","q","r","s","t","u","v","w","x","y","z">>
DigitChars == <<"0","1","2","3","4","5","6","7","8","9">>

Code(ch) ==
    IF \E i \in 1..26 : LowerCase[i] = ch
    THEN 96 + (CHOOSE i \in 1..26 : LowerCase[i] = ch)
    ELSE IF \E i \in 1..10 : DigitChars[i] = ch
    THEN 47 + (CHOOSE i \in 1..10 : DigitChars[i] = ch)
    ELSE CASE ch = "_" -> 95 [] ch = " " -> 32 [] ch = "/" -> 47 [] ch = "?" -> 63

(* S(<<"a","b">>) = <<97, 98>> *)
SOf(f) == SubSeq(f, 1, Len(f))      \* a tuple, not a function value: cheap comparisons
S(t) == SOf([i \in 1..Len(t) |-> Code(t[i])])

Pct   == 37   \* %
Amp   == 38   \* &
Plus  == 43   \* +
Colon == 58   \* :
EqSgn == 61   \* =
QMark == 63   \* ?

IsDigit(c) == c \in 48..57
HexVal(c) == IF c \in 48..57 THEN c - 48
             ELSE IF c \in 65..70 THEN c - 55
             ELSE IF c \in 97..102 THEN c - 87
             ELSE -1
IsHex(c) == HexVal(c) >= 0
HexL(n) == IF n < 10 THEN 48 + n ELSE 87 + n
HexU(n) == IF n < 10 THEN 48 + n ELSE 55 + n

Reject == [ok |-> FALSE]
SeqRange(s) == {s[i] : i \in 1..Len(s)}
SetMin(T) == CHOOSE x \in T : \A y \in T : x <= y

----------------------------------------------------------------------------
(* (i) identifiers *)

(* The decoding state machine: state (position i, bytes decoded so far).    *)
(* A '%' consumes exactly two hexadecimal digits of either case; any other  *)
(* character stands for itself; the result must have exactly 20 bytes.      *)
RECURSIVE UD(_, _, _)
UD(s, i, out) ==
    IF Len(out) = 20
    THEN IF i > Len(s) THEN [ok |-> TRUE, v |-> out] ELSE Reject   \* more than 20
    ELSE IF i > Len(s) THEN Reject                                  \* fewer than 20
    ELSE IF s[i] = Pct
         THEN IF i + 2 <= Len(s) /\ IsHex(s[i + 1]) /\ IsHex(s[i + 2])
              THEN UD(s, i + 3, Append(out, 16 * HexVal(s[i + 1]) + HexVal(s[i + 2])))
              ELSE Reject                                           \* broken escape
         ELSE UD(s, i + 1, Append(out, s[i]))

UrlDecode20(s) == UD(s, 1, <<>>)

(* Characters that denote a byte.  '+' (form encoding would read a space)   *)
(* and code points above 255 are outside the statement.                     *)
IdDomain(s) == \A i \in 1..Len(s) : s[i] \in 0..255 /\ s[i] # Plus

UrlEncode20(b) == [i \in 1..(3 * Len(b)) |->
                     LET x == b[((i - 1) \div 3) + 1]
                     IN CASE i % 3 = 1 -> Pct
                          [] i % 3 = 2 -> HexL(x \div 16)
                          [] i % 3 = 0 -> HexL(x % 16)]

(* general percent decoding (the `key` parameter) *)
RECURSIVE PD(_, _, _)
PD(s, i, out) ==
    IF i > Len(s) THEN [ok |-> TRUE, v |-> out]
    ELSE IF s[i] = Pct
         THEN IF i + 2 <= Len(s) /\ IsHex(s[i + 1]) /\ IsHex(s[i + 2])
              THEN PD(s, i + 3, Append(out, 16 * HexVal(s[i + 1]) + HexVal(s[i + 2])))
              ELSE Reject
         ELSE PD(s, i + 1, Append(out, s[i]))
PctDecode(s) == PD(s, 1, <<>>)

Unreserved(c) == c \in 48..57 \/ c \in 65..90 \/ c \in 97..122 \/ c \in {45, 46, 95, 126}
RECURSIVE PE(_, _)
PE(b, i) == IF i > Len(b) THEN <<>>
            ELSE (IF Unreserved(b[i]) THEN <<b[i]>>
                  ELSE <<Pct, HexU(b[i] \div 16), HexU(b[i] % 16)>>) \o PE(b, i + 1)
PctEncode(b) == PE(b, 1)
PctEncodedLen(b) == Cardinality({i \in 1..Len(b) : Unreserved(b[i])})
                    + 3 * Cardinality({i \in 1..Len(b) : ~Unreserved(b[i])})

----------------------------------------------------------------------------
(* decimal numbers *)

RECURSIVE DecNat(_)
DecNat(n) == IF n < 10 THEN <<48 + n>> ELSE Append(DecNat(n \div 10), 48 + (n % 10))

IsZero(b) == \A i \in 1..Len(b) : b[i] = 0

(* long division of a big-endian base-256 number by ten *)
RECURSIVE DivTen(_, _, _, _)
DivTen(b, i, r, q) ==
    IF i > Len(b) THEN [q |-> q, r |-> r]
    ELSE LET cur == r * 256 + b[i] IN DivTen(b, i + 1, cur % 10, Append(q, cur \div 10))

RECURSIVE DecDigits(_), DecDigits2(_)
DecDigits(b) == IF IsZero(b) THEN <<>> ELSE DecDigits2(DivTen(b, 1, 0, <<>>))
DecDigits2(d) == Append(DecDigits(d.q), 48 + d.r)

(* decimal digits of the number with big-endian bytes b *)
DecBytes(b) == IF IsZero(b) THEN <<48>> ELSE DecDigits(b)

IsDecimal(s) == s # <<>> /\ \A i \in 1..Len(s) : IsDigit(s[i])
CanonicalDecimal(s) == IsDecimal(s) /\ (Len(s) = 1 \/ s[1] # 48)

(* b := b * 10 + carry, from the least significant byte *)
RECURSIVE MTA(_, _, _)
MTA(b, i, carry) ==
    IF i = 0 THEN [b |-> b, carry |-> carry]
    ELSE LET cur == b[i] * 10 + carry
         IN MTA([b EXCEPT ![i] = cur % 256], i - 1, cur \div 256)

RECURSIVE DTB(_, _, _), DTB2(_, _, _)
DTB(s, i, b) ==
    IF i > Len(s) THEN [ok |-> TRUE, v |-> b] ELSE DTB2(s, i, MTA(b, Len(b), s[i] - 48))
DTB2(s, i, m) == IF m.carry # 0 THEN Reject ELSE DTB(s, i + 1, m.b)

(* decimal string -> n big-endian bytes; rejects non-numbers and overflow *)
DecToBytes(s, n) == IF IsDecimal(s) THEN DTB(s, 1, [i \in 1..n |-> 0]) ELSE Reject

RECURSIVE NatOf(_, _, _)
NatOf(s, i, acc) == IF i > Len(s) THEN acc ELSE NatOf(s, i + 1, acc * 10 + (s[i] - 48))

----------------------------------------------------------------------------
(* (ii) query strings *)

RECURSIVE SplitFrom(_, _, _, _)
SplitFrom(s, ch, start, i) ==
    IF i > Len(s) THEN <<SubSeq(s, start, Len(s))>>
    ELSE IF s[i] = ch THEN <<SubSeq(s, start, i - 1)>> \o SplitFrom(s, ch, i + 1, i + 1)
    ELSE SplitFrom(s, ch, start, i + 1)
Split(s, ch) == SplitFrom(s, ch, 1, 1)

Count(s, ch) == Cardinality({i \in 1..Len(s) : s[i] = ch})
MinOr0(I) == IF I = {} THEN 0 ELSE SetMin(I)
IndexOf(s, ch) == MinOr0({i \in 1..Len(s) : s[i] = ch})

(* well-formed: non-empty list of key=value, key not empty, no '=' in value *)
WellFormedQuery(q) ==
    /\ q # <<>>
    /\ \A i \in 1..Len(q) : q[i] \in 0..255
    /\ \A seg \in SeqRange(Split(q, Amp)) : Count(seg, EqSgn) = 1 /\ seg[1] # EqSgn

ParamAt(seg, e) == [k |-> SubSeq(seg, 1, e - 1), v |-> SubSeq(seg, e + 1, Len(seg))]
Param(seg) == ParamAt(seg, IndexOf(seg, EqSgn))
ParamsOf(segs) == [i \in 1..Len(segs) |-> Param(segs[i])]
Params(q) == ParamsOf(Split(q, Amp))

(* values of the parameters called `name`, in order of appearance *)
ValsOf(sel) == [j \in 1..Len(sel) |-> sel[j].v]
Vals(ps, name) == ValsOf(SelectSeq(ps, LAMBDA p : p.k = name))

K_info_hash  == S(<<"i","n","f","o","_","h","a","s","h">>)
K_peer_id    == S(<<"p","e","e","r","_","i","d">>)
K_port       == S(<<"p","o","r","t">>)
K_uploaded   == S(<<"u","p","l","o","a","d","e","d">>)
K_downloaded == S(<<"d","o","w","n","l","o","a","d","e","d">>)
K_left       == S(<<"l","e","f","t">>)
K_event      == S(<<"e","v","e","n","t">>)
K_numwant    == S(<<"n","u","m","w","a","n","t">>)
K_key        == S(<<"k","e","y">>)
K_compact    == S(<<"c","o","m","p","a","c","t">>)

(* BEP 3: the six parameters without which there is no announce *)
RequiredKeys == {K_info_hash, K_peer_id, K_port, K_uploaded, K_downloaded, K_left}
KnownKeys == RequiredKeys \cup {K_event, K_numwant, K_key, K_compact}

V_started   == S(<<"s","t","a","r","t","e","d">>)
V_stopped   == S(<<"s","t","o","p","p","e","d">>)
V_completed == S(<<"c","o","m","p","l","e","t","e","d">>)
V_empty     == S(<<"e","m","p","t","y">>)
EventValues == {V_started, V_stopped, V_completed, V_empty}
EventName(v) == CASE v = V_started -> "started" [] v = V_stopped -> "stopped"
                  [] v = V_completed -> "completed" [] v = V_empty -> "empty"
                  [] OTHER -> "?"
EventValue(name) == CASE name = "started" -> V_started [] name = "stopped" -> V_stopped
                      [] name = "completed" -> V_completed [] name = "empty" -> V_empty

Wrap(x) == IF x.ok THEN [ok |-> TRUE, v |-> <<x.v>>] ELSE Reject
OptNum8(vs) == IF vs = <<>> THEN [ok |-> TRUE, v |-> <<>>] ELSE Wrap(DecToBytes(vs[1], 8))
OptText(vs) == IF vs = <<>> THEN [ok |-> TRUE, v |-> <<>>] ELSE Wrap(PctDecode(vs[1]))
OptEvent(vs) == IF vs = <<>> THEN "empty" ELSE EventName(vs[1])

ParseAnnounce3(ih, pid, prt, up, dn, lf, nw, ky, ev) ==
    IF ih.ok /\ pid.ok /\ prt.ok /\ up.ok /\ dn.ok /\ lf.ok /\ nw.ok /\ ky.ok /\ ev # "?"
    THEN [ok |-> TRUE,
          req |-> [kind |-> "announce", info_hash |-> ih.v, peer_id |-> pid.v,
                   port |-> prt.v, uploaded |-> up.v, downloaded |-> dn.v,
                   left |-> lf.v, event |-> ev, numwant |-> nw.v, key |-> ky.v]]
    ELSE Reject

ParseAnnounce2(ps) ==
    IF \E k \in RequiredKeys : Vals(ps, k) = <<>> THEN Reject
    ELSE ParseAnnounce3(UrlDecode20(Vals(ps, K_info_hash)[1]),
                        UrlDecode20(Vals(ps, K_peer_id)[1]),
                        DecToBytes(Vals(ps, K_port)[1], 2),
                        DecToBytes(Vals(ps, K_uploaded)[1], 8),
                        DecToBytes(Vals(ps, K_downloaded)[1], 8),
                        DecToBytes(Vals(ps, K_left)[1], 8),
                        OptNum8(Vals(ps, K_numwant)),
                        OptText(Vals(ps, K_key)),
                        OptEvent(Vals(ps, K_event)))

ParseAnnounceQuery(q) == ParseAnnounce2(Params(q))

(* What the statement covers for an announce query: well-formed parameters, *)
(* each known key at most once, canonical decimal numbers that fit, an      *)
(* event of the table, compact=1, a short percent-encoded ASCII key.        *)
(* (Identifiers may be broken: the statement demands their rejection.)      *)
NumOK(vs, n) == vs # <<>> => CanonicalDecimal(vs[1]) /\ DecToBytes(vs[1], n).ok
AsciiText(d) == d.ok /\ \A i \in 1..Len(d.v) : d.v[i] < 128
KeyOK(vs) == vs # <<>> => Len(vs[1]) <= 100 /\ AsciiText(PctDecode(vs[1]))

AnnounceDomain2(ps) ==
    /\ \A k \in KnownKeys : Len(Vals(ps, k)) <= 1
    /\ \A i \in 1..Len(ps) : ps[i].k \in {K_info_hash, K_peer_id} => IdDomain(ps[i].v)
    /\ NumOK(Vals(ps, K_port), 2) /\ NumOK(Vals(ps, K_uploaded), 8)
    /\ NumOK(Vals(ps, K_downloaded), 8) /\ NumOK(Vals(ps, K_left), 8)
    /\ NumOK(Vals(ps, K_numwant), 8)
    /\ \A v \in SeqRange(Vals(ps, K_event)) : v \in EventValues
    /\ \A v \in SeqRange(Vals(ps, K_compact)) : v = <<49>>
    /\ KeyOK(Vals(ps, K_key))

AnnounceDomain(q) == WellFormedQuery(q) /\ AnnounceDomain2(Params(q))

ParseScrape3(ds) ==
    IF ds = <<>> \/ \E i \in 1..Len(ds) : ~ds[i].ok THEN Reject
    ELSE [ok |-> TRUE, req |-> [kind |-> "scrape", info_hashes |-> [i \in 1..Len(ds) |-> ds[i].v]]]
ParseScrape2(hs) == ParseScrape3([i \in 1..Len(hs) |-> UrlDecode20(hs[i])])
ParseScrapeQuery(q) == ParseScrape2(Vals(Params(q), K_info_hash))

ScrapeDomain2(hs) == hs # <<>> /\ \A i \in 1..Len(hs) : IdDomain(hs[i])
ScrapeDomain(q) == WellFormedQuery(q) /\ ScrapeDomain2(Vals(Params(q), K_info_hash))

L_announce == S(<<"/","a","n","n","o","u","n","c","e">>)
L_scrape   == S(<<"/","s","c","r","a","p","e">>)

ParsePath2(p, i) ==
    IF i = 0 THEN Reject
    ELSE IF SubSeq(p, 1, i - 1) = L_announce THEN ParseAnnounceQuery(SubSeq(p, i + 1, Len(p)))
    ELSE IF SubSeq(p, 1, i - 1) = L_scrape THEN ParseScrapeQuery(SubSeq(p, i + 1, Len(p)))
    ELSE Reject
(* the location is what precedes the first '?' *)
ParsePath(p) == ParsePath2(p, IndexOf(p, QMark))

PathDomain2(p, i) ==
    /\ i # 0
    /\ \/ SubSeq(p, 1, i - 1) = L_announce /\ AnnounceDomain(SubSeq(p, i + 1, Len(p)))
       \/ SubSeq(p, 1, i - 1) = L_scrape /\ ScrapeDomain(SubSeq(p, i + 1, Len(p)))
PathDomain(p) == PathDomain2(p, IndexOf(p, QMark))

(* reference writers (any parameter order); used by the model's own laws *)
RECURSIVE JoinFrom(_, _, _)
JoinFrom(ss, sep, i) == IF i > Len(ss) THEN <<>>
                        ELSE (IF i = 1 THEN <<>> ELSE <<sep>>) \o ss[i] \o JoinFrom(ss, sep, i + 1)
Join(ss, sep) == JoinFrom(ss, sep, 1)

WriteQuery(kvs) == Join([i \in 1..Len(kvs) |-> kvs[i][1] \o <<EqSgn>> \o kvs[i][2]], Amp)

WriteAnnounceQuery(r) ==
    WriteQuery(<< <<K_info_hash, UrlEncode20(r.info_hash)>>, <<K_peer_id, UrlEncode20(r.peer_id)>>,
                  <<K_port, DecBytes(r.port)>>, <<K_uploaded, DecBytes(r.uploaded)>>,
                  <<K_downloaded, DecBytes(r.downloaded)>>, <<K_left, DecBytes(r.left)>> >>
               \o (IF r.event = "empty" THEN <<>> ELSE << <<K_event, EventValue(r.event)>> >>)
               \o (IF r.numwant = <<>> THEN <<>> ELSE << <<K_numwant, DecBytes(r.numwant[1])>> >>)
               \o (IF r.key = <<>> THEN <<>> ELSE << <<K_key, PctEncode(r.key[1])>> >>)
               \o << <<K_compact, <<49>> >> >>)

WriteScrapeQuery(r) ==
    WriteQuery([i \in 1..Len(r.info_hashes) |-> <<K_info_hash, UrlEncode20(r.info_hashes[i])>>])

(* requests whose round trip the statement demands.  The parser refuses a   *)
(* `key` whose percent-encoded form exceeds 100 characters (request.rs), so *)
(* longer keys are not requests of the protocol; a scrape names >= 1 hash.  *)
IsBytes(b, n) == Len(b) = n /\ \A i \in 1..n : b[i] \in 0..255
RequestDomain(r) ==
    \/ /\ r.kind = "announce"
       /\ IsBytes(r.info_hash, 20) /\ IsBytes(r.peer_id, 20) /\ IsBytes(r.port, 2)
       /\ IsBytes(r.uploaded, 8) /\ IsBytes(r.downloaded, 8) /\ IsBytes(r.left, 8)
       /\ r.event \in {"started", "stopped", "completed", "empty"}
       /\ Len(r.numwant) <= 1 /\ \A i \in 1..Len(r.numwant) : IsBytes(r.numwant[i], 8)
       /\ Len(r.key) <= 1 /\ \A i \in 1..Len(r.key) : PctEncodedLen(r.key[i]) <= 100
    \/ /\ r.kind = "scrape"
       /\ Len(r.info_hashes) >= 1
       /\ \A i \in 1..Len(r.info_hashes) : IsBytes(r.info_hashes[i], 20)

----------------------------------------------------------------------------
(* (iii) bencode *)

LexLess3(a, b, m) == a[m] < b[m]
LexLess2(a, b, d) == IF d = {} THEN Len(a) < Len(b) ELSE LexLess3(a, b, SetMin(d))
LexLess(a, b) == LexLess2(a, b, {i \in 1..(IF Len(a) < Len(b) THEN Len(a) ELSE Len(b)) : a[i] # b[i]})

BStr(b) == DecNat(Len(b)) \o <<Colon>> \o b
BInt(dec) == <<105>> \o dec \o <<101>>

RECURSIVE FlatPairs(_, _)
FlatPairs(ps, i) == IF i > Len(ps) THEN <<>> ELSE BStr(ps[i][1]) \o ps[i][2] \o FlatPairs(ps, i + 1)

(* a dictionary from <<key, encoded value>> pairs given in any order *)
BDict(pairs) == <<100>> \o FlatPairs(SortSeq(pairs, LAMBDA x, y : LexLess(x[1], y[1])), 1) \o <<101>>

(* compact peer string: ip bytes then port bytes, w = 4 or 16 *)
Compact(peers, w) ==
    [i \in 1..(Len(peers) * (w + 2)) |->
        LET p == peers[((i - 1) \div (w + 2)) + 1]
            o == ((i - 1) % (w + 2)) + 1
        IN IF o <= w THEN p.ip[o] ELSE p.port[o - w]]

B_complete   == S(<<"c","o","m","p","l","e","t","e">>)
B_incomplete == S(<<"i","n","c","o","m","p","l","e","t","e">>)
B_downloaded == S(<<"d","o","w","n","l","o","a","d","e","d">>)
B_interval   == S(<<"i","n","t","e","r","v","a","l">>)
B_peers      == S(<<"p","e","e","r","s">>)
B_peers6     == S(<<"p","e","e","r","s","6">>)
B_warning    == S(<<"w","a","r","n","i","n","g"," ","m","e","s","s","a","g","e">>)
B_files      == S(<<"f","i","l","e","s">>)
B_failure    == S(<<"f","a","i","l","u","r","e"," ","r","e","a","s","o","n">>)

Zero8 == <<0, 0, 0, 0, 0, 0, 0, 0>>

BencAnnounce(r) ==
    BDict(<< <<B_interval, BInt(DecBytes(r.interval))>>,
             <<B_peers6, BStr(Compact(r.peers6, 16))>>,
             <<B_peers, BStr(Compact(r.peers, 4))>>,
             <<B_incomplete, BInt(DecBytes(r.incomplete))>>,
             <<B_complete, BInt(DecBytes(r.complete))>> >>
          \o (IF r.warning = <<>> THEN <<>> ELSE << <<B_warning, BStr(r.warning[1])>> >>))

BencStats(f) ==
    BDict(<< <<B_incomplete, BInt(DecBytes(f.incomplete))>>,
             <<B_downloaded, BInt(DecBytes(Zero8))>>,
             <<B_complete, BInt(DecBytes(f.complete))>> >>)

BencScrape(r) ==
    BDict(<< <<B_files, BDict([i \in 1..Len(r.files) |-> <<r.files[i].h, BencStats(r.files[i])>>])>> >>)

BencFailure(r) == BDict(<< <<B_failure, BStr(r.reason)>> >>)

BencReply(r) == CASE r.kind = "announce" -> BencAnnounce(r)
                  [] r.kind = "scrape" -> BencScrape(r)
                  [] r.kind = "failure" -> BencFailure(r)

(* the reply value a reader of the bytes must obtain *)
CanonFiles(srt) == [i \in 1..Len(srt) |->
                      [h |-> srt[i].h, complete |-> srt[i].complete,
                       downloaded |-> Zero8, incomplete |-> srt[i].incomplete]]
CanonReply(r) ==
    IF r.kind = "scrape"
    THEN [kind |-> "scrape", files |-> CanonFiles(SortSeq(r.files, LAMBDA x, y : LexLess(x.h, y.h)))]
    ELSE r

(* Replies the statement covers: counts below 2^63 (a bencode reader with   *)
(* 64-bit signed integers), distinct hashes in a scrape reply.              *)
Small64(b) == IsBytes(b, 8) /\ b[1] < 128
PeersOK(ps, w) == \A i \in 1..Len(ps) : IsBytes(ps[i].ip, w) /\ IsBytes(ps[i].port, 2)
ReplyDomain(r) ==
    \/ /\ r.kind = "announce"
       /\ Small64(r.interval) /\ Small64(r.complete) /\ Small64(r.incomplete)
       /\ PeersOK(r.peers, 4) /\ PeersOK(r.peers6, 16)
       /\ Len(r.warning) <= 1
    \/ /\ r.kind = "scrape"
       /\ \A i \in 1..Len(r.files) :
            /\ IsBytes(r.files[i].h, 20) /\ Small64(r.files[i].complete)
            /\ Small64(r.files[i].incomplete)
            /\ \A j \in 1..Len(r.files) : i # j => r.files[i].h # r.files[j].h
    \/ /\ r.kind = "failure"
       /\ \A i \in 1..Len(r.reason) : r.reason[i] \in 0..255

----------------------------------------------------------------------------
(* generic validating bencode reader: canonical integers and lengths, keys  *)
(* strictly ascending.  Values are [t, b, kv]: t in {"int","str","dict",    *)
(* "list"}, b the digits / the bytes, kv the <<key, value>> pairs (lists:   *)
(* key <<>>).                                                               *)

RECURSIVE EndDigits(_, _)
EndDigits(s, i) == IF i <= Len(s) /\ IsDigit(s[i]) THEN EndDigits(s, i + 1) ELSE i

BFail == [ok |-> FALSE, next |-> 0, t |-> "", b |-> <<>>, kv |-> <<>>]
BVal(r) == [t |-> r.t, b |-> r.b, kv |-> r.kv]

BInt2(s, i, j) ==
    IF j <= Len(s) /\ s[j] = 101 /\ CanonicalDecimal(SubSeq(s, i + 1, j - 1))
    THEN [ok |-> TRUE, next |-> j + 1, t |-> "int", b |-> SubSeq(s, i + 1, j - 1), kv |-> <<>>]
    ELSE BFail

BStr3(s, j, n) ==
    IF j + n <= Len(s)
    THEN [ok |-> TRUE, next |-> j + n + 1, t |-> "str", b |-> SubSeq(s, j + 1, j + n), kv |-> <<>>]
    ELSE BFail
BStr2(s, i, j) ==
    IF j <= Len(s) /\ s[j] = Colon /\ CanonicalDecimal(SubSeq(s, i, j - 1)) /\ j - i <= 7
    THEN BStr3(s, j, NatOf(SubSeq(s, i, j - 1), 1, 0))
    ELSE BFail

RECURSIVE BP(_, _), BPDict(_, _, _), BPDictK(_, _, _), BPDictV(_, _, _, _), BPList(_, _, _), BPListV(_, _, _)
BP(s, i) ==
    IF i > Len(s) THEN BFail
    ELSE IF s[i] = 105 THEN BInt2(s, i, EndDigits(s, i + 1))
    ELSE IF IsDigit(s[i]) THEN BStr2(s, i, EndDigits(s, i))
    ELSE IF s[i] = 100 THEN BPDict(s, i + 1, <<>>)
    ELSE IF s[i] = 108 THEN BPList(s, i + 1, <<>>)
    ELSE BFail

BPDict(s, i, acc) ==
    IF i > Len(s) THEN BFail
    ELSE IF s[i] = 101 THEN [ok |-> TRUE, next |-> i + 1, t |-> "dict", b |-> <<>>, kv |-> acc]
    ELSE BPDictK(s, acc, BP(s, i))
BPDictK(s, acc, k) ==
    IF ~k.ok \/ k.t # "str" THEN BFail
    ELSE IF acc # <<>> /\ ~LexLess(acc[Len(acc)][1], k.b) THEN BFail     \* keys strictly ascending
    ELSE BPDictV(s, acc, k, BP(s, k.next))
BPDictV(s, acc, k, v) ==
    IF ~v.ok THEN BFail ELSE BPDict(s, v.next, Append(acc, <<k.b, BVal(v)>>))

BPList(s, i, acc) ==
    IF i > Len(s) THEN BFail
    ELSE IF s[i] = 101 THEN [ok |-> TRUE, next |-> i + 1, t |-> "list", b |-> <<>>, kv |-> acc]
    ELSE BPListV(s, acc, BP(s, i))
BPListV(s, acc, v) ==
    IF ~v.ok THEN BFail ELSE BPList(s, v.next, Append(acc, <<<<>>, BVal(v)>>))

BParse2(s, r) == IF r.ok /\ r.next = Len(s) + 1 THEN [ok |-> TRUE, v |-> BVal(r)] ELSE Reject
BParse(s) == BParse2(s, BP(s, 1))

(* reading a reply out of a parsed value *)
Keys(v) == [i \in 1..Len(v.kv) |-> v.kv[i][1]]
Get(v, k) == v.kv[CHOOSE i \in 1..Len(v.kv) : v.kv[i][1] = k][2]
Has(v, k) == \E i \in 1..Len(v.kv) : v.kv[i][1] = k

Uncompact(b, w) == [i \in 1..(Len(b) \div (w + 2)) |->
                      [ip |-> SubSeq(b, (i - 1) * (w + 2) + 1, (i - 1) * (w + 2) + w),
                       port |-> SubSeq(b, (i - 1) * (w + 2) + w + 1, i * (w + 2))]]

Num8(v) == DecToBytes(v.b, 8).v

DecodeFiles(fs) ==
    [i \in 1..Len(fs.kv) |->
        [h |-> fs.kv[i][1],
         complete |-> Num8(Get(fs.kv[i][2], B_complete)),
         downloaded |-> Num8(Get(fs.kv[i][2], B_downloaded)),
         incomplete |-> Num8(Get(fs.kv[i][2], B_incomplete))]]

DecodeReply(v) ==
    IF Has(v, B_failure) THEN [kind |-> "failure", reason |-> Get(v, B_failure).b]
    ELSE IF Has(v, B_files) THEN [kind |-> "scrape", files |-> DecodeFiles(Get(v, B_files))]
    ELSE [kind |-> "announce",
          interval |-> Num8(Get(v, B_interval)),
          complete |-> Num8(Get(v, B_complete)),
          incomplete |-> Num8(Get(v, B_incomplete)),
          peers |-> Uncompact(Get(v, B_peers).b, 4),
          peers6 |-> Uncompact(Get(v, B_peers6).b, 16),
          warning |-> IF Has(v, B_warning) THEN <<Get(v, B_warning).b>> ELSE <<>>]
=============================================================================
