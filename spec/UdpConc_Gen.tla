----------------------------- MODULE UdpConc_Gen -----------------------------
(* Schedule generation for C04: the model's behaviours, as sequences of      *)
(* thread ids, are replayed on the real TorrentMaps by the cooperative        *)
(* scheduler (harness udp_sched).                                             *)
EXTENDS UdpConc_MC

VARIABLE hist
gvars == <<vars, hist>>

GInit == Init /\ hist = <<>>
GNext == \E t \in Threads : Step(t) /\ hist' = Append(hist, t)
GSpec == GInit /\ [][GNext]_gvars

(* one line per behaviour that reaches quiescence *)
Emit == AllDone => PrintT(<<"SCHED", ToJson([progs |-> progs, hist |-> hist])>>)

GView == vars
=============================================================================
