----------------------------- MODULE Buffers_MC -----------------------------
EXTENDS Buffers, Json

(* grid: defaults and both sides of every computed boundary *)
Combos ==
    {<<"udp", b, "announce", f, 3000>> : b \in {"mio", "uring"}, f \in {4, 6}}
    \cup {<<"udp", b, "scrape", 4, 255>> : b \in {"mio", "uring"}}
    \cup {<<"http", "glommio", "announce", f, 1000>> : f \in {4, 6}}
    \cup {<<"http", "glommio", "scrape", 4, 100>>}

Defaults(tracker, kind) ==
    CASE tracker = "udp" /\ kind = "announce" -> 30
      [] tracker = "udp" /\ kind = "scrape" -> 70
      [] tracker = "http" /\ kind = "announce" -> 50
      [] tracker = "http" /\ kind = "scrape" -> 100

Grid ==
    UNION {LET bd == Boundary(c[1], c[2], c[3], c[4], c[5])
               d == Defaults(c[1], c[3])
           IN {Case(c[1], c[2], c[3], c[4], n) :
                  n \in {x \in {1, d, bd - 1, bd, bd + 1, bd + 2, c[5]} : x >= 1 /\ x <= c[5]}}
           : c \in Combos}

VARIABLE done
Init == done = FALSE
Next == ~done /\ done' = TRUE
Spec == Init /\ [][Next]_done

Emit == \A x \in Grid : PrintT(<<"CASE", ToJson(x)>>)

(* C18 as a statement about the mirrored constants: every accepted configuration's worst request is *)
(* delivered.  Expected to be FALSE on the pinned tree (known findings); evaluated, not asserted.    *)
Overflowing == {x \in Grid : ~x.delivered}
EmitVerdict == PrintT(<<"FITS", Overflowing = {}, Cardinality(Overflowing)>>)

(* sanity of the arithmetic against the comments in the code *)
CommentsAgree ==
    /\ Boundary("udp", "uring", "announce", 6, 3000) = 112       \* "IPv6 announce response with 112 peers"
    /\ Boundary("udp", "uring", "scrape", 4, 255) = 23           \* limited by the 512-byte receive buffer
    /\ UdpScrapeLen(170) <= 2048 /\ UdpScrapeLen(171) > 2048    \* "scrape response for 170 info hashes"
    /\ UdpAnnounceLen(6, 454) <= 8192 /\ UdpAnnounceLen(6, 455) > 8192
=============================================================================
