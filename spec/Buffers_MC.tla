----------------------------- MODULE Buffers_MC -----------------------------
EXTENDS Buffers, Json

(* grid: defaults and both sides of every computed boundary *)
Combos ==
    {<<"udp", b, "announce", f, 3000>> : b \in {"mio", "uring"}, f \in {4, 6}}
    \cup {<<"udp", b, "scrape", 4, 255>> : b \in {"mio", "uring"}}
    \cup {<<"http", "glommio", "announce", f, 1000>> : f \in {4, 6}}
    \cup {<<"http", "glommio", "scrape", 4, 100>>}

Defaults(tracker, kind) ==
    CASE tracker = "udp" /\ kind = "announce" -> 30
      [] tracker = "udp" /\ kind = "scrape" -> 70
      [] tracker = "http" /\ kind = "announce" -> 50
      [] tracker = "http" /\ kind = "scrape" -> 100

Grid ==
    UNION {LET bd == Boundary(c[1], c[2], c[3], c[4], c[5])
               d == Defaults(c[1], c[3])
           IN {Case(c[1], c[2], c[3], c[4], n) :
                  n \in {x \in {1, d, bd - 1, bd, bd + 1, bd + 2, c[5]} : x >= 1 /\ x <= c[5]}}
           : c \in Combos}

VARIABLE done
Init == done = FALSE
Next == ~done /\ done' = TRUE
Spec == Init /\ [][Next]_done

Emit == \A x \in Grid : PrintT(<<"CASE", ToJson(x)>>)

(* exact fits: HTTP announce replies that fill the response buffer to the last byte.  The body length   *)
(* moves in steps of 6 / 18 bytes with the number of peers, and by single bytes with the number of       *)
(* digits of `peer_announce_interval` (a configuration value) - so for each family the largest swarm    *)
(* for which SOME interval makes header + body + CRLF = HttpSendBuf is a reply that must be delivered   *)
(* ("fits" is <=, not <)                                                                                 *)
Intervals == {1, 10, 120, 1000, 10000, 100000, 1000000, 10000000}
ExactFits(f) == {[fam |-> f, n |-> n, interval |-> iv, replylen |-> HttpSendBuf] :
                    n \in 1..700, iv \in Intervals}
ExactOK(x) == HttpReplyLen(HttpAnnounceBody(x.fam, x.n, 0, x.n, x.interval)) = HttpSendBuf
BestExact(f) == LET S == {x \in ExactFits(f) : ExactOK(x)}
                IN {x \in S : \A y \in S : y.n <= x.n}
EmitExact == \A f \in {4, 6} : \A x \in BestExact(f) : PrintT(<<"EXACT", ToJson(x)>>)
ExactExists == \A f \in {4, 6} : BestExact(f) # {}

(* C18 as a statement about the mirrored constants: every accepted configuration's worst request is *)
(* delivered.  Expected to be FALSE on the pinned tree (known findings); evaluated, not asserted.    *)
Overflowing == {x \in Grid : ~x.delivered}
EmitVerdict == PrintT(<<"FITS", Overflowing = {}, Cardinality(Overflowing)>>)

(* sanity of the arithmetic against the comments in the code *)
CommentsAgree ==
    /\ Boundary("udp", "uring", "announce", 6, 3000) = 112       \* "IPv6 announce response with 112 peers"
    /\ Boundary("udp", "uring", "scrape", 4, 255) = 23           \* limited by the 512-byte receive buffer
    /\ UdpScrapeLen(170) <= 2048 /\ UdpScrapeLen(171) > 2048    \* "scrape response for 170 info hashes"
    /\ UdpAnnounceLen(6, 454) <= 8192 /\ UdpAnnounceLen(6, 455) > 8192
=============================================================================
