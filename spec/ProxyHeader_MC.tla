--------------------------- MODULE ProxyHeader_MC ---------------------------
(***************************************************************************)
(* Reverse-proxy peer address rule (C03, crates/http/.../request.rs        *)
(* parse_forwarded_header): the peer address is the LAST address of the    *)
(* LAST occurrence of the configured header.  A request carries a sequence *)
(* of headers, each either the configured one ("ours") or another name,    *)
(* with a comma-separated list of 1..3 addresses.  TLC enumerates the      *)
(* layouts and prints each with the address the rule selects.              *)
(***************************************************************************)
EXTENDS Naturals, Sequences, FiniteSets, TLC, Json

Addrs == 1..5            \* 1-3 IPv4, 4 IPv6, 5 IPv4-mapped IPv6

Values == {<<a>> : a \in Addrs} \cup {<<a, b>> : a \in {1, 4}, b \in {2, 5}} \cup {<<1, 2, 3>>, <<3, 4, 1>>}
Header == [ours : BOOLEAN, values : Values]

Layouts ==
    {<<h>> : h \in Header}
    \cup {<<h1, h2>> : h1 \in {[ours |-> TRUE, values |-> <<1>>], [ours |-> FALSE, values |-> <<3>>], [ours |-> TRUE, values |-> <<1, 2>>]},
                       h2 \in {[ours |-> TRUE, values |-> <<2>>], [ours |-> FALSE, values |-> <<4>>], [ours |-> TRUE, values |-> <<4, 1>>]}}
    \cup {<<[ours |-> TRUE, values |-> <<1>>], [ours |-> FALSE, values |-> <<2>>], [ours |-> TRUE, values |-> <<3, 5>>]>>,
          <<[ours |-> TRUE, values |-> <<1, 2>>], [ours |-> TRUE, values |-> <<3>>], [ours |-> FALSE, values |-> <<4>>]>>}

HasOurs(l) == \E i \in 1..Len(l) : l[i].ours
LastOurs(l) == CHOOSE i \in 1..Len(l) : l[i].ours /\ \A j \in (i + 1)..Len(l) : ~l[j].ours
Expect(l) == LET v == l[LastOurs(l)].values IN v[Len(v)]

VARIABLE done
Init == done = FALSE
Next == done' = TRUE /\ ~done
Spec == Init /\ [][Next]_done

Emit == \A l \in {x \in Layouts : HasOurs(x)} :
            PrintT(<<"LAYOUT", ToJson([headers |-> l, expect |-> Expect(l)])>>)

(* the rule never selects an address of another header, nor a non-final address *)
RuleSound == \A l \in {x \in Layouts : HasOurs(x)} :
    \E i \in 1..Len(l) : l[i].ours /\ Expect(l) = l[i].values[Len(l[i].values)]
                         /\ \A j \in (i + 1)..Len(l) : ~l[j].ours
=============================================================================
