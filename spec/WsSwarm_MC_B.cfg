\* offers and answers among three peers (C09)
SPECIFICATION Spec
CONSTANTS
  Conns <- MCConns
  Hashes = {1}
  Pids = {1, 2, 3}
  OfferIds = {1, 2}
  Times = {0}
  CleanTimes = {0, 1}
  MaxPeerAge = 2
  MaxOfferAge = 1
  MaxOffers = 2
  MaxScrape = 2
  OfferLists <- MCOfferLists
  ScrapeLists <- MCScrapeLists
  Events = {"started", "stopped"}
  Lefts = {2}
  Fixed = TRUE
VIEW View
INVARIANTS TypeOK ClosedLeavesNothing AnnConsistent PendingFaithful
PROPERTIES RefinesReference Ownership
CHECK_DEADLOCK FALSE
