SPECIFICATION Spec
CONSTANTS
  Slots = 2
  AcquireTid = 99
  MaxSends = 5
  GuardIndex = TRUE
INVARIANTS UsesIssuedIds NeverCrashes
CHECK_DEADLOCK FALSE
