--------------------------- MODULE TlsReload_Trace ---------------------------
(***************************************************************************)
(* Observations of running HTTP / WebTorrent trackers with TLS enabled,     *)
(* validated against TlsReload.tla (extension; informational).              *)
(*                                                                         *)
(* The driver (lib/ext_tls.py) replaces the certificate file (good          *)
(* certificate k, garbage, or nothing), sends SIGUSR1, opens connections    *)
(* (recording which certificate the server presented) and probes whether    *)
(* earlier connections are still served.  It logs its own monotonic clock   *)
(* (milliseconds) around every step; the tracker's timers are judged with   *)
(* margins, so a slow driver loses verdicts and never invents one:          *)
(*   a connection made stale by a reload signalled between sig0 and sig1    *)
(*   MUST still be open when observed before  sig0 + (Grace - 1) s          *)
(*        (the countdown starts at a cleaning pass >= the reload and is      *)
(*         counted in whole seconds of the tracker's clock)                  *)
(*   MUST be closed when observed after  sig1 + Grace + 2 * CleanEvery s     *)
(*        + slack                                                           *)
(*   and may be either in between.                                          *)
(***************************************************************************)
EXTENDS Naturals, Sequences, FiniteSets, Json, IOUtils, TLC

Rec == ndJsonDeserialize(IOEnv.TRACE)

Bad == 100
Missing == 101

VARIABLES l, cfg, file, served, conn
vars == <<l, cfg, file, served, conn>>

(* conn: name -> [gen, cert, stale0, stale1]  (stale0 = 0: not stale) *)

Init ==
    /\ l = 1 /\ TLCSet(2, 1)
    /\ cfg = [grace_close |-> FALSE, skip_identical |-> FALSE, grace |-> 0, clean_every |-> 0, slack_ms |-> 0]
    /\ file = 0 /\ served = [gen |-> 0, cert |-> 0] /\ conn = <<>>

E == Rec[l]
IsEvent(name) == l <= Len(Rec) /\ Rec[l].ev = name /\ l' = l + 1
FnPut(f, k, v) == [x \in DOMAIN f \cup {k} |-> IF x = k THEN v ELSE f[x]]

Reset ==
    /\ IsEvent("reset")
    /\ cfg' = [grace_close |-> E.grace_close, skip_identical |-> E.skip_identical, grace |-> E.grace, clean_every |-> E.clean_every, slack_ms |-> E.slack_ms]
    /\ file' = E.cert /\ served' = [gen |-> 1, cert |-> E.cert] /\ conn' = <<>>

Write ==
    /\ IsEvent("write")
    /\ file' = E.x
    /\ UNCHANGED <<cfg, served, conn>>

Good(x) == x # Bad /\ x # Missing

(* TlsReload!Reload, plus the bookkeeping of when connections became stale *)
Reload ==
    /\ IsEvent("reload")
    /\ IF Good(file) /\ ~(cfg.skip_identical /\ file = served.cert)
       THEN /\ served' = [gen |-> served.gen + 1, cert |-> file]
            /\ conn' = [c \in DOMAIN conn |->
                          IF conn[c].stale0 = 0 THEN [conn[c] EXCEPT !.stale0 = E.t0, !.stale1 = E.t1] ELSE conn[c]]
       ELSE UNCHANGED <<served, conn>>
    /\ UNCHANGED <<cfg, file>>

(* TlsReload!Connect: a new connection is served the configuration in force *)
Connect ==
    /\ IsEvent("connect")
    /\ E.c \notin DOMAIN conn
    /\ E.cert_seen = served.cert
    /\ conn' = FnPut(conn, E.c, [gen |-> served.gen, cert |-> served.cert, stale0 |-> 0, stale1 |-> 0])
    /\ UNCHANGED <<cfg, file, served>>

MustBeOpen(c, t1) ==
    \/ conn[c].stale0 = 0
    \/ ~cfg.grace_close
    \/ (cfg.grace >= 1 /\ t1 < conn[c].stale0 + (cfg.grace - 1) * 1000)
MustBeClosed(c, t0) ==
    /\ conn[c].stale0 # 0 /\ cfg.grace_close
    /\ t0 > conn[c].stale1 + (cfg.grace + 2 * cfg.clean_every) * 1000 + cfg.slack_ms

Probe ==
    /\ IsEvent("probe")
    /\ E.c \in DOMAIN conn
    /\ MustBeOpen(E.c, E.t1) => E.open
    /\ MustBeClosed(E.c, E.t0) => ~E.open
    /\ UNCHANGED <<cfg, file, served, conn>>

Next == Reset \/ Write \/ Reload \/ Connect \/ Probe
Spec == Init /\ [][Next]_vars

Mark == TLCSet(2, IF l > TLCGet(2) THEN l ELSE TLCGet(2))
Accepted ==
    LET hw == TLCGet(2) IN
    IF hw = Len(Rec) + 1 THEN TRUE
    ELSE /\ PrintT(<<"TRACE_REJECTED", hw, ToJson(Rec[hw])>>)
         /\ FALSE
=============================================================================
