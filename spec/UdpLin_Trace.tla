---------------------------- MODULE UdpLin_Trace ----------------------------
(***************************************************************************)
(* Linearizability checking of concurrent executions of the real UDP swarm *)
(* state (property C04) by trace validation.  The harness (udp_sched) logs *)
(* `call` and `ret` events of every operation in real-time order, a state  *)
(* dump at quiescence, and `deadlock` / `panic` events.                    *)
(*                                                                         *)
(* Between an operation's call and its ret a silent step Lin(thr) applies  *)
(* it to the reference store; the reference reply at that point must equal *)
(* the reply the real operation returned (attached to the call line).  A   *)
(* scrape of several torrents is a sequence of per-torrent units, in       *)
(* request order, each linearized on its own (LinScrape).  A               *)
(* cleaning pass is a sequence of per-torrent units: between its call and  *)
(* ret, each torrent may be cleaned at most once (LinClean).  TLC searches *)
(* for linearization points; the trace is accepted iff some choice         *)
(* consumes every line, and the final dump must equal the reference store. *)
(* `deadlock` and `panic` lines match no action.                           *)
(***************************************************************************)
EXTENDS RefTracker, Dump, Json, IOUtils

Rec == ndJsonDeserialize(IOEnv.TRACE)

VARIABLES l, store, pending
vars == <<l, store, pending>>

(* pending: thr -> [op, reply, lin (BOOLEAN), cleaned (set of hashes), j (scrape units done)] *)

Init == l = 1 /\ store = <<>> /\ pending = <<>> /\ TLCSet(2, 1)

E == Rec[l]
IsEvent(name) == l <= Len(Rec) /\ Rec[l].ev = name /\ l' = l + 1

FnPut(f, k, v) == [x \in DOMAIN f \cup {k} |-> IF x = k THEN v ELSE f[x]]
FnDel(f, k) == [x \in DOMAIN f \ {k} |-> f[x]]

Reset ==
    /\ IsEvent("reset")
    /\ store' = <<>> /\ pending' = <<>>

Call ==
    /\ IsEvent("call")
    /\ E.thr \notin DOMAIN pending
    /\ "reply" \in DOMAIN E            \* operations that never returned cannot be linearized
    /\ pending' = FnPut(pending, E.thr, [op |-> E.op, reply |-> E.reply, lin |-> FALSE, cleaned |-> {}, j |-> 0])
    /\ UNCHANGED store

Key(op) == op.key
T(op) == <<4, op.h>>

Lin(thr) ==
    /\ thr \in DOMAIN pending /\ ~pending[thr].lin
    /\ LET p == pending[thr]  op == p.op IN
       /\ op.kind = "announce"
       /\ LET cnt == AnnounceCountsExcl(store, T(op), Key(op))
              status == IF op.stop THEN "stopped" ELSE "leeching"
          IN /\ p.reply = cnt.seeders + cnt.leechers
             /\ store' = AnnounceStore(store, T(op), Key(op), status,
                                       [seeder |-> FALSE, deadline |-> op.d, pid |-> 1])
    /\ pending' = [pending EXCEPT ![thr].lin = TRUE]
    /\ UNCHANGED l

(* the next unit of a scrape: the counts of its (j+1)-th torrent, as of now *)
LinScrape(thr) ==
    /\ thr \in DOMAIN pending /\ ~pending[thr].lin
    /\ LET p == pending[thr]  op == p.op IN
       /\ op.kind = "scrape"
       /\ Len(p.reply) = Len(op.hs)
       /\ p.j < Len(op.hs)
       /\ LET cnt == ScrapeCounts(store, <<4, op.hs[p.j + 1]>>)
          IN p.reply[p.j + 1] = cnt.seeders + cnt.leechers
       /\ pending' = [pending EXCEPT ![thr].j = p.j + 1, ![thr].lin = (p.j + 1 = Len(op.hs))]
    /\ UNCHANGED <<l, store>>

LinClean(thr, t) ==
    /\ thr \in DOMAIN pending /\ pending[thr].op.kind = "clean"
    /\ t \in DOMAIN store /\ t \notin pending[thr].cleaned
    /\ LET now == pending[thr].op.now
           keep == {k \in DOMAIN store[t] : Valid(store[t][k].deadline, now)}
       IN /\ keep # DOMAIN store[t]          \* only steps with an effect
          /\ store' = Put(store, t, Restrict(store[t], keep))
    /\ pending' = [pending EXCEPT ![thr].cleaned = @ \cup {t}]
    /\ UNCHANGED l

Ret ==
    /\ IsEvent("ret")
    /\ E.thr \in DOMAIN pending
    /\ pending[E.thr].op.kind = "clean" \/ pending[E.thr].lin
    /\ pending' = FnDel(pending, E.thr)
    /\ UNCHANGED store

Final ==
    /\ IsEvent("final")
    /\ DOMAIN pending = {}
    /\ DumpWellFormed(E.dump)
    /\ DumpAbs(E.dump) = store
    /\ UNCHANGED <<store, pending>>

Next ==
    \/ Reset \/ Call \/ Ret \/ Final
    \/ \E thr \in DOMAIN pending : Lin(thr) \/ LinScrape(thr)
    \/ \E thr \in DOMAIN pending : \E t \in DOMAIN store : LinClean(thr, t)

Spec == Init /\ [][Next]_vars

(* high-water mark of consumed lines (one worker) *)
Mark == TLCSet(2, IF l > TLCGet(2) THEN l ELSE TLCGet(2))

Accepted ==
    LET hw == TLCGet(2) IN
    IF hw = Len(Rec) + 1 THEN TRUE
    ELSE /\ PrintT(<<"TRACE_REJECTED", hw, ToJson(Rec[hw])>>)
         /\ FALSE
=============================================================================
