------------------------------ MODULE Bep15_Gen ------------------------------
(***************************************************************************)
(* Case generation for the conformance run of C13.  TLC prints one line    *)
(* per case: the structural class (group + parameters), the decision the   *)
(* specification expects (closed forms of Bep15_MC, applied to the         *)
(* parameter ranges of the tier) and, for well-formed messages, the        *)
(* abstract choices (kind, event, family, list length).  lib/c13.py picks  *)
(* the remaining field values (boundary and seeded random).                *)
(***************************************************************************)
EXTENDS Bep15_MC, Json, Integers

CONSTANT Thorough

Emit(tag, x) == PrintT(<<tag, ToJson(x)>>)

(* structural classes exactly as model-checked *)
McLeaves(go) == go /\ \A g \in StructGroups : \A i \in 0..(Size(g) - 1) :
    Emit("CASE", [grp |-> g, kind |-> StructKind(g, i), p |-> StructP(g, i), x |-> StructX(g, i)])

(* the same closed forms over the wider parameter ranges of the thorough tier *)
WideTrunc(go) == go /\ \A k \in {"connect", "announce", "scrape"} : \A len \in 121..260 : \A m \in {0, 1, 2, 7, 255} :
    LET p == [kind |-> k, len |-> len, max |-> m]
    IN Emit("CASE", [grp |-> "trunc", kind |-> k, p |-> p, x |-> TruncX(p)])

CutPairs == {<<m, n>> \in (0..255) \X (0..255) :
               \/ n \in {0, 1, m - 1, m, m + 1, 255}
               \/ m \in {0, 1, 2, 70, 254, 255}}
WideCut(go) == go /\ \A q \in CutPairs :
    LET p == [max |-> q[1], n |-> q[2]]
    IN Emit("CASE", [grp |-> "cut", kind |-> "scrape", p |-> p, x |-> CutX(p)])

(* well-formed messages: abstract choices *)
R(dir, kind, event, fam, n) == [dir |-> dir, kind |-> kind, event |-> event, fam |-> fam, n |-> n]
ListLens == IF Thorough THEN 0..255 ELSE (0..8) \cup {74, 100, 255}
Rt(go) ==
    /\ go
    /\ Emit("RT", R("req", "connect", "", 0, 0))
    /\ \A e \in Events : Emit("RT", R("req", "announce", e, 0, 0))
    /\ \A n \in ListLens : Emit("RT", R("req", "scrape", "", 0, n))
    /\ Emit("RT", R("resp", "connect", "", 0, 0))
    /\ \A fam \in {4, 6} : \A n \in ListLens : Emit("RT", R("resp", "announce", "", fam, n))
    /\ \A n \in ListLens : Emit("RT", R("resp", "scrape", "", 0, n))
    /\ \A n \in ListLens : Emit("RT", R("resp", "error", "", 0, n))

(* (operators with a parameter: TLC evaluates parameterless constant definitions eagerly) *)
ASSUME McLeaves(TRUE)
ASSUME Rt(TRUE)
ASSUME Thorough => (WideTrunc(TRUE) /\ WideCut(TRUE))

GenInit == c = [g |-> "root", grp |-> "", i |-> 0]
GenNext == UNCHANGED c
=============================================================================
