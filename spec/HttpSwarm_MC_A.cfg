\* one torrent, six keys: 4 -> 5 -> 4 representation transitions
SPECIFICATION Spec
CONSTANTS
  Fams = {4}
  Hashes = {1}
  Keys = {k1, k2, k3, k4, k5, k6}
  Deadlines = {1}
  Nows = {0, 1}
  NumWants <- MCNumWants
  MaxPeers = 4
  MaxScrape = 2
  Cap = 4
  ScrapeLists <- MCScrapeLists
  Events = {"started", "stopped"}
  Lefts = {0, 1}
SYMMETRY SymKeys
VIEW View
INVARIANTS TypeOK SelectionInBounds
PROPERTIES RefinesReference
CHECK_DEADLOCK FALSE
