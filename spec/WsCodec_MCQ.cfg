SPECIFICATION Spec
CONSTANTS
  Concrete = TRUE
  Full = FALSE
INVARIANT LawHolds
INVARIANT Emitted
CHECK_DEADLOCK FALSE
