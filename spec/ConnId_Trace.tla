---------------------------- MODULE ConnId_Trace ----------------------------
(* Trace validation of the real ConnectionValidator against ConnId.tla's     *)
(* acceptance rule.  Events logged by harness conn_exec.                     *)
EXTENDS Naturals, Integers, Sequences, FiniteSets, TLC, Json, IOUtils

Rec == ndJsonDeserialize(IOEnv.TRACE)

B == 1048576
BAdd(a, b) == LET lo == a[2] + b[2] IN <<a[1] + b[1] + (lo \div B), lo % B>>
BLess(a, b) == a[1] < b[1] \/ (a[1] = b[1] /\ a[2] < b[2])
BLeq(a, b) == a = b \/ BLess(a, b)
TimeOK(t, c, maxAge) == BLess(c, BAdd(t, maxAge)) /\ BLeq(t, BAdd(c, <<0, 60>>))
Canon(ip) == IF ip[1] = "map" THEN <<"v4", ip[2]>> ELSE <<ip[1], ip[2]>>

VARIABLES l, clock, issued, maxage
vars == <<l, clock, issued, maxage>>

Init == l = 1 /\ clock = <<0, 0>> /\ issued = <<>> /\ maxage = <<0, 0>>

E == Rec[l]
IsEvent(name) == l <= Len(Rec) /\ Rec[l].ev = name /\ l' = l + 1

Reset ==
    /\ IsEvent("reset")
    /\ clock' = <<0, 0>> /\ issued' = <<>> /\ maxage' = <<E.max_age[1], E.max_age[2]>>

Clock ==
    /\ IsEvent("clock")
    /\ clock' = <<E.t[1], E.t[2]>>
    /\ UNCHANGED <<issued, maxage>>

Issue ==
    /\ IsEvent("issue")
    \* the same id may be issued twice only for the same (ip, time)
    /\ (E.id \in DOMAIN issued) => issued[E.id] = [ip |-> Canon(E.ip), t |-> clock]
    /\ issued' = [x \in DOMAIN issued \cup {E.id} |->
                     IF x = E.id THEN [ip |-> Canon(E.ip), t |-> clock] ELSE issued[x]]
    /\ UNCHANGED <<clock, maxage>>

(* accepted iff issued by this validator to the same canonical address and *)
(* still inside its time window                                            *)
Check ==
    /\ IsEvent("check")
    /\ E.ok = (/\ E.id \in DOMAIN issued
               /\ issued[E.id].ip = Canon(E.ip)
               /\ TimeOK(issued[E.id].t, clock, maxage))
    /\ UNCHANGED <<clock, issued, maxage>>

Next == Reset \/ Clock \/ Issue \/ Check
Spec == Init /\ [][Next]_vars

Remember == TLCSet(1, [l |-> l, clock |-> clock, maxage |-> maxage])
Accepted ==
    LET d == TLCGet("stats").diameter IN
    IF d - 1 = Len(Rec) THEN TRUE
    ELSE /\ PrintT(<<"TRACE_REJECTED", d, ToJson(Rec[d])>>)
         /\ PrintT(<<"LAST_STATE", ToJson(TLCGet(1))>>)
         /\ FALSE
=============================================================================
