------------------------------ MODULE ConnIdle ------------------------------
(***************************************************************************)
(* Idle-connection cleaning of the HTTP and WebTorrent socket workers      *)
(* (clean_connections in crates/{http,ws}/src/workers/socket/mod.rs): each *)
(* connection carries valid_until = time of its last request + MaxIdle; a  *)
(* timer fires every Interval seconds and closes every connection whose    *)
(* valid_until has passed.  Growth of the specification beyond the listed  *)
(* properties; exercised end to end by the thorough tier of C16.           *)
(***************************************************************************)
EXTENDS Naturals, FiniteSets

CONSTANTS Conns, MaxIdle, Interval, MaxTime

VARIABLES clock, open, validUntil, lastReq, nextClean, closedAt
vars == <<clock, open, validUntil, lastReq, nextClean, closedAt>>

Init ==
    /\ clock = 0 /\ open = Conns
    /\ validUntil = [c \in Conns |-> MaxIdle]        \* set when the connection is accepted
    /\ lastReq = [c \in Conns |-> 0]
    /\ nextClean = 0
    /\ closedAt = [c \in Conns |-> 0]

Request(c) ==     \* handle_request refreshes the deadline
    /\ c \in open
    /\ validUntil' = [validUntil EXCEPT ![c] = clock + MaxIdle]
    /\ lastReq' = [lastReq EXCEPT ![c] = clock]
    /\ UNCHANGED <<clock, open, nextClean, closedAt>>

Clean ==
    /\ clock = nextClean
    /\ LET dead == {c \in open : ~(validUntil[c] > clock)} IN
       /\ open' = open \ dead
       /\ closedAt' = [c \in Conns |-> IF c \in dead THEN clock ELSE closedAt[c]]
    /\ nextClean' = clock + Interval
    /\ UNCHANGED <<clock, validUntil, lastReq>>

Tick ==
    /\ clock < MaxTime /\ clock < nextClean
    /\ clock' = clock + 1
    /\ UNCHANGED <<open, validUntil, lastReq, nextClean, closedAt>>

Next == (\E c \in Conns : Request(c)) \/ Clean \/ Tick
Spec == Init /\ [][Next]_vars

(* a connection is never closed while its last request is less than MaxIdle old *)
NeverClosedWhileActive ==
    \A c \in Conns : c \notin open => closedAt[c] - lastReq[c] >= MaxIdle
(* an idle connection is closed at the first cleaning pass at or after its deadline *)
IdleClosedInTime ==
    \A c \in open : clock - lastReq[c] < MaxIdle + Interval
=============================================================================
