SPECIFICATION Spec
CONSTANT EncAnnounceResp <- BadEncAnnounceResp
INVARIANT Law
CHECK_DEADLOCK FALSE
CONSTANT NPat = 2
