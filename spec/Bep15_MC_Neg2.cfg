SPECIFICATION Spec
CONSTANT EncAnnounceResp <- BadEncAnnounceResp
INVARIANT Law
CHECK_DEADLOCK FALSE
