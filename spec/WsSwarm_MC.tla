---------------------------- MODULE WsSwarm_MC ----------------------------
EXTENDS WsSwarm, Json

MCConns == {<<1, 1>>, <<2, 1>>, <<1, 2>>}
GenConns == {<<1, 1>>, <<2, 1>>}
MCOfferLists == {<<>>, <<1>>, <<1, 2>>}
C09QOfferLists == {<<>>, <<1>>, <<1, 1>>}
GenOfferLists == {<<>>, <<1>>}
MCScrapeLists == {<<h>> : h \in Hashes}

Id == <<[h \in DOMAIN tm |->
          <<tm[h].nseed,
            [i \in 1..Len(tm[h].seq) |->
               <<tm[h].seq[i].pid, tm[h].seq[i].owner, tm[h].seq[i].seeder, tm[h].seq[i].deadline,
                 tm[h].seq[i].exp>>]>>], ann, closed>>
Id2 == <<[h \in DOMAIN tm' |->
          <<tm'[h].nseed,
            [i \in 1..Len(tm'[h].seq) |->
               <<tm'[h].seq[i].pid, tm'[h].seq[i].owner, tm'[h].seq[i].seeder, tm'[h].seq[i].deadline,
                 tm'[h].seq[i].exp>>]>>], ann', closed'>>
EmitEdge == PrintT(<<"EDGE", ToString(Id), ToJson(op'), ToString(Id2)>>)
=============================================================================
