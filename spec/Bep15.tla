------------------------------- MODULE Bep15 -------------------------------
(***************************************************************************)
(* Reference codec of the UDP tracker protocol (BEP 15) and the decision   *)
(* table of the request parser, over byte sequences.                       *)
(*                                                                         *)
(* A byte is an integer 0..255.  Every multi-byte integer field is carried *)
(* as its big-endian byte tuple (most significant byte first), so no value *)
(* ever exceeds TLC's 32-bit integers: a connection id is a tuple of 8     *)
(* bytes, a transaction id a tuple of 4 bytes, and so on.  "The field has  *)
(* value v" means "the field's bytes are the big-endian representation of  *)
(* v"; the executor converts with from_be_bytes / to_be_bytes only.        *)
(*                                                                         *)
(*   connect request    magic(8) action=0(4) tid(4)                  = 16  *)
(*   announce request   cid(8) action=1(4) tid(4) hash(20) pid(20)         *)
(*                      down(8) left(8) up(8) event(4) ip(4) key(4)        *)
(*                      numwant(4) port(2)                           = 98  *)
(*   scrape request     cid(8) action=2(4) tid(4) hash(20)*                *)
(*   connect reply      action=0(4) tid(4) cid(8)                    = 16  *)
(*   announce reply     action=1(4) tid(4) interval(4) leechers(4)         *)
(*                      seeders(4) (ip(4|16) port(2))*                     *)
(*   scrape reply       action=2(4) tid(4) (seeders(4) completed(4)        *)
(*                      leechers(4))*                                      *)
(*   error reply        action=3(4) tid(4) message                         *)
(***************************************************************************)
EXTENDS Naturals, Sequences

Byte == 0..255

IsBytes(s, n) == /\ DOMAIN s = 1..n
                 /\ \A i \in 1..n : s[i] \in Byte

IsByteSeq(s) == /\ DOMAIN s = 1..Len(s)
                /\ \A i \in 1..Len(s) : s[i] \in Byte

(* bytes at wire offsets off .. off+n-1 (offsets count from 0 as in BEP 15) *)
At(b, off, n) == SubSeq(b, off + 1, off + n)

(* big-endian 32-bit representation of a small natural (action, event)     *)
BE32(n) == <<(n \div 16777216) % 256, (n \div 65536) % 256, (n \div 256) % 256, n % 256>>

(* value of a big-endian tuple of at most 3 significant bytes (diagnostic) *)
RECURSIVE BEVal(_)
BEVal(s) == IF s = <<>> THEN 0 ELSE BEVal(SubSeq(s, 1, Len(s) - 1)) * 256 + s[Len(s)]

(* the protocol id 0x41727101980, big-endian in 8 bytes *)
Magic == <<0, 0, 4, 23, 39, 16, 25, 128>>

(* 0x41727101980 = 0x417 * 2^32 + 0x27101980 *)
ASSUME /\ BEVal(At(Magic, 0, 4)) = 4 * 256 + 1 * 16 + 7
       /\ BEVal(At(Magic, 4, 4)) = 2 * 268435456 + 7 * 16777216 + 1 * 1048576 + 0 * 65536
                                    + 1 * 4096 + 9 * 256 + 8 * 16 + 0

ActConnect  == 0
ActAnnounce == 1
ActScrape   == 2
ActError    == 3

(* BEP 15: event 0: none; 1: completed; 2: started; 3: stopped *)
Events == {"none", "completed", "started", "stopped"}
EvCodes == [none |-> 0, completed |-> 1, started |-> 2, stopped |-> 3]
EncEvent(e) == BE32(EvCodes[e])
IsEventCode(b4) == \E e \in Events : EncEvent(e) = b4
DecEvent(b4) == CHOOSE e \in Events : EncEvent(e) = b4

(* concatenation of a list of byte tuples that all have the same length (hashes, *)
(* peers, statistics entries); written without recursion for long lists        *)
Flatten(ss) ==
    IF Len(ss) = 0 THEN <<>>
    ELSE LET w == Len(ss[1])
         IN [j \in 1..(Len(ss) * w) |-> ss[((j - 1) \div w) + 1][((j - 1) % w) + 1]]

Min(a, b) == IF a <= b THEN a ELSE b

(***************************************************************************)
(* Requests                                                                *)
(***************************************************************************)
EncConnectReq(r) == Magic \o BE32(ActConnect) \o r.tid

EncAnnounceReq(r) ==
    r.cid \o BE32(ActAnnounce) \o r.tid \o r.hash \o r.pid \o r.down \o r.left \o r.up
    \o EncEvent(r.event) \o r.ip \o r.key \o r.numwant \o r.port

EncScrapeReq(r) == r.cid \o BE32(ActScrape) \o r.tid \o Flatten(r.hashes)

EncRequest(kind, r) ==
    CASE kind = "connect"  -> EncConnectReq(r)
      [] kind = "announce" -> EncAnnounceReq(r)
      [] kind = "scrape"   -> EncScrapeReq(r)

AnnounceLen == 98
HeaderLen == 16

(* Decision table of the request parser.  Result:                          *)
(*   [ok |-> TRUE,  class |-> "ok" | "ok_padded", kind, f]                 *)
(*   [ok |-> FALSE, class |-> reason]                                      *)
(* "ok_padded" is a connect request followed by further bytes: BEP 15 and  *)
(* the property's statement are silent about it, the trace specification   *)
(* allows both outcomes (fields must be right if it is accepted).          *)
Reject(why) == [ok |-> FALSE, class |-> why]

ParseRequest(b, maxScrape) ==
    IF Len(b) < HeaderLen THEN Reject("too_few")
    ELSE LET action == At(b, 8, 4) IN
    CASE action = BE32(ActConnect) ->
           IF At(b, 0, 8) # Magic THEN Reject("bad_magic")
           ELSE [ok |-> TRUE, class |-> IF Len(b) = HeaderLen THEN "ok" ELSE "ok_padded",
                 kind |-> "connect", f |-> [tid |-> At(b, 12, 4)]]
      [] action = BE32(ActAnnounce) ->
           IF Len(b) < AnnounceLen THEN Reject("too_few")
           ELSE IF ~IsEventCode(At(b, 80, 4)) THEN Reject("bad_event")
           ELSE IF At(b, 96, 2) = <<0, 0>> THEN Reject("port_zero")
           ELSE [ok |-> TRUE, class |-> "ok", kind |-> "announce",
                 f |-> [cid |-> At(b, 0, 8), tid |-> At(b, 12, 4), hash |-> At(b, 16, 20),
                        pid |-> At(b, 36, 20), down |-> At(b, 56, 8), left |-> At(b, 64, 8),
                        up |-> At(b, 72, 8), event |-> DecEvent(At(b, 80, 4)),
                        ip |-> At(b, 84, 4), key |-> At(b, 88, 4), numwant |-> At(b, 92, 4),
                        port |-> At(b, 96, 2)]]
      [] action = BE32(ActScrape) ->
           LET pay == Len(b) - HeaderLen IN
           IF pay = 0 THEN Reject("no_hashes")
           ELSE IF pay % 20 # 0 THEN Reject("not_multiple")
           ELSE LET n == Min(maxScrape, pay \div 20) IN
                [ok |-> TRUE, class |-> "ok", kind |-> "scrape",
                 f |-> [cid |-> At(b, 0, 8), tid |-> At(b, 12, 4),
                        hashes |-> [i \in 1..n |-> At(b, HeaderLen + 20 * (i - 1), 20)]]]
      [] OTHER -> Reject("bad_action")

(***************************************************************************)
(* Replies                                                                 *)
(***************************************************************************)
EncConnectResp(r) == BE32(ActConnect) \o r.tid \o r.cid

(* a peer is <<ip, port>>: ip of 4 (fam = 4) or 16 (fam = 6) bytes, port of 2 *)
IpLen(fam) == IF fam = 4 THEN 4 ELSE 16
EncPeer(p) == p[1] \o p[2]
EncAnnounceResp(fam, r) ==
    BE32(ActAnnounce) \o r.tid \o r.interval \o r.leechers \o r.seeders
    \o Flatten([i \in 1..Len(r.peers) |-> EncPeer(r.peers[i])])

(* a statistics entry is <<seeders, completed, leechers>>, 4 bytes each *)
EncStats(s) == s[1] \o s[2] \o s[3]
EncScrapeResp(r) ==
    BE32(ActScrape) \o r.tid \o Flatten([i \in 1..Len(r.stats) |-> EncStats(r.stats[i])])

EncError(r) == BE32(ActError) \o r.tid \o r.msg

EncResponse(kind, fam, r) ==
    CASE kind = "connect"  -> EncConnectResp(r)
      [] kind = "announce" -> EncAnnounceResp(fam, r)
      [] kind = "scrape"   -> EncScrapeResp(r)
      [] kind = "error"    -> EncError(r)

(* The reply layouts read back (a client's view).  Only used on conforming *)
(* replies: the property does not say how a client treats malformed ones.  *)
ParseResponse(b, fam) ==
    IF Len(b) < 8 THEN Reject("too_few")
    ELSE LET action == At(b, 0, 4) IN
    CASE action = BE32(ActConnect) ->
           IF Len(b) # 16 THEN Reject("bad_length")
           ELSE [ok |-> TRUE, class |-> "ok", kind |-> "connect",
                 f |-> [tid |-> At(b, 4, 4), cid |-> At(b, 8, 8)]]
      [] action = BE32(ActAnnounce) ->
           LET pl == IpLen(fam) + 2 IN
           IF Len(b) < 20 \/ (Len(b) - 20) % pl # 0 THEN Reject("bad_length")
           ELSE [ok |-> TRUE, class |-> "ok", kind |-> "announce",
                 f |-> [tid |-> At(b, 4, 4), interval |-> At(b, 8, 4), leechers |-> At(b, 12, 4),
                        seeders |-> At(b, 16, 4),
                        peers |-> [i \in 1..((Len(b) - 20) \div pl) |->
                                     <<At(b, 20 + pl * (i - 1), IpLen(fam)),
                                       At(b, 20 + pl * (i - 1) + IpLen(fam), 2)>>]]]
      [] action = BE32(ActScrape) ->
           IF (Len(b) - 8) % 12 # 0 THEN Reject("bad_length")
           ELSE [ok |-> TRUE, class |-> "ok", kind |-> "scrape",
                 f |-> [tid |-> At(b, 4, 4),
                        stats |-> [i \in 1..((Len(b) - 8) \div 12) |->
                                     <<At(b, 8 + 12 * (i - 1), 4), At(b, 12 + 12 * (i - 1), 4),
                                       At(b, 16 + 12 * (i - 1), 4)>>]]]
      [] action = BE32(ActError) ->
           [ok |-> TRUE, class |-> "ok", kind |-> "error",
            f |-> [tid |-> At(b, 4, 4), msg |-> At(b, 8, Len(b) - 8)]]
      [] OTHER -> Reject("bad_action")
=============================================================================
