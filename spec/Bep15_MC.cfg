SPECIFICATION Spec
INVARIANT Law
INVARIANT EventTableLaw
CHECK_DEADLOCK FALSE
