----------------------------- MODULE AccessList -----------------------------
(***************************************************************************)
(* Access list of the three trackers (crates/common/src/access_list.rs and *)
(* its users): the gate the socket workers apply to announces, the removal *)
(* of forbidden torrents by cleaning passes, and reloads of the list file. *)
(*                                                                         *)
(*   file    contents of the list file: [kind |-> "good", hashes |-> S],   *)
(*           [kind |-> "bad", hashes |-> S, at |-> position of the bad     *)
(*           line], or [kind |-> "missing"]                                *)
(*   list    the list in force (ArcSwap<AccessList>)                       *)
(*   stored  hashes that have stored peers                                 *)
(*   op      last operation and its observable result                      *)
(*                                                                         *)
(* Reload = AccessListQuery::update: parse the whole file, and only then   *)
(* swap; any failure leaves the list untouched.  With mode "off" the file  *)
(* is never read and update_access_list reports success.                   *)
(***************************************************************************)
EXTENDS Naturals, FiniteSets, Sequences

CONSTANTS Hashes, Mode, Files

VARIABLES file, list, stored, op
vars == <<file, list, stored, op>>

Allows(l, h) ==
    CASE Mode = "off" -> TRUE
      [] Mode = "allow" -> h \in l
      [] Mode = "deny" -> h \notin l

Init ==
    /\ file = [kind |-> "missing"]
    /\ list = {}
    /\ stored = {}
    /\ op = [name |-> "init"]

WriteFile(f) ==
    /\ file' = f
    /\ op' = [name |-> "write", file |-> f]
    /\ UNCHANGED <<list, stored>>

Reload ==
    /\ IF Mode = "off"
       THEN list' = list /\ op' = [name |-> "reload", file |-> file, ok |-> TRUE]
       ELSE IF file.kind = "good"
            THEN list' = file.hashes /\ op' = [name |-> "reload", file |-> file, ok |-> TRUE]
            ELSE list' = list /\ op' = [name |-> "reload", file |-> file, ok |-> FALSE]
    /\ UNCHANGED <<file, stored>>

(* the gate + the storage step behind it *)
Announce(h) ==
    /\ IF Allows(list, h)
       THEN stored' = stored \cup {h} /\ op' = [name |-> "announce", h |-> h, allowed |-> TRUE]
       ELSE stored' = stored /\ op' = [name |-> "announce", h |-> h, allowed |-> FALSE]
    /\ UNCHANGED <<file, list>>

Clean ==
    /\ stored' = {h \in stored : Allows(list, h)}
    /\ op' = [name |-> "clean", removed |-> stored \ stored']
    /\ UNCHANGED <<file, list>>

Next ==
    \/ \E f \in Files : WriteFile(f)
    \/ Reload
    \/ \E h \in Hashes : Announce(h)
    \/ Clean

Spec == Init /\ [][Next]_vars

----------------------------------------------------------------------------
(* C11 *)

(* only permitted hashes gain state; a rejected announce changes nothing *)
GateSound ==
    [][op'.name = "announce" =>
         /\ op'.allowed = Allows(list, op'.h)
         /\ ~op'.allowed => stored' = stored]_vars

(* a failed reload leaves every decision as it was; a good one follows the file *)
ReloadAtomic ==
    [][op'.name = "reload" =>
         /\ (Mode # "off" /\ file.kind = "good") => (op'.ok /\ list' = file.hashes)
         /\ (Mode # "off" /\ file.kind # "good") => (~op'.ok /\ list' = list)
         /\ \A h \in Hashes : ~op'.ok => (Allows(list', h) = Allows(list, h))]_vars

(* cleaning removes exactly the stored torrents the list in force forbids *)
CleanEnforces ==
    [][op'.name = "clean" =>
         /\ \A h \in stored' : Allows(list, h)
         /\ \A h \in stored : Allows(list, h) => h \in stored']_vars

ModeOff == [][(Mode = "off" /\ op'.name = "announce") => op'.allowed]_vars
=============================================================================
