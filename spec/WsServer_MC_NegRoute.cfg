SPECIFICATION Spec
CONSTANTS
  Conns <- MCConns
  SwarmWorkers = {1, 2}
  Hashes = {1, 2}
  Pids = {1, 2}
  RouteByConsumer = FALSE
  MaxOps = 3
  QuiescentClose = TRUE
INVARIANTS DeliveredOnlyToAddressee ClosedLeavesNothing
CHECK_DEADLOCK FALSE
