\* offers and answers among three peers, one offer id (quick)
SPECIFICATION Spec
CONSTANTS
  Conns <- MCConns
  Hashes = {1}
  Pids = {1, 2, 3}
  OfferIds = {1}
  Times = {0}
  CleanTimes = {1}
  MaxPeerAge = 2
  MaxOfferAge = 1
  MaxOffers = 2
  MaxScrape = 2
  OfferLists <- C09QOfferLists
  ScrapeLists <- MCScrapeLists
  Events = {"started", "stopped"}
  Lefts = {2}
  Fixed = TRUE
VIEW View
INVARIANTS TypeOK ClosedLeavesNothing AnnConsistent PendingFaithful
PROPERTIES RefinesReference Ownership
CHECK_DEADLOCK FALSE
