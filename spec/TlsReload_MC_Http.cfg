SPECIFICATION Spec
CONSTANTS
  Certs = {1, 2}
  Conns = {1, 2}
  Grace = 2
  MaxTime = 3
  GraceClose = FALSE
  SkipIdentical = FALSE
INVARIANT TypeOK
INVARIANT ConnOnKnownConfig
INVARIANT DeadlineOnlyForStale
INVARIANT HttpNeverClosesForTls
PROPERTY ReloadIsAtomic
CONSTRAINT GenBound
CHECK_DEADLOCK FALSE
