------------------------ MODULE UdpLoadClient_Trace ------------------------
(* Validates what a scripted tracker observed of the real load tester        *)
(* (lib/ext_loadtest.py) against the client role of UdpLoadClient AS THE CODE *)
(* IS (GuardIndex = FALSE): every announce / scrape presents a connection id  *)
(* the tracker issued, and the worker is still sending at the end of the run  *)
(* exactly when no reply to an acquire request was left over for the running  *)
(* phase (on loopback every delivered copy arrives).  That the model with     *)
(* GuardIndex = FALSE violates NeverCrashes is TLC's verdict on               *)
(* UdpLoadClient_MC_AsIs.cfg; this module shows that the code is that model.  *)
EXTENDS Naturals, Sequences, FiniteSets, TLC, Json, IOUtils

Rec == ndJsonDeserialize(IOEnv.TRACE)

VARIABLES l, issued, acq, slots
vars == <<l, issued, acq, slots>>

Init == l = 1 /\ issued = {} /\ acq = 0 /\ slots = 0 /\ TLCSet(1, 1)
E == Rec[l]
IsEvent(name) == l <= Len(Rec) /\ Rec[l].ev = name /\ l' = l + 1

Reset == IsEvent("reset") /\ issued' = {} /\ acq' = 0 /\ slots' = E.slots
(* acq: copies of replies to acquire requests handed to the network so far *)
Connect == /\ IsEvent("connect") /\ issued' = issued \cup {E.cid}
           /\ acq' = IF E.acquire THEN acq + E.copies ELSE acq
           /\ UNCHANGED slots
Request == IsEvent("request") /\ E.cid \in issued /\ UNCHANGED <<issued, acq, slots>>      \* UsesIssuedIds
(* the acquire phase consumes `slots` replies; any further copy arrives while running *)
End == IsEvent("end") /\ E.worker_alive = (acq <= slots) /\ UNCHANGED <<issued, acq, slots>>

Next == Reset \/ Connect \/ Request \/ End
Spec == Init /\ [][Next]_vars

Remember == TLCSet(1, IF l > TLCGet(1) THEN l ELSE TLCGet(1))
Accepted ==
    LET hw == TLCGet(1) IN
    IF hw = Len(Rec) + 1 THEN TRUE
    ELSE /\ PrintT(<<"TRACE_REJECTED", hw, ToJson(Rec[hw])>>)
         /\ FALSE
=============================================================================
