SPECIFICATION GSpec
CONSTANTS
  Threads <- MCThreads
  Catalogue <- MCCatalogue
  GuardEnabled = TRUE
  NoThread = 0
INVARIANT Emit
CHECK_DEADLOCK FALSE
