SPECIFICATION Spec
CONSTANTS
  Conns <- GenConns
  Hashes = {1}
  Pids = {1, 2}
  OfferIds = {1}
  Times = {0}
  CleanTimes = {0, 1, 2}
  MaxPeerAge = 2
  MaxOfferAge = 1
  MaxOffers = 1
  MaxScrape = 2
  OfferLists <- GenOfferLists
  ScrapeLists <- MCScrapeLists
  Events = {"started", "stopped"}
  Lefts = {0, 2}
  Fixed = TRUE
VIEW View
ACTION_CONSTRAINT EmitEdge
CHECK_DEADLOCK FALSE
