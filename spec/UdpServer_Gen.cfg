SPECIFICATION Spec
CONSTANTS
  Sources <- MCSources
  Hashes = {1, 2}
  Ports = {1}
  MaxScrape = 1
  Forbidden = {2}
VIEW SView
INVARIANT EmitTable
CONSTRAINT NoSteps
CHECK_DEADLOCK FALSE
