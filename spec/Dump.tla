------------------------------- MODULE Dump -------------------------------
(* The state dump logged by the executors (harness dump_json):             *)
(*   <<fam, h, kind, nseed, strong, << <<key, seeder, deadline, pid, ...>>, ... >> >> *)
(* abstracted to a reference store, plus its well-formedness.              *)
EXTENDS Naturals, Sequences, FiniteSets

DumpLive(d) == {i \in 1..Len(d) : Len(d[i][6]) > 0}
DumpTorrent(d, i) == <<d[i][1], d[i][2]>>

DumpWellFormed(d) ==
    /\ \A i, j \in 1..Len(d) : DumpTorrent(d, i) = DumpTorrent(d, j) => i = j
    /\ \A i \in 1..Len(d) :
         \A a, b \in 1..Len(d[i][6]) : d[i][6][a][1] = d[i][6][b][1] => a = b

DumpAbs(d) ==
    [t \in {DumpTorrent(d, i) : i \in DumpLive(d)} |->
        LET i == CHOOSE i \in DumpLive(d) : DumpTorrent(d, i) = t
            ps == d[i][6]
        IN [k \in {ps[j][1] : j \in 1..Len(ps)} |->
              LET j == CHOOSE j \in 1..Len(ps) : ps[j][1] = k
              IN [seeder |-> ps[j][2], deadline |-> ps[j][3], pid |-> ps[j][4]]]]

(* torrents present in the dump, including empty ones *)
DumpTorrents(d) == {DumpTorrent(d, i) : i \in 1..Len(d)}
=============================================================================
