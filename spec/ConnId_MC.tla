------------------------------ MODULE ConnId_MC ------------------------------
EXTENDS ConnId, TLC, Json

MCIps == {<<"v4", 1>>, <<"map", 1>>, <<"v6", 1>>}
MCClocks == {BigOf(0), BigOf(1), BigOf(2), BigOf(61), BigOf(62), BigOf(63)}
MCMaxAge0 == BigOf(0)
MCMaxAge1 == BigOf(1)
MCMaxAge2 == BigOf(2)

----------------------------------------------------------------------------
(* Boundary grid for conformance: every (max age, issue time, check time)   *)
(* around both comparisons, including where a u32 addition would wrap.      *)
U32Max == Big(4095, 1048575)                  \* 2^32 - 1
Ages == {BigOf(0), BigOf(1), BigOf(2), BigOf(120), U32Max}
Minus(a, n) == IF a[2] >= n THEN <<a[1], a[2] - n>> ELSE <<a[1] - 1, a[2] + B - n>>   \* n < B
IsU32(a) == a[1] >= 0 /\ BLeq(a, U32Max) /\ a[2] >= 0
IssueTimes == {BigOf(0), BigOf(1), BigOf(59), BigOf(60), BigOf(61), BigOf(1000), Big(2048, 0),
               Minus(U32Max, 62), Minus(U32Max, 1), U32Max}
Around(t, age) ==
    {x \in {BigOf(0), Minus(t, 62), Minus(t, 61), Minus(t, 60), Minus(t, 59), Minus(t, 1), t, BAdd(t, BigOf(1)),
            Minus(BAdd(t, age), 1), BAdd(t, age), BAdd(BAdd(t, age), BigOf(1)), U32Max} : IsU32(x)}

Cases ==
    UNION {UNION {{[age |-> a, t |-> t, c |-> c, ok |-> TimeOK(t, c, a)] : c \in Around(t, a)}
                  : t \in IssueTimes} : a \in Ages}

StopAtInit == op.name = "init" /\ FALSE

EmitCases ==
    \A x \in Cases : PrintT(<<"CASE", ToJson(x)>>)

=============================================================================
