---------------------------- MODULE Expiry_Trace ----------------------------
(***************************************************************************)
(* Expiry as seen from outside a RUNNING tracker (property C10, the part   *)
(* the API-level histories cannot reach: the workers' own time sampling -  *)
(* deadline = the handling worker's current whole-second sample + max age  *)
(* - and the cleaning timers).                                             *)
(*                                                                         *)
(* The driver announces peers (one torrent per peer), re-announces some,   *)
(* and observes which torrents still have a peer; every event carries the  *)
(* driver's own monotonic clock in milliseconds just before the request    *)
(* was sent (lo) and just after the reply arrived (hi).                    *)
(*                                                                         *)
(* With a = the instant the tracker handled the last announce (lo..hi),    *)
(* the deadline is floor(sample) + MaxAge with sample in (a - Stale, a],   *)
(* Stale being the age the worker's cached sample may have (HTTP refreshes *)
(* it every second; all whole-second truncations cost another second), and *)
(* the entry goes at the first cleaning pass at or after the deadline      *)
(* (passes every CleanEvery):                                              *)
(*   observed before  lo + MaxAge - Early   -> must be present             *)
(*   observed after   hi + MaxAge + Late    -> must be absent              *)
(*   in between                             -> either (no verdict)         *)
(***************************************************************************)
EXTENDS Naturals, Integers, Sequences, FiniteSets, TLC, Json, IOUtils

Rec == ndJsonDeserialize(IOEnv.TRACE)

VARIABLES l, last, cfg
vars == <<l, last, cfg>>

Init == l = 1 /\ last = <<>> /\ cfg = [max_age_ms |-> 0, early_ms |-> 0, late_ms |-> 0] /\ TLCSet(1, 1)
E == Rec[l]
IsEvent(name) == l <= Len(Rec) /\ Rec[l].ev = name /\ l' = l + 1
FnPut(f, k, v) == [x \in DOMAIN f \cup {k} |-> IF x = k THEN v ELSE f[x]]
Rng(s) == {s[i] : i \in 1..Len(s)}

Reset ==
    /\ IsEvent("reset")
    /\ last' = <<>>
    /\ cfg' = [max_age_ms |-> E.max_age_ms, early_ms |-> E.early_ms, late_ms |-> E.late_ms]

(* an announce that was answered: the peer is stored with a fresh deadline *)
Announce ==
    /\ IsEvent("announce")
    /\ E.answered
    /\ last' = FnPut(last, E.peer, [lo |-> E.lo, hi |-> E.hi])
    /\ UNCHANGED cfg

MustBePresent(p, obs) == obs.hi < last[p].lo + cfg.max_age_ms - cfg.early_ms
MustBeAbsent(p, obs)  == obs.lo > last[p].hi + cfg.max_age_ms + cfg.late_ms

Observe ==
    /\ IsEvent("obs")
    /\ \A p \in Rng(E.present) : p \in DOMAIN last                   \* nothing that was never announced
    /\ \A p \in DOMAIN last :
         /\ MustBePresent(p, E) => p \in Rng(E.present)               \* not removed before its deadline
         /\ MustBeAbsent(p, E) => p \notin Rng(E.present)             \* gone after the first pass at / after it
    /\ UNCHANGED <<last, cfg>>

Next == Reset \/ Announce \/ Observe
Spec == Init /\ [][Next]_vars

Remember == TLCSet(1, IF l > TLCGet(1) THEN l ELSE TLCGet(1))
Accepted ==
    LET hw == TLCGet(1) IN
    IF hw = Len(Rec) + 1 THEN TRUE
    ELSE /\ PrintT(<<"TRACE_REJECTED", hw, ToJson(Rec[hw])>>)
         /\ FALSE
=============================================================================
