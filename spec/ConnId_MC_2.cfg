SPECIFICATION Spec
CONSTANTS
  Ips <- MCIps
  Clocks <- MCClocks
  MaxAge <- MCMaxAge2
VIEW View
PROPERTIES AcceptIff ForeignRejected ForgedRejected MappedIsV4
CHECK_DEADLOCK FALSE
