SPECIFICATION Spec
CONSTANTS
  Hashes = {1, 2}
  Mode = "off"
  Files <- MCFiles
PROPERTIES GateSound ReloadAtomic CleanEnforces ModeOff
CHECK_DEADLOCK FALSE
