--------------------------- MODULE HttpRef_Trace ---------------------------
(***************************************************************************)
(* Trace validation of the real HTTP swarm-worker storage against the      *)
(* reference tracker (deciding pass).  One line per public call of         *)
(* aquatic_http ... storage::TorrentMaps, logged by harness http_exec.     *)
(***************************************************************************)
EXTENDS RefTracker, Dump, Json, IOUtils

Rec == ndJsonDeserialize(IOEnv.TRACE)

VARIABLES l, store, cfg, list
vars == <<l, store, cfg, list>>

Init ==
    /\ l = 1
    /\ store = <<>>
    /\ cfg = [max_peers |-> 0, max_scrape |-> 0, mode |-> "off"]
    /\ list = {}

E == Rec[l]
IsEvent(name) == l <= Len(Rec) /\ Rec[l].ev = name /\ l' = l + 1

Allows(h) ==
    CASE cfg.mode = "off" -> TRUE
      [] cfg.mode = "allow" -> h \in list
      [] cfg.mode = "deny" -> h \notin list

Reset ==
    /\ IsEvent("reset")
    /\ store' = <<>>
    /\ cfg' = E
    /\ list' = {}

FirstN(s, n) == SubSeq(s, 1, IF Len(s) <= n THEN Len(s) ELSE n)

Announce ==
    /\ IsEvent("announce")
    /\ ("gated" \in DOMAIN E /\ E.gated) => Allows(E.t[2])
    /\ LET t      == <<E.t[1], E.t[2]>>
           status == Status(E.event, E.left)
           entry  == [seeder |-> status = "seeding", deadline |-> E.deadline, pid |-> 0]
           cnt    == AnnounceCountsExcl(store, t, E.key)
           limit  == Limit(E.numwant, cfg.max_peers)
           mine   == IF t[1] = 4 THEN E.reply.peers4 ELSE E.reply.peers6
           other  == IF t[1] = 4 THEN E.reply.peers6 ELSE E.reply.peers4
       IN /\ E.reply.seeders = cnt.seeders
          /\ E.reply.leechers = cnt.leechers
          /\ other = <<>>                       \* same address family only
          /\ PeerListOK(mine, Candidates(store, t, E.key), limit, 1)
          /\ store' = AnnounceStore(store, t, E.key, status, entry)
    /\ UNCHANGED <<cfg, list>>

(* each of the first max_scrape requested torrents exactly once, zeros for *)
(* unknown ones                                                            *)
Scrape ==
    /\ IsEvent("scrape")
    /\ LET want == SeqRange(FirstN(E.hs, cfg.max_scrape))
       IN /\ {E.reply[i][1] : i \in 1..Len(E.reply)} = want
          /\ Len(E.reply) = Cardinality(want)
          /\ \A i \in 1..Len(E.reply) :
               LET c == ScrapeCounts(store, <<E.fam, E.reply[i][1]>>)
               IN E.reply[i][2] = c.seeders /\ E.reply[i][3] = c.leechers
    /\ UNCHANGED <<store, cfg, list>>

Clean ==
    /\ IsEvent("clean")
    /\ store' = CleanStore(store, E.now, LAMBDA t : ~Allows(t[2]))
    \* empty and forbidden torrents are dropped by the cleaning pass
    /\ ("dump" \in DOMAIN E) => DumpTorrents(E.dump) = DOMAIN store'
    /\ UNCHANGED <<cfg, list>>

(* update_access_list: with mode off the file is not read and success is reported *)
Reload ==
    /\ IsEvent("reload")
    /\ IF cfg.mode = "off" THEN E.ok /\ list' = list
       ELSE IF E.file.kind = "good"
       THEN E.ok /\ list' = SeqRange(E.file.hashes)
       ELSE ~E.ok /\ list' = list
    /\ UNCHANGED <<store, cfg>>

(* an announce the gate refused: only for forbidden hashes, and nothing changes *)
AnnounceRejected ==
    /\ IsEvent("announce_rejected")
    /\ ~Allows(E.t[2])
    /\ UNCHANGED <<store, cfg, list>>

Allowed ==
    /\ IsEvent("allowed")
    /\ E.ok = Allows(E.h)
    /\ UNCHANGED <<store, cfg, list>>

DumpOK ==
    ("dump" \in DOMAIN E) => /\ DumpWellFormed(E.dump)
                              /\ DumpAbs(E.dump) = store'

Next == (Reset \/ Announce \/ Scrape \/ Clean \/ Reload \/ Allowed \/ AnnounceRejected) /\ DumpOK

Spec == Init /\ [][Next]_vars

Remember == TLCSet(1, [l |-> l, store |-> store, list |-> list])

Accepted ==
    LET d == TLCGet("stats").diameter IN
    IF d - 1 = Len(Rec) THEN TRUE
    ELSE /\ PrintT(<<"TRACE_REJECTED", d, ToJson(Rec[d])>>)
         /\ PrintT(<<"LAST_STATE", ToJson(TLCGet(1))>>)
         /\ FALSE
=============================================================================
