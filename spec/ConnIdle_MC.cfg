SPECIFICATION Spec
CONSTANTS
  Conns = {c1, c2}
  MaxIdle = 2
  Interval = 1
  MaxTime = 7
INVARIANTS NeverClosedWhileActive IdleClosedInTime
CHECK_DEADLOCK FALSE
