---------------------------- MODULE UdpServer_MC ----------------------------
EXTENDS UdpServer, TLC, Json
MCSources == {[class |-> "v4", host |-> 1], [class |-> "v4mapped", host |-> 1], [class |-> "v6", host |-> 1],
              [class |-> "v4", host |-> 2]}
(* the decision table, printed for conformance *)
Table == {[class |-> c, conn |-> k, sport0 |-> z, allowed |-> a, reply |-> Expect(c, k, z, a)] :
            c \in Classes, k \in ConnKinds, z \in BOOLEAN, a \in BOOLEAN}
SView == store
NoSteps == FALSE
EmitTable == \A x \in Table : PrintT(<<"CASE", ToJson(x)>>)
=============================================================================
