---------------------------- MODULE UdpSwarm_Gen ----------------------------
(* Behaviour generation: every transition of the (small) model is printed   *)
(* as a self-describing edge; lib/graphwalk.py turns the edge list into an  *)
(* edge-covering set of operation sequences for the real code.              *)
EXTENDS UdpSwarm, Json

GenScrapeLists == {<<h>> : h \in Hashes} \cup {<<h1, h2>> : h1 \in Hashes, h2 \in Hashes}
GenNumWants == {-1, 1}

(* canonical, record-free state identifier (ToString of records is not canonical) *)
Id(m, b) ==
    <<[t \in DOMAIN m |->
        <<m[t].kind, m[t].nseed,
          [i \in 1..Len(m[t].seq) |->
             <<m[t].seq[i].key, m[t].seq[i].seeder, m[t].seq[i].deadline, m[t].seq[i].pid>>]>>], b>>

EmitEdge ==
    PrintT(<<"EDGE", ToString(Id(tm, tally)), ToJson(op'), ToString(Id(tm', tally'))>>)
=============================================================================
