------------------------------ MODULE WsCodec ------------------------------
(***************************************************************************)
(* Reference codec of the WebTorrent tracker protocol (property C15).      *)
(*                                                                         *)
(*  (i)   the identifier rule over sequences of Unicode code points;       *)
(*  (i')  UTF-8 well-formedness of a frame payload (a binary frame that is *)
(*        not UTF-8 carries no JSON text);                                 *)
(*  (ii)  JSON values as trees, messages as records, the reference         *)
(*        decoders DecodeIn / DecodeOut and encoders EncodeIn / EncodeOut; *)
(*  (iii) message shapes (kind x optional field present / absent / null x  *)
(*        event x left x info-hash form) and the identifier decision table *)
(*        as trees, for model checking and for case generation.            *)
(*                                                                         *)
(* Conventions.  A string is the sequence of its code points.  A number is *)
(* its decimal text (TLC integers are 32 bit, `left` is 64 bit).  An       *)
(* optional value is <<>> (none) or <<x>>.  A decoder returns Fail = <<>>  *)
(* or Ok(x) = <<x>>.                                                       *)
(***************************************************************************)
EXTENDS Naturals, Sequences, FiniteSets

CONSTANT Concrete   \* TRUE: leaves are concrete values; FALSE: leaves are
                    \* placeholders that the orchestration replaces

---------------------------------------------------------------------------
(* (i) identifiers *)

IdAccept(s) == Len(s) = 20 /\ \A i \in 1..Len(s) : s[i] <= 255
IdBytes(s) == s
IdEncode(b) == b
IsBytes20(b) == Len(b) = 20 /\ \A i \in 1..20 : b[i] \in 0..255

---------------------------------------------------------------------------
(* (i') UTF-8 (Unicode, table 3-7 "well-formed UTF-8 byte sequences") *)

Cont(b) == b \in 128..191

RECURSIVE Utf8From(_, _)
Utf8From(bs, i) ==
    IF i > Len(bs) THEN TRUE
    ELSE LET b == bs[i]
             at(j) == IF j <= Len(bs) THEN bs[j] ELSE 0   \* 0 is no continuation byte
         IN CASE b <= 127 -> Utf8From(bs, i + 1)
              [] b \in 194..223 -> Cont(at(i + 1)) /\ Utf8From(bs, i + 2)
              [] b = 224 -> at(i + 1) \in 160..191 /\ Cont(at(i + 2)) /\ Utf8From(bs, i + 3)
              [] b \in (225..236) \cup (238..239) ->
                    Cont(at(i + 1)) /\ Cont(at(i + 2)) /\ Utf8From(bs, i + 3)
              [] b = 237 -> at(i + 1) \in 128..159 /\ Cont(at(i + 2)) /\ Utf8From(bs, i + 3)
              [] b = 240 -> at(i + 1) \in 144..191 /\ Cont(at(i + 2)) /\ Cont(at(i + 3))
                            /\ Utf8From(bs, i + 4)
              [] b \in 241..243 -> Cont(at(i + 1)) /\ Cont(at(i + 2)) /\ Cont(at(i + 3))
                                   /\ Utf8From(bs, i + 4)
              [] b = 244 -> at(i + 1) \in 128..143 /\ Cont(at(i + 2)) /\ Cont(at(i + 3))
                            /\ Utf8From(bs, i + 4)
              [] OTHER -> FALSE
Utf8Valid(bs) == Utf8From(bs, 1)

IsScalar(c) == c \in 0..1114111 /\ c \notin 55296..57343

Utf8Enc1(c) ==
    IF c < 128 THEN <<c>>
    ELSE IF c < 2048 THEN <<192 + (c \div 64), 128 + (c % 64)>>
    ELSE IF c < 65536 THEN <<224 + (c \div 4096), 128 + ((c \div 64) % 64), 128 + (c % 64)>>
    ELSE <<240 + (c \div 262144), 128 + ((c \div 4096) % 64), 128 + ((c \div 64) % 64), 128 + (c % 64)>>

RECURSIVE Utf8Enc(_)
Utf8Enc(s) == IF s = <<>> THEN <<>> ELSE Utf8Enc1(Head(s)) \o Utf8Enc(Tail(s))

---------------------------------------------------------------------------
(* (ii) JSON trees.  Node types: "s" string (v = code points), "z" null,   *)
(* "n" number (v = decimal text), "a" array (v = nodes), "o" object        *)
(* (v = <<key, node>> pairs, key a plain string), "m" object whose keys    *)
(* are arbitrary strings (v = <<code points, node>> pairs; only the        *)
(* `files` table of a scrape response).                                    *)

Node(t, v) == [t |-> t, v |-> v]
JStr(c) == Node("s", c)
JNull == Node("z", <<>>)
JNum(d) == Node("n", d)
JArr(xs) == Node("a", xs)
JObj(ps) == Node("o", ps)
JMap(ps) == Node("m", ps)
Absent == Node("absent", <<>>)

Has(o, k) == \E i \in 1..Len(o.v) : o.v[i][1] = k
Get(o, k) == IF Has(o, k) THEN o.v[CHOOSE i \in 1..Len(o.v) : o.v[i][1] = k][2] ELSE Absent

(* protocol words as code points *)
W_ANNOUNCE == <<97, 110, 110, 111, 117, 110, 99, 101>>
W_SCRAPE == <<115, 99, 114, 97, 112, 101>>
W_OFFER == <<111, 102, 102, 101, 114>>
W_ANSWER == <<97, 110, 115, 119, 101, 114>>
EventNames == {"started", "stopped", "completed", "update"}
EventCps(e) ==
    CASE e = "started" -> <<115, 116, 97, 114, 116, 101, 100>>
      [] e = "stopped" -> <<115, 116, 111, 112, 112, 101, 100>>
      [] e = "completed" -> <<99, 111, 109, 112, 108, 101, 116, 101, 100>>
      [] e = "update" -> <<117, 112, 100, 97, 116, 101>>
ActionNames == {"announce", "scrape"}
ActionCps(a) == IF a = "announce" THEN W_ANNOUNCE ELSE W_SCRAPE

---------------------------------------------------------------------------
(* decoders *)

Fail == <<>>
Ok(x) == <<x>>
None == <<>>
Some(x) == <<x>>

DId(n) == IF n.t = "s" /\ IdAccept(n.v) THEN Ok(IdBytes(n.v)) ELSE Fail
DStr(n) == IF n.t = "s" THEN Ok(n.v) ELSE Fail
DNum(n) == IF n.t = "n" THEN Ok(n.v) ELSE Fail
IsWord(n, w) == n.t = "s" /\ n.v = w
DOpt(n, D(_)) ==
    IF n.t \in {"absent", "z"} THEN Ok(None)
    ELSE LET r == D(n) IN IF r = Fail THEN Fail ELSE Ok(Some(r[1]))
DSeq(n, D(_)) ==
    IF n.t # "a" THEN Fail
    ELSE LET rs == [i \in 1..Len(n.v) |-> D(n.v[i])]
         IN IF \E i \in 1..Len(n.v) : rs[i] = Fail THEN Fail
            ELSE Ok([i \in 1..Len(n.v) |-> rs[i][1]])
DEvent(n) ==
    IF n.t = "s" /\ \E e \in EventNames : EventCps(e) = n.v
    THEN Ok(CHOOSE e \in EventNames : EventCps(e) = n.v) ELSE Fail
DAction(n) ==
    IF n.t = "s" /\ \E a \in ActionNames : ActionCps(a) = n.v
    THEN Ok(CHOOSE a \in ActionNames : ActionCps(a) = n.v) ELSE Fail
DRtc(n, w) ==
    IF n.t = "o" /\ IsWord(Get(n, "type"), w) /\ Get(n, "sdp").t = "s"
    THEN Ok(Get(n, "sdp").v) ELSE Fail
DRtcOffer(n) == DRtc(n, W_OFFER)
DRtcAnswer(n) == DRtc(n, W_ANSWER)
DOfferElem(n) ==
    IF n.t # "o" THEN Fail
    ELSE LET s == DRtcOffer(Get(n, "offer"))
             i == DId(Get(n, "offer_id"))
         IN IF s = Fail \/ i = Fail THEN Fail ELSE Ok([oid |-> i[1], sdp |-> s[1]])
DOffers(n) == DSeq(n, DOfferElem)

(* incoming *)
DAnnounce(o) ==
    IF o.t # "o" \/ ~IsWord(Get(o, "action"), W_ANNOUNCE) THEN Fail
    ELSE LET ih == DId(Get(o, "info_hash"))
             pid == DId(Get(o, "peer_id"))
             left == DOpt(Get(o, "left"), DNum)
             event == DOpt(Get(o, "event"), DEvent)
             offers == DOpt(Get(o, "offers"), DOffers)
             numwant == DOpt(Get(o, "numwant"), DNum)
             answer == DOpt(Get(o, "answer"), DRtcAnswer)
             to == DOpt(Get(o, "to_peer_id"), DId)
             aoid == DOpt(Get(o, "offer_id"), DId)
         IN IF \/ ih = Fail \/ pid = Fail \/ left = Fail \/ event = Fail \/ offers = Fail
               \/ numwant = Fail \/ answer = Fail \/ to = Fail \/ aoid = Fail
            THEN Fail
            ELSE Ok([k |-> "announce", ih |-> ih[1], pid |-> pid[1], left |-> left[1],
                     event |-> event[1], offers |-> offers[1], numwant |-> numwant[1],
                     answer |-> answer[1], to |-> to[1], aoid |-> aoid[1]])

DScrapeHashes(n) ==
    LET one == DId(n)
    IN IF one # Fail THEN Ok([form |-> "single", hs |-> <<one[1]>>])
       ELSE LET many == DSeq(n, DId)
            IN IF many = Fail THEN Fail ELSE Ok([form |-> "multi", hs |-> many[1]])

DScrape(o) ==
    IF o.t # "o" \/ ~IsWord(Get(o, "action"), W_SCRAPE) THEN Fail
    ELSE LET h == DOpt(Get(o, "info_hash"), DScrapeHashes)
         IN IF h = Fail THEN Fail ELSE Ok([k |-> "scrape", ihs |-> h[1]])

InDecoders == <<"announce", "scrape">>
InMatch(o, kind) == IF kind = "announce" THEN DAnnounce(o) ELSE DScrape(o)

(* outgoing *)
DOfferOut(o) ==
    IF o.t # "o" \/ ~IsWord(Get(o, "action"), W_ANNOUNCE) THEN Fail
    ELSE LET pid == DId(Get(o, "peer_id"))
             ih == DId(Get(o, "info_hash"))
             oid == DId(Get(o, "offer_id"))
             sdp == DRtcOffer(Get(o, "offer"))
         IN IF pid = Fail \/ ih = Fail \/ oid = Fail \/ sdp = Fail THEN Fail
            ELSE Ok([k |-> "offer", pid |-> pid[1], ih |-> ih[1], oid |-> oid[1], sdp |-> sdp[1]])
DAnswerOut(o) ==
    IF o.t # "o" \/ ~IsWord(Get(o, "action"), W_ANNOUNCE) THEN Fail
    ELSE LET pid == DId(Get(o, "peer_id"))
             ih == DId(Get(o, "info_hash"))
             oid == DId(Get(o, "offer_id"))
             sdp == DRtcAnswer(Get(o, "answer"))
         IN IF pid = Fail \/ ih = Fail \/ oid = Fail \/ sdp = Fail THEN Fail
            ELSE Ok([k |-> "answer", pid |-> pid[1], ih |-> ih[1], oid |-> oid[1], sdp |-> sdp[1]])
DAnnResp(o) ==
    IF o.t # "o" \/ ~IsWord(Get(o, "action"), W_ANNOUNCE) THEN Fail
    ELSE LET ih == DId(Get(o, "info_hash"))
             c == DNum(Get(o, "complete"))
             i == DNum(Get(o, "incomplete"))
             v == DNum(Get(o, "interval"))
         IN IF ih = Fail \/ c = Fail \/ i = Fail \/ v = Fail THEN Fail
            ELSE Ok([k |-> "ann_resp", ih |-> ih[1], complete |-> c[1], incomplete |-> i[1],
                     interval |-> v[1]])
DFile(p) ==   \* p = <<key code points, statistics object>>
    IF ~IdAccept(p[1]) \/ p[2].t # "o" THEN Fail
    ELSE LET c == DNum(Get(p[2], "complete"))
             i == DNum(Get(p[2], "incomplete"))
             d == DNum(Get(p[2], "downloaded"))
         IN IF c = Fail \/ i = Fail \/ d = Fail THEN Fail
            ELSE Ok([ih |-> IdBytes(p[1]), complete |-> c[1], incomplete |-> i[1],
                     downloaded |-> d[1]])
DScrResp(o) ==
    IF o.t # "o" \/ ~IsWord(Get(o, "action"), W_SCRAPE) \/ Get(o, "files").t # "m" THEN Fail
    ELSE LET f == Get(o, "files").v
             rs == [i \in 1..Len(f) |-> DFile(f[i])]
         IN IF \E i \in 1..Len(f) : rs[i] = Fail THEN Fail
            ELSE Ok([k |-> "scr_resp", files |-> [i \in 1..Len(f) |-> rs[i][1]]])
DError(o) ==
    IF o.t # "o" THEN Fail
    ELSE LET r == DStr(Get(o, "failure reason"))
             a == DOpt(Get(o, "action"), DAction)
             ih == DOpt(Get(o, "info_hash"), DId)
         IN IF r = Fail \/ a = Fail \/ ih = Fail THEN Fail
            ELSE Ok([k |-> "error", reason |-> r[1], eaction |-> a[1], eih |-> ih[1]])

OutDecoders == <<"offer", "answer", "ann_resp", "scr_resp", "error">>
OutMatch(o, kind) ==
    CASE kind = "offer" -> DOfferOut(o)
      [] kind = "answer" -> DAnswerOut(o)
      [] kind = "ann_resp" -> DAnnResp(o)
      [] kind = "scr_resp" -> DScrResp(o)
      [] kind = "error" -> DError(o)

(* a message is what the first matching kind makes of it; Unambiguous     *)
(* states that for the trees of the protocol the order does not matter     *)
Match(dir, o, kind) == IF dir = "in" THEN InMatch(o, kind) ELSE OutMatch(o, kind)
Kinds(dir) == IF dir = "in" THEN InDecoders ELSE OutDecoders
Matching(dir, o) == {i \in 1..Len(Kinds(dir)) : Match(dir, o, Kinds(dir)[i]) # Fail}
Decode(dir, o) ==
    LET ms == Matching(dir, o)
    IN IF ms = {} THEN Fail
       ELSE Match(dir, o, Kinds(dir)[CHOOSE i \in ms : \A j \in ms : i <= j])
Unambiguous(dir, o) == Cardinality(Matching(dir, o)) <= 1

(* results as the executor logs them *)
Res(r) == IF r = Fail THEN <<"err">> ELSE <<"ok", r[1]>>
MsgEq(a, b) ==
    /\ a.k = b.k
    /\ IF a.k = "scr_resp"
       THEN /\ Len(a.files) = Len(b.files)
            /\ {a.files[i] : i \in 1..Len(a.files)} = {b.files[i] : i \in 1..Len(b.files)}
       ELSE a = b
ResEq(x, y) == x[1] = y[1] /\ (x[1] = "ok" => MsgEq(x[2], y[2]))

---------------------------------------------------------------------------
(* reference encoders (an absent option is written as null, except where  *)
(* noted: `event` and the optional fields of an error are left out)        *)

EId(b) == JStr(IdEncode(b))
EOpt(x, E(_)) == IF x = None THEN JNull ELSE E(x[1])
ERtc(w, sdp) == JObj(<<<<"type", JStr(w)>>, <<"sdp", JStr(sdp)>>>>)
ERtcAnswer(sdp) == ERtc(W_ANSWER, sdp)
EOfferElem(e) == JObj(<<<<"offer", ERtc(W_OFFER, e.sdp)>>, <<"offer_id", EId(e.oid)>>>>)
EOffers(os) == JArr([i \in 1..Len(os) |-> EOfferElem(os[i])])
EEvent(e) == JStr(EventCps(e))
EHashes(h) ==
    IF h.form = "single" THEN EId(h.hs[1]) ELSE JArr([i \in 1..Len(h.hs) |-> EId(h.hs[i])])
EFile(f) ==
    <<IdEncode(f.ih), JObj(<<<<"complete", JNum(f.complete)>>, <<"incomplete", JNum(f.incomplete)>>,
                             <<"downloaded", JNum(f.downloaded)>>>>)>>
OptPair(key, x, E(_)) == IF x = None THEN <<>> ELSE <<<<key, E(x[1])>>>>
EAction(a) == JStr(ActionCps(a))

Encode(m) ==
    CASE m.k = "announce" ->
           JObj(<<<<"action", JStr(W_ANNOUNCE)>>, <<"info_hash", EId(m.ih)>>,
                  <<"peer_id", EId(m.pid)>>, <<"left", EOpt(m.left, JNum)>>>>
                \o OptPair("event", m.event, EEvent)
                \o <<<<"offers", EOpt(m.offers, EOffers)>>, <<"numwant", EOpt(m.numwant, JNum)>>,
                     <<"answer", EOpt(m.answer, ERtcAnswer)>>, <<"to_peer_id", EOpt(m.to, EId)>>,
                     <<"offer_id", EOpt(m.aoid, EId)>>>>)
      [] m.k = "scrape" ->
           JObj(<<<<"action", JStr(W_SCRAPE)>>, <<"info_hash", EOpt(m.ihs, EHashes)>>>>)
      [] m.k = "offer" ->
           JObj(<<<<"action", JStr(W_ANNOUNCE)>>, <<"peer_id", EId(m.pid)>>,
                  <<"info_hash", EId(m.ih)>>, <<"offer", ERtc(W_OFFER, m.sdp)>>,
                  <<"offer_id", EId(m.oid)>>>>)
      [] m.k = "answer" ->
           JObj(<<<<"action", JStr(W_ANNOUNCE)>>, <<"peer_id", EId(m.pid)>>,
                  <<"info_hash", EId(m.ih)>>, <<"answer", ERtc(W_ANSWER, m.sdp)>>,
                  <<"offer_id", EId(m.oid)>>>>)
      [] m.k = "ann_resp" ->
           JObj(<<<<"action", JStr(W_ANNOUNCE)>>, <<"info_hash", EId(m.ih)>>,
                  <<"complete", JNum(m.complete)>>, <<"incomplete", JNum(m.incomplete)>>,
                  <<"interval", JNum(m.interval)>>>>)
      [] m.k = "scr_resp" ->
           JObj(<<<<"action", JStr(W_SCRAPE)>>,
                  <<"files", JMap([i \in 1..Len(m.files) |-> EFile(m.files[i])])>>>>)
      [] m.k = "error" ->
           JObj(<<<<"failure reason", JStr(m.reason)>>>>
                \o OptPair("action", m.eaction, EAction)
                \o OptPair("info_hash", m.eih, EId))

DirOf(m) == IF m.k \in {"announce", "scrape"} THEN "in" ELSE "out"

---------------------------------------------------------------------------
(* where the identifiers of a message are in a JSON text of it, and the   *)
(* identifiers of the message in the same order.  The statement fixes how *)
(* an identifier is written (IdEncode), nothing else about the text.      *)

OptNodes(n) == IF n.t \in {"absent", "z"} THEN <<>> ELSE <<n>>
Member(n, key) == IF n.t = "o" THEN Get(n, key) ELSE Absent
IdNodes(kind, o) ==
    CASE kind = "announce" ->
           <<Get(o, "info_hash"), Get(o, "peer_id")>> \o OptNodes(Get(o, "to_peer_id"))
           \o OptNodes(Get(o, "offer_id"))
           \o (LET a == Get(o, "offers")
               IN IF a.t = "a" THEN [i \in 1..Len(a.v) |-> Member(a.v[i], "offer_id")] ELSE <<>>)
      [] kind = "scrape" ->
           LET h == Get(o, "info_hash") IN IF h.t = "a" THEN h.v ELSE OptNodes(h)
      [] kind \in {"offer", "answer"} -> <<Get(o, "peer_id"), Get(o, "info_hash"), Get(o, "offer_id")>>
      [] kind = "ann_resp" -> <<Get(o, "info_hash")>>
      [] kind = "scr_resp" ->
           LET f == Get(o, "files") IN IF f.t = "m" THEN [i \in 1..Len(f.v) |-> JStr(f.v[i][1])] ELSE <<>>
      [] kind = "error" -> OptNodes(Get(o, "info_hash"))
IdSeq(m) ==
    CASE m.k = "announce" ->
           <<m.ih, m.pid>> \o m.to \o m.aoid
           \o (IF m.offers = None THEN <<>> ELSE [i \in 1..Len(m.offers[1]) |-> m.offers[1][i].oid])
      [] m.k = "scrape" -> IF m.ihs = None THEN <<>> ELSE m.ihs[1].hs
      [] m.k \in {"offer", "answer"} -> <<m.pid, m.ih, m.oid>>
      [] m.k = "ann_resp" -> <<m.ih>>
      [] m.k = "scr_resp" -> [i \in 1..Len(m.files) |-> m.files[i].ih]
      [] m.k = "error" -> m.eih
(* every identifier of m is written in o as its 20 code points <= U+00FF *)
IdsWritten(m, o) ==
    LET ns == IdNodes(m.k, o)
        bs == IdSeq(m)
    IN /\ o.t = "o"
       /\ Len(ns) = Len(bs)
       /\ \A i \in 1..Len(ns) : ns[i].t = "s" /\ Len(ns[i].v) = 20 /\ \A j \in 1..20 : ns[i].v[j] <= 255
       /\ IF m.k = "scr_resp"     \* a table: order is free
          THEN {ns[i].v : i \in 1..Len(ns)} = {IdEncode(bs[i]) : i \in 1..Len(bs)}
          ELSE \A i \in 1..Len(ns) : ns[i].v = IdEncode(bs[i])

---------------------------------------------------------------------------
(* (iii) leaves: concrete for model checking, placeholders for generation *)
(* (2000000+n: an identifier, 3000000+n: free text, "#n": a number,        *)
(* 4000000: one identifier character <= U+00FF)                            *)

ID(n) == IF Concrete THEN [i \in 1..20 |-> ((n * 16) + (i * 13)) % 256] ELSE <<2000000 + n>>
TXT(n) == IF Concrete THEN <<34, 92, 10, 0, 233, 8232, 128169, n>> ELSE <<3000000 + n>>
NUM(n) == IF Concrete THEN (CASE n = 1 -> "1" [] n = 2 -> "4294967296" [] n = 3 -> "18446744073709551615"
                              [] OTHER -> "7")
          ELSE (CASE n = 1 -> "#1" [] n = 2 -> "#2" [] n = 3 -> "#3" [] OTHER -> "#4")
FILL(i) == IF Concrete THEN (i * 37) % 256 ELSE 4000000

(* an override <<slot, string>> puts a decision-table string into one      *)
(* identifier slot of a tree; NoOv leaves every slot alone                 *)
NoOv == <<0, <<>>>>
IdAt(n, ov) == IF ov[1] = n THEN ov[2] ELSE ID(n)

States3 == {"present", "absent", "null"}

(* --- announce requests --- *)
AnnShapes ==
    [left : {"absent", "null", "zero", "n"},
     event : {"absent", "null"} \cup EventNames,
     offers : {"absent", "null", "n0", "n1", "n2"},
     numwant : States3, answer : States3, to : States3, aoid : States3]

NOffers(s) == CASE s.offers = "n1" -> 1 [] s.offers = "n2" -> 2 [] OTHER -> 0

Field(key, state, node) ==
    CASE state = "absent" -> <<>>
      [] state = "null" -> <<<<key, JNull>>>>
      [] OTHER -> <<<<key, node>>>>

AnnTree(s, ov) ==
    JObj(<<<<"action", JStr(W_ANNOUNCE)>>, <<"info_hash", JStr(IdAt(1, ov))>>,
           <<"peer_id", JStr(IdAt(2, ov))>>>>
         \o Field("left", s.left, IF s.left = "zero" THEN JNum("0") ELSE JNum(NUM(1)))
         \o Field("event", s.event, IF s.event \in EventNames THEN JStr(EventCps(s.event)) ELSE JNull)
         \o Field("offers", IF s.offers \in {"absent", "null"} THEN s.offers ELSE "present",
                  JArr([i \in 1..NOffers(s) |->
                          JObj(<<<<"offer", ERtc(W_OFFER, TXT(10 + i))>>,
                                 <<"offer_id", JStr(IdAt(10 + i, ov))>>>>)]))
         \o Field("numwant", s.numwant, JNum(NUM(2)))
         \o Field("answer", s.answer, ERtc(W_ANSWER, TXT(1)))
         \o Field("to_peer_id", s.to, JStr(IdAt(3, ov)))
         \o Field("offer_id", s.aoid, JStr(IdAt(4, ov))))

OptOf(state, x) == IF state \in {"absent", "null"} THEN None ELSE Some(x)

AnnMsg(s) ==
    [k |-> "announce", ih |-> ID(1), pid |-> ID(2),
     left |-> IF s.left = "zero" THEN Some("0") ELSE OptOf(s.left, NUM(1)),
     event |-> OptOf(s.event, s.event),
     offers |-> OptOf(s.offers, [i \in 1..NOffers(s) |-> [oid |-> ID(10 + i), sdp |-> TXT(10 + i)]]),
     numwant |-> OptOf(s.numwant, NUM(2)),
     answer |-> OptOf(s.answer, TXT(1)),
     to |-> OptOf(s.to, ID(3)),
     aoid |-> OptOf(s.aoid, ID(4))]

(* --- scrape requests --- *)
ScrShapes == {"absent", "null", "single", "m0", "m1", "m2", "m3"}
NHashes(s) == CASE s = "m1" -> 1 [] s = "m2" -> 2 [] s = "m3" -> 3 [] OTHER -> 0
ScrTree(s, ov) ==
    JObj(<<<<"action", JStr(W_SCRAPE)>>>>
         \o Field("info_hash", IF s \in {"absent", "null"} THEN s ELSE "present",
                  IF s = "single" THEN JStr(IdAt(1, ov))
                  ELSE JArr([i \in 1..NHashes(s) |-> JStr(IdAt(i, ov))])))
ScrMsg(s) ==
    [k |-> "scrape",
     ihs |-> IF s \in {"absent", "null"} THEN None
             ELSE IF s = "single" THEN Some([form |-> "single", hs |-> <<ID(1)>>])
             ELSE Some([form |-> "multi", hs |-> [i \in 1..NHashes(s) |-> ID(i)]])]

(* --- messages of the tracker --- *)
OutShape(kind, n, action, ih) == [kind |-> kind, n |-> n, action |-> action, ih |-> ih]
OutShapes ==
    {OutShape(kd, 0, "absent", "absent") : kd \in {"offer", "answer", "ann_resp"}}
    \cup {OutShape("scr_resp", n, "absent", "absent") : n \in 0..2}
    \cup {OutShape("error", 0, a, i) : a \in {"absent", "null"} \cup ActionNames, i \in States3}

OutMsg(s) ==
    CASE s.kind = "offer" -> [k |-> "offer", pid |-> ID(1), ih |-> ID(2), oid |-> ID(3), sdp |-> TXT(1)]
      [] s.kind = "answer" -> [k |-> "answer", pid |-> ID(1), ih |-> ID(2), oid |-> ID(3), sdp |-> TXT(1)]
      [] s.kind = "ann_resp" -> [k |-> "ann_resp", ih |-> ID(1), complete |-> NUM(1),
                                 incomplete |-> NUM(2), interval |-> NUM(3)]
      [] s.kind = "scr_resp" ->
            [k |-> "scr_resp",
             files |-> [i \in 1..s.n |-> [ih |-> ID(i), complete |-> NUM(1), incomplete |-> NUM(2),
                                          downloaded |-> NUM(3)]]]
      [] s.kind = "error" -> [k |-> "error", reason |-> TXT(1), eaction |-> OptOf(s.action, s.action),
                              eih |-> OptOf(s.ih, ID(1))]

Stats == JObj(<<<<"complete", JNum(NUM(1))>>, <<"incomplete", JNum(NUM(2))>>,
                <<"downloaded", JNum(NUM(3))>>>>)

OutTree(s, ov) ==
    CASE s.kind = "offer" ->
           JObj(<<<<"action", JStr(W_ANNOUNCE)>>, <<"peer_id", JStr(IdAt(1, ov))>>,
                  <<"info_hash", JStr(IdAt(2, ov))>>, <<"offer", ERtc(W_OFFER, TXT(1))>>,
                  <<"offer_id", JStr(IdAt(3, ov))>>>>)
      [] s.kind = "answer" ->
           JObj(<<<<"action", JStr(W_ANNOUNCE)>>, <<"peer_id", JStr(IdAt(1, ov))>>,
                  <<"info_hash", JStr(IdAt(2, ov))>>, <<"answer", ERtc(W_ANSWER, TXT(1))>>,
                  <<"offer_id", JStr(IdAt(3, ov))>>>>)
      [] s.kind = "ann_resp" ->
           JObj(<<<<"action", JStr(W_ANNOUNCE)>>, <<"info_hash", JStr(IdAt(1, ov))>>,
                  <<"complete", JNum(NUM(1))>>, <<"incomplete", JNum(NUM(2))>>,
                  <<"interval", JNum(NUM(3))>>>>)
      [] s.kind = "scr_resp" ->
           JObj(<<<<"action", JStr(W_SCRAPE)>>,
                  <<"files", JMap([i \in 1..s.n |-> <<IdAt(i, ov), Stats>>])>>>>)
      [] s.kind = "error" ->
           JObj(<<<<"failure reason", JStr(TXT(1))>>>>
                \o Field("action", IF s.action \in ActionNames THEN "present" ELSE s.action,
                         IF s.action \in ActionNames THEN JStr(ActionCps(s.action)) ELSE JNull)
                \o Field("info_hash", s.ih, JStr(IdAt(1, ov))))

---------------------------------------------------------------------------
(* the identifier decision table *)

IdLens == {0, 1, 19, 20, 21, 39, 40}
IdPoss == {0, 1, 10, 20, 21}            \* 0: no offending character
IdKinds == {"U+0100", "U+FFFF", "non-BMP"}
BadCp(kind) == CASE kind = "U+0100" -> 256 [] kind = "U+FFFF" -> 65535 [] kind = "non-BMP" -> 128169
(* distinct strings only: no offender -> one kind; an offender lies inside the string *)
IdCases == {c \in [len : IdLens, pos : IdPoss, kind : IdKinds] :
               /\ c.pos <= c.len
               /\ c.pos = 0 => c.kind = "U+0100"}
IdString(c) == [i \in 1..c.len |-> IF i = c.pos THEN BadCp(c.kind) ELSE FILL(i)]
IdExpected(c) == c.len = 20 /\ c.pos = 0

(* the slots a string can be put in: <<dir, kind of tree, slot>> *)
FullAnn == [left |-> "n", event |-> "started", offers |-> "n2", numwant |-> "present",
            answer |-> "present", to |-> "present", aoid |-> "present"]
IdSlots ==
    {<<"in", "announce", n>> : n \in {1, 2, 3, 4, 11, 12}}
    \cup {<<"in", "single", 1>>} \cup {<<"in", "m3", n>> : n \in 1..3}
    \cup {<<"out", "offer", n>> : n \in 1..3} \cup {<<"out", "answer", n>> : n \in 1..3}
    \cup {<<"out", "ann_resp", 1>>} \cup {<<"out", "scr_resp", n>> : n \in 1..2}
    \cup {<<"out", "error", 1>>}
SlotTree(sl, str) ==
    LET ov == <<sl[3], str>>
    IN CASE sl[2] = "announce" -> AnnTree(FullAnn, ov)
         [] sl[2] \in {"single", "m3"} -> ScrTree(sl[2], ov)
         [] sl[2] = "scr_resp" -> OutTree(OutShape("scr_resp", 2, "absent", "absent"), ov)
         [] sl[2] = "error" -> OutTree(OutShape("error", 0, "announce", "present"), ov)
         [] OTHER -> OutTree(OutShape(sl[2], 0, "absent", "absent"), ov)

---------------------------------------------------------------------------
(* byte patterns for binary frames: ill-formed UTF-8 and well-formed controls *)
Utf8Patterns ==
    { <<"lone-continuation", <<128>>, FALSE>>, <<"lone-continuation-bf", <<191>>, FALSE>>,
      <<"truncated-2", <<195>>, FALSE>>, <<"truncated-3", <<226, 130>>, FALSE>>, <<"truncated-4", <<240, 159, 152>>, FALSE>>,
      <<"overlong-2-c0", <<192, 128>>, FALSE>>, <<"overlong-2-c1", <<193, 191>>, FALSE>>,
      <<"overlong-3", <<224, 128, 128>>, FALSE>>, <<"overlong-3-9f", <<224, 159, 191>>, FALSE>>,
      <<"overlong-4", <<240, 128, 128, 128>>, FALSE>>, <<"overlong-4-8f", <<240, 143, 191, 191>>, FALSE>>,
      <<"surrogate-d800", <<237, 160, 128>>, FALSE>>, <<"surrogate-dfff", <<237, 191, 191>>, FALSE>>,
      <<"above-10ffff", <<244, 144, 128, 128>>, FALSE>>, <<"f5", <<245, 128, 128, 128>>, FALSE>>,
      <<"f8-5-byte", <<248, 136, 128, 128, 128>>, FALSE>>, <<"fe", <<254>>, FALSE>>, <<"ff", <<255>>, FALSE>>,
      <<"latin1-e9", <<233>>, FALSE>>, <<"bad-continuation", <<195, 40>>, FALSE>>,
      <<"bad-continuation-3", <<226, 40, 161>>, FALSE>>, <<"bad-continuation-4", <<240, 40, 140, 188>>, FALSE>>,
      <<"ok-2", <<195, 169>>, TRUE>>, <<"ok-2-min", <<194, 128>>, TRUE>>, <<"ok-3", <<226, 130, 172>>, TRUE>>,
      <<"ok-3-min", <<224, 160, 128>>, TRUE>>, <<"ok-d7ff", <<237, 159, 191>>, TRUE>>, <<"ok-e000", <<238, 128, 128>>, TRUE>>,
      <<"ok-ffff", <<239, 191, 191>>, TRUE>>, <<"ok-4-min", <<240, 144, 128, 128>>, TRUE>>,
      <<"ok-4", <<240, 159, 152, 128>>, TRUE>>, <<"ok-10ffff", <<244, 143, 191, 191>>, TRUE>>, <<"ok-ascii", <<65>>, TRUE>> }
=============================================================================
