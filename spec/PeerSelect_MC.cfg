SPECIFICATION Spec
CONSTANTS N = 14  OffByOne = FALSE
INVARIANTS UHSound WsSound LimitOK
CHECK_DEADLOCK FALSE
