SPECIFICATION Spec
CONSTANTS
  Hashes = {1, 2}
  Mode = "off"
  Files <- MCFiles
ACTION_CONSTRAINT EmitEdge
CHECK_DEADLOCK FALSE
