------------------------------- MODULE Export -------------------------------
(***************************************************************************)
(* The full-scrape export of the UDP tracker                               *)
(* (clean_and_update_statistics in crates/udp/src/swarm.rs): create        *)
(* path.tmp, write one line per torrent, flush, close, rename over path.   *)
(* A crash may happen after any step; a reader may look at `path` at any   *)
(* time.  Property C20 (second half).                                      *)
(*                                                                         *)
(* A file is "absent", [complete, v] or [partial, v, k] (k of v's lines).  *)
(***************************************************************************)
EXTENDS Naturals, Sequences, FiniteSets

CONSTANTS Versions, Lines     \* export generations 1..n; lines per export

VARIABLES path, tmp, pcx, ver, written, crashed
vars == <<path, tmp, pcx, ver, written, crashed>>

Absent == <<"absent">>
Complete(v) == <<"complete", v>>
Partial(v, k) == <<"partial", v, k>>

Init == /\ path = Absent /\ tmp = Absent /\ pcx = "idle" /\ ver = 0 /\ written = 0 /\ crashed = FALSE

Start ==   \* a cleaning pass with export begins: File::create(tmp) truncates
    /\ ~crashed /\ pcx = "idle" /\ ver + 1 \in Versions
    /\ ver' = ver + 1 /\ tmp' = Partial(ver + 1, 0) /\ written' = 0 /\ pcx' = "writing"
    /\ UNCHANGED <<path, crashed>>

WriteLine ==
    /\ ~crashed /\ pcx = "writing" /\ written < Lines
    /\ written' = written + 1 /\ tmp' = Partial(ver, written + 1)
    /\ UNCHANGED <<path, pcx, ver, crashed>>

Flush ==
    /\ ~crashed /\ pcx = "writing" /\ written = Lines
    /\ tmp' = Complete(ver) /\ pcx' = "flushed"
    /\ UNCHANGED <<path, ver, written, crashed>>

Rename ==     \* atomic replacement of path by tmp
    /\ ~crashed /\ pcx = "flushed"
    /\ path' = tmp /\ tmp' = Absent /\ pcx' = "idle"
    /\ UNCHANGED <<ver, written, crashed>>

Crash == /\ ~crashed /\ crashed' = TRUE /\ UNCHANGED <<path, tmp, pcx, ver, written>>

Next == Start \/ WriteLine \/ Flush \/ Rename \/ Crash
Spec == Init /\ [][Next]_vars

(* a reader at any time, and a crash at any point, finds the previous or the new complete file *)
PathAlwaysComplete ==
    \/ path = Absent /\ ver <= 1
    \/ \E v \in Versions : path = Complete(v) /\ v \in {ver, ver - 1}
NeverPartial == path[1] # "partial"
=============================================================================
