-------------------------- MODULE AccessList_Trace --------------------------
(* End-to-end validation of the access list on running trackers (C11): the    *)
(* driver rewrites the list file, sends SIGUSR1, and observes announce        *)
(* replies (normal / error) and, after a cleaning pass, which torrents still  *)
(* have peers.  Decisions must follow AccessList.tla's Reload / gate / clean. *)
EXTENDS Naturals, Sequences, FiniteSets, TLC, Json, IOUtils
Rec == ndJsonDeserialize(IOEnv.TRACE)
VARIABLES l, list, mode, stored
vars == <<l, list, mode, stored>>
Init == l = 1 /\ list = {} /\ mode = "off" /\ stored = {}
E == Rec[l]
IsEvent(n) == l <= Len(Rec) /\ Rec[l].ev = n /\ l' = l + 1
Rng(s) == {s[i] : i \in 1..Len(s)}
Allows(h) == CASE mode = "off" -> TRUE [] mode = "allow" -> h \in list [] mode = "deny" -> h \notin list
Reset == IsEvent("reset") /\ mode' = E.mode /\ list' = Rng(E.initial) /\ stored' = {}
(* SIGUSR1 after the file was rewritten: a good file replaces the list, anything else changes nothing *)
Reload == /\ IsEvent("reload")
          /\ list' = IF mode # "off" /\ E.file.kind = "good" THEN Rng(E.file.hashes) ELSE list
          /\ UNCHANGED <<mode, stored>>
Announce == /\ IsEvent("announce")
            /\ E.accepted = Allows(E.h)
            /\ stored' = IF Allows(E.h) THEN stored \cup {E.h} ELSE stored
            /\ UNCHANGED <<list, mode>>
(* after a cleaning pass: exactly the permitted torrents are still there *)
Cleaned == /\ IsEvent("cleaned")
           /\ stored' = {h \in stored : Allows(h)}
           /\ Rng(E.present) = {h \in stored : Allows(h)} \cap Rng(E.asked)
           /\ UNCHANGED <<list, mode>>
Next == Reset \/ Reload \/ Announce \/ Cleaned
Spec == Init /\ [][Next]_vars
Remember == TLCSet(1, [l |-> l, list |-> list, stored |-> stored])
Accepted ==
    LET d == TLCGet("stats").diameter IN
    IF d - 1 = Len(Rec) THEN TRUE
    ELSE PrintT(<<"TRACE_REJECTED", d, ToJson(Rec[d])>>) /\ PrintT(<<"LAST_STATE", ToJson(TLCGet(1))>>) /\ FALSE
=============================================================================
