SPECIFICATION Spec
CONSTANTS
  Ips <- MCIps
  Clocks <- MCClocks
  MaxAge <- MCMaxAge1
INVARIANT EmitCases
CONSTRAINT StopAtInit
CHECK_DEADLOCK FALSE
