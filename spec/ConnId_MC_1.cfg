SPECIFICATION Spec
CONSTANTS
  Ips <- MCIps
  Clocks <- MCClocks
  MaxAge <- MCMaxAge1
VIEW View
PROPERTIES AcceptIff ForeignRejected ForgedRejected MappedIsV4
CHECK_DEADLOCK FALSE
