SPECIFICATION GSpec
CONSTANTS
  Threads <- MCThreads
  Catalogue <- MCCatalogue
  GuardEnabled = TRUE
  NoThread = 0
  RecursiveScrape = FALSE
INVARIANT Emit
VIEW GView
CHECK_DEADLOCK FALSE
