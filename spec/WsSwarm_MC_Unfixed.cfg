SPECIFICATION Spec
CONSTANTS
  Conns <- MCConns
  Hashes = {1}
  Pids = {1, 2}
  OfferIds = {1, 2}
  Times = {0, 1}
  CleanTimes = {0, 1}
  MaxPeerAge = 2
  MaxOfferAge = 1
  MaxOffers = 1
  MaxScrape = 2
  OfferLists <- MCOfferLists
  ScrapeLists <- MCScrapeLists
  Events = {"started", "stopped"}
  Lefts = {0, 2}
  Fixed = FALSE
VIEW View
INVARIANTS TypeOK ClosedLeavesNothing AnnConsistent PendingFaithful
PROPERTIES RefinesReference Ownership
CHECK_DEADLOCK FALSE
