INIT GenInit
NEXT GenNext
CONSTANT Thorough = TRUE
CHECK_DEADLOCK FALSE
CONSTANT NPat = 2
