INIT GenInit
NEXT GenNext
CONSTANT Thorough = TRUE
CHECK_DEADLOCK FALSE
