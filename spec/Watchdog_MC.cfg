SPECIFICATION Spec
CONSTANTS
  Workers = {w1, w2, w3}
  PollPeriod = 5
  MaxTime = 14
  Bound = 10
  Modes = {"returned_ok", "returned_err", "panicked"}
INVARIANTS RunReturnsErr BoundOK NeverReturnsOtherwise ReturnedInTime
CHECK_DEADLOCK FALSE
