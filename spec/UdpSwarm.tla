----------------------------- MODULE UdpSwarm -----------------------------
(***************************************************************************)
(* Sequential model of the UDP tracker's swarm state                       *)
(* (crates/udp/src/swarm.rs TorrentMaps): one action per public call.      *)
(*                                                                         *)
(*   tm     torrent -> PeerMap.  A torrent is <<family, hash>>.  A hash    *)
(*          that is in DOMAIN tm with an empty map and one that is absent  *)
(*          are different concrete states (the code keeps the empty map    *)
(*          until the next cleaning pass) that must be indistinguishable.  *)
(*   tally  the per-peer-id counter kept by the statistics worker          *)
(*          (workers/statistics/mod.rs), updated by the PeerAdded /        *)
(*          PeerRemoved messages the swarm emits.                          *)
(*   op     the last operation with its arguments and everything the       *)
(*          caller can observe of it (reply, statistics, messages).        *)
(*                                                                         *)
(* Shards are not represented: sequentially they only influence iteration  *)
(* order, which the model treats as unordered (sets / bags).  Concurrency  *)
(* is UdpConc.tla.                                                         *)
(***************************************************************************)
EXTENDS PeerMap, RefTracker, Bags

CONSTANTS
    Fams,        \* address families, e.g. {4, 6}
    Hashes,      \* info hashes
    Keys,        \* peer keys <<ip, port>> (opaque)
    Pids,        \* peer ids
    Deadlines,   \* ValidUntil values used by announces
    Nows,        \* times at which cleaning passes run
    NumWants,    \* numwant values
    MaxResp,     \* config.protocol.max_response_peers
    Cap,         \* SMALL_PEER_MAP_CAPACITY
    ScrapeLists, \* set of sequences of hashes that scrapes may ask for
    Events,      \* subset of {"none", "started", "completed", "stopped"}
    Lefts        \* signs of `left`: subset of {-1, 0, 1}

VARIABLES tm, tally, op

vars == <<tm, tally, op>>

Torrents == Fams \X Hashes

PM(t) == IF t \in DOMAIN tm THEN tm[t] ELSE PMEmpty

(* Refinement mapping to the reference store: forget representation, order, *)
(* cached counters and empty maps.                                          *)
Abs(m) ==
    LET live == {t \in DOMAIN m : Len(m[t].seq) > 0}
    IN  [t \in live |-> AbsPM(m[t])]

----------------------------------------------------------------------------
(* The statistics worker's tally as a bag of peer ids *)
TallyAdd(b, p) == b (+) SetToBag({p})
TallyRemove(b, p) == IF BagIn(p, b) THEN b (-) SetToBag({p}) ELSE b

RECURSIVE ApplyMsgs(_, _)
ApplyMsgs(b, msgs) ==
    IF msgs = <<>> THEN b
    ELSE LET m == Head(msgs)
         IN ApplyMsgs(IF m[1] = "added" THEN TallyAdd(b, m[2])
                      ELSE TallyRemove(b, m[2]), Tail(msgs))

(* the bag of peer ids of all stored peers *)
RECURSIVE SeqPidBag(_)
SeqPidBag(seq) == IF seq = <<>> THEN EmptyBag
                  ELSE SetToBag({Head(seq).pid}) (+) SeqPidBag(Tail(seq))
RECURSIVE StoredPidBagOf(_, _)
StoredPidBagOf(m, T) ==
    IF T = {} THEN EmptyBag
    ELSE LET t == CHOOSE t \in T : TRUE
         IN SeqPidBag(m[t].seq) (+) StoredPidBagOf(m, T \ {t})
StoredPidBag(m) == StoredPidBagOf(m, DOMAIN m)

----------------------------------------------------------------------------
Init ==
    /\ tm = <<>>
    /\ tally = EmptyBag
    /\ op = [name |-> "init"]

(* Messages an announce sends to the statistics worker (peer_clients on).  *)
(* The stored peer id - not the request's - identifies what was removed.   *)
AnnounceMsgs(status, removed, pid) ==
    IF status = "stopped"
    THEN IF removed = <<>> THEN <<>> ELSE << <<"removed", removed[1].pid>> >>
    ELSE IF removed = <<>> THEN << <<"added", pid>> >>
         ELSE IF removed[1].pid = pid THEN <<>>
              ELSE << <<"removed", removed[1].pid>>, <<"added", pid>> >>

Announce(t, key, event, left, numwant, deadline, pid) ==
    LET status == Status(event, left)
        limit  == Limit(numwant, MaxResp)
        entry  == [key |-> key, seeder |-> status = "seeding",
                   deadline |-> deadline, pid |-> pid]
    IN \E o \in AnnOffsets(PM(t), key, limit) :
        LET r == PMAnnounce(PM(t), Cap, key, status, entry, limit, o[1], o[2])
            msgs == AnnounceMsgs(status, r.removed, pid)
        IN /\ tm' = [x \in DOMAIN tm \cup {t} |-> IF x = t THEN r.pm ELSE tm[x]]
           /\ tally' = ApplyMsgs(tally, msgs)
           /\ op' = [name |-> "announce", t |-> t, key |-> key, event |-> event,
                     left |-> left, numwant |-> numwant, deadline |-> deadline,
                     pid |-> pid,
                     reply |-> [seeders |-> r.seeders, leechers |-> r.leechers,
                                peers |-> r.peers],
                     msgs |-> msgs]

ScrapeReply(fam, hs) ==
    [i \in 1..Len(hs) |-> LET sl == SL(PM(<<fam, hs[i]>>)) IN <<sl[1], sl[2]>>]

Scrape(fam, hs) ==
    /\ op' = [name |-> "scrape", fam |-> fam, hs |-> hs, reply |-> ScrapeReply(fam, hs)]
    /\ UNCHANGED <<tm, tally>>

(* clean_and_update_statistics.  forbidden: the set of hashes the access   *)
(* list in force does not allow.                                           *)
CleanResult(now, forbidden) ==
    LET c(t)   == PMClean(tm[t], Cap, now, TRUE)
        live   == {t \in DOMAIN tm : t[2] \notin forbidden /\ Len(c(t).pm.seq) > 0}
        newtm  == [t \in live |-> c(t).pm]
        RECURSIVE GoneBag(_)
        GoneBag(T) == IF T = {} THEN EmptyBag
                      ELSE LET t == CHOOSE t \in T : TRUE
                           IN SeqPidBag(c(t).gone) (+) GoneBag(T \ {t})
        RECURSIVE PeerSum(_)
        PeerSum(T) == IF T = {} THEN 0
                      ELSE LET t == CHOOSE t \in T : TRUE
                           IN Len(c(t).pm.seq) + PeerSum(T \ {t})
        ofFam(f) == {t \in DOMAIN tm : t[1] = f}
    IN [tm |-> newtm,
        removed |-> GoneBag(DOMAIN tm),
        torrents |-> [f \in Fams |-> Cardinality({t \in live : t[1] = f})],
        peers |-> [f \in Fams |-> PeerSum(ofFam(f))],
        export |-> {<<t[1], t[2], c(t).seeders, c(t).leechers>> :
                      t \in {x \in DOMAIN tm : Len(c(x).pm.seq) > 0}}]

RECURSIVE BagRemoveAll(_, _, _)
BagRemoveAll(b, g, S) ==     \* apply PeerRemoved for every element of bag g
    IF S = {} THEN b
    ELSE LET p == CHOOSE p \in S : TRUE
             RECURSIVE Rep(_, _)
             Rep(bb, n) == IF n = 0 THEN bb ELSE Rep(TallyRemove(bb, p), n - 1)
         IN BagRemoveAll(Rep(b, CopiesIn(p, g)), g, S \ {p})

Clean(now, forbidden) ==
    LET r == CleanResult(now, forbidden)
    IN /\ tm' = r.tm
       /\ tally' = BagRemoveAll(tally, r.removed, BagToSet(r.removed))
       /\ op' = [name |-> "clean", now |-> now, forbidden |-> forbidden,
                 torrents |-> r.torrents, peers |-> r.peers,
                 removed |-> r.removed, export |-> r.export]

Next ==
    \/ \E t \in Torrents, key \in Keys, event \in Events,
          left \in Lefts, numwant \in NumWants, deadline \in Deadlines, pid \in Pids :
          Announce(t, key, event, left, numwant, deadline, pid)
    \/ \E fam \in Fams, hs \in ScrapeLists : Scrape(fam, hs)
    \/ \E now \in Nows : Clean(now, {})

Spec == Init /\ [][Next]_vars

----------------------------------------------------------------------------
(* What TLC decides *)

TypeOK == \A t \in DOMAIN tm : PMWellFormed(tm[t], Cap, TRUE)

(* C20(a): the statistics worker's tally equals the stored peers per id *)
TallyFaithful == tally = StoredPidBag(tm)

(* C01 / C02 / C10 as a property of every step: the observable result of   *)
(* the concrete step equals that of the reference tracker on Abs(tm), and  *)
(* Abs commutes with the step.                                             *)
StepRefines ==
    LET a == Abs(tm)  b == Abs(tm')  o == op' IN
    CASE o.name = "announce" ->
           LET status == Status(o.event, o.left)
               entry  == [seeder |-> status = "seeding", deadline |-> o.deadline,
                          pid |-> o.pid]
               cnt    == AnnounceCountsExcl(a, o.t, o.key)
           IN /\ b = AnnounceStore(a, o.t, o.key, status, entry)
              /\ o.reply.seeders = cnt.seeders
              /\ o.reply.leechers = cnt.leechers
              /\ PeerListOK(o.reply.peers, Candidates(a, o.t, o.key),
                            Limit(o.numwant, MaxResp), 1)
      [] o.name = "scrape" ->
           /\ b = a
           /\ \A i \in 1..Len(o.hs) :
                LET c == ScrapeCounts(a, <<o.fam, o.hs[i]>>)
                IN o.reply[i] = <<c.seeders, c.leechers>>
      [] o.name = "clean" ->
           /\ b = CleanStore(a, o.now, LAMBDA t : t[2] \in o.forbidden)
           \* C10: nothing valid is removed, nothing expired survives
           /\ \A t \in DOMAIN a : \A k \in DOMAIN a[t] :
                (t[2] \notin o.forbidden) =>
                  ((t \in DOMAIN b /\ k \in DOMAIN b[t]) <=> Valid(a[t][k].deadline, o.now))
           \* C20: totals equal what is stored afterwards (no list change)
           /\ o.forbidden = {} =>
                /\ \A f \in Fams :
                     /\ o.torrents[f] = Cardinality({t \in DOMAIN b : t[1] = f})
                     /\ o.peers[f] = TotalPeers(b, {t \in DOMAIN b : t[1] = f})
                /\ o.export = {<<t[1], t[2], NumSeeders(b[t]), NumLeechers(b[t])>> : t \in DOMAIN b}
      [] OTHER -> TRUE

RefinesReference == [][StepRefines]_vars

(* C02 internals: the selection never takes the silent get_range = None path *)
SelectionInBounds ==
    \A t \in DOMAIN tm :
        tm[t].kind = "large" =>
          \A limit \in {Limit(n, MaxResp) : n \in NumWants} :
            \A len \in {Len(tm[t].seq), Len(tm[t].seq) - 1} :
              /\ UHNoUnderflow(len, limit)
              /\ \A o \in UHOffsets(len, limit) : UHRangesInBounds(len, limit, o[1], o[2])

View == <<tm, tally>>
=============================================================================
