---------------------------- MODULE Buffers_Trace ----------------------------
(* Delivery and size binding for C18: each line is one worst-case request sent *)
(* to a running tracker configured at a grid point; what was observed must be   *)
(* what Buffers.tla computes from the mirrored buffer constants.                *)
EXTENDS Buffers, Json, IOUtils
Rec == ndJsonDeserialize(IOEnv.TRACE)
VARIABLE l
Init == l = 1
E == Rec[l]
CaseLine ==
    /\ l <= Len(Rec) /\ E.ev = "case" /\ l' = l + 1
    /\ LET c == Case(E.tracker, E.backend, E.kind, E.fam, E.n) IN
       /\ E.reqlen = c.reqlen
       /\ (E.observed = "reply") <=> c.delivered
       /\ E.observed = "reply" => E.observed_len = c.replylen
Reset == l <= Len(Rec) /\ E.ev = "reset" /\ l' = l + 1
Next == CaseLine \/ Reset
Spec == Init /\ [][Next]_l
Remember == TLCSet(1, [l |-> l])
Accepted ==
    LET d == TLCGet("stats").diameter IN
    IF d - 1 = Len(Rec) THEN TRUE
    ELSE PrintT(<<"TRACE_REJECTED", d, ToJson(Rec[d])>>) /\ FALSE
=============================================================================
