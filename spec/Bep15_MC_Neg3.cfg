SPECIFICATION Spec
CONSTANT BE32 <- BadBE32
INVARIANT Law
CHECK_DEADLOCK FALSE
CONSTANT NPat = 2
