SPECIFICATION FairSpec
CONSTANTS
  Workers = {1, 2, 3}
  SocketsPerWorker = 2
  Drop = FALSE
INVARIANTS DropOnlyAfterAllBound ServeOnlyAfterDrop
PROPERTY EventuallyUp
