\* Config A: one torrent, rich peer behaviour (representation switches)
SPECIFICATION Spec
CONSTANTS
  Fams = {4}
  Hashes = {1}
  Keys = {k1, k2, k3, k4}
  Pids = {1}
  Deadlines = {1, 2}
  Nows = {0, 1, 2}
  NumWants <- MCNumWants
  MaxResp = 3
  Cap = 2
  ScrapeLists <- MCScrapeLists
  Events = {"started", "stopped"}
  Lefts = {0, 1}
SYMMETRY SymKeys
VIEW View
INVARIANTS TypeOK TallyFaithful SelectionInBounds
PROPERTIES RefinesReference
CHECK_DEADLOCK FALSE
