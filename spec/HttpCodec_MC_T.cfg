SPECIFICATION Spec
CONSTANTS
  Quick = FALSE
INVARIANTS
  Laws
  Emit
CHECK_DEADLOCK FALSE
