SPECIFICATION Spec
CONSTANTS
  Quick = TRUE
INVARIANTS
  Laws
  Emit
CHECK_DEADLOCK FALSE
