SPECIFICATION Spec
CONSTANTS
  Threads <- MCThreads
  Catalogue <- RecursiveCatalogue
  GuardEnabled = TRUE
  NoThread = 0
  RecursiveScrape = TRUE
INVARIANTS Linearizable NoLostAnnounce NoOrphanWrite LockSanity
