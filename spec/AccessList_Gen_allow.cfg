SPECIFICATION Spec
CONSTANTS
  Hashes = {1, 2}
  Mode = "allow"
  Files <- MCFiles
ACTION_CONSTRAINT EmitEdge
CHECK_DEADLOCK FALSE
