SPECIFICATION Spec
CONSTANTS
  Cap = 4
  CleanShrinks = FALSE
INVARIANT Mark
POSTCONDITION Accepted
CHECK_DEADLOCK FALSE
