----------------------------- MODULE UdpConc_MC -----------------------------
EXTENDS UdpConc, Json

Ann(h, k, d) == [kind |-> "announce", h |-> h, key |-> k, stop |-> FALSE, d |-> d]
Stop(h, k)   == [kind |-> "announce", h |-> h, key |-> k, stop |-> TRUE, d |-> 0]
Scr(h)       == [kind |-> "scrape", hs |-> <<h>>]
Scr2         == [kind |-> "scrape", hs |-> <<1, 2>>]     \* two torrents of one shard in one request
Cln(now)     == [kind |-> "clean", now |-> now]

MCThreads == {1, 2, 3}

(* programs of at most two operations per thread, drawn from a catalogue that *)
(* contains every ingredient of the known race: an announce for a torrent that *)
(* a cleaning pass finds empty, scrapes that observe it, stops, expiry.        *)
Ops1 == {Ann(1, 1, 5), Ann(1, 2, 1), Stop(1, 1), Scr(1), Cln(1), Cln(9), Ann(2, 1, 5)}

Seqs == {<<a>> : a \in Ops1} \cup {<<a, b>> : a \in {Ann(1, 1, 5), Ann(1, 2, 1), Stop(1, 1), Cln(1)}, b \in {Scr(1), Cln(1), Stop(1, 1), Ann(1, 1, 5)}}

(* three-thread programs: one announcer, one cleaner, one observer/second announcer *)
MCCatalogue ==
    {[t \in MCThreads |-> CASE t = 1 -> p1 [] t = 2 -> p2 [] t = 3 -> p3] :
        p1 \in {<<Ann(1, 1, 5), Scr(1)>>, <<Ann(1, 1, 1), Stop(1, 1)>>, <<Ann(1, 2, 5)>>, <<Stop(1, 1), Ann(1, 1, 5)>>},
        p2 \in {<<Cln(1), Cln(1)>>, <<Cln(9)>>, <<Cln(1), Scr(1)>>},
        p3 \in {<<Ann(1, 1, 1), Stop(1, 1)>>, <<Ann(1, 3, 1), Scr(1)>>, <<Scr(1), Scr(1)>>, <<Ann(2, 1, 5), Cln(1)>>,
                <<Ann(2, 1, 5), Scr2>>, <<Scr2>>}}

QuickCatalogue ==
    {[t \in MCThreads |-> CASE t = 1 -> p1 [] t = 2 -> p2 [] t = 3 -> p3] :
        p1 \in {<<Ann(1, 1, 5), Scr(1)>>, <<Stop(1, 1), Ann(1, 1, 5)>>},
        p2 \in {<<Cln(1), Cln(1)>>, <<Cln(1), Scr(1)>>},
        p3 \in {<<Ann(1, 1, 1), Stop(1, 1)>>, <<Ann(1, 3, 1), Scr(1)>>, <<Ann(2, 1, 5), Scr2>>}}

(* negative control for recursive read locking: a two-hash scrape against writers of the same shard *)
RecursiveCatalogue ==
    {[t \in MCThreads |-> CASE t = 1 -> <<Ann(1, 1, 5)>> [] t = 2 -> <<Cln(1)>> [] t = 3 -> <<Scr2>>]}
=============================================================================
