SPECIFICATION Spec
CONSTANTS
  Conns <- MCConns
  SwarmWorkers = {1, 2}
  Hashes = {1, 2}
  Pids = {1, 2}
  RouteByConsumer = TRUE
  MaxOps = 3
  QuiescentClose = FALSE
INVARIANTS DeliveredOnlyToAddressee ClosedLeavesNothing
CHECK_DEADLOCK FALSE
