SPECIFICATION Spec
CONSTANTS
  Concrete = TRUE
  Full = FALSE
  IdAccept <- WrapIdAccept
INVARIANT LawHolds
CHECK_DEADLOCK FALSE
