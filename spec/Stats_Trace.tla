----------------------------- MODULE Stats_Trace -----------------------------
(* End-to-end validation of the UDP tracker's operator reports (C20): a running *)
(* tracker with statistics and peer-client tracking on; the driver announces    *)
(* peers with peer ids of two client families, changes ids, stops, and reads    *)
(* the statistics HTML file the real statistics worker writes.  Per client      *)
(* family the table must show the number of distinct peer ids that currently    *)
(* have stored peers; the totals must equal the stored torrents and peers.      *)
EXTENDS RefTracker, Json, IOUtils
Rec == ndJsonDeserialize(IOEnv.TRACE)
VARIABLES l, store
vars == <<l, store>>
Init == l = 1 /\ store = <<>>
E == Rec[l]
IsEvent(n) == l <= Len(Rec) /\ Rec[l].ev = n /\ l' = l + 1
Reset == IsEvent("reset") /\ store' = <<>>
Announce ==
    /\ IsEvent("announce")
    /\ LET status == Status(E.event, E.left) IN
       store' = AnnounceStore(store, <<4, E.h>>, E.key, status,
                              [seeder |-> status = "seeding", deadline |-> 0, pid |-> E.pid])
StoredPids == UNION {{store[t][k].pid : k \in DOMAIN store[t]} : t \in DOMAIN store}
ClassOf(pid) == IF pid < 100 THEN "QBitTorrent" ELSE "Transmission"
(* the statistics file as read by the driver after the statistics and cleaning intervals have passed *)
Html ==
    /\ IsEvent("html")
    /\ \A c \in {"QBitTorrent", "Transmission"} :
         LET want == Cardinality({p \in StoredPids : ClassOf(p) = c})
             rows == {i \in 1..Len(E.clients) : E.clients[i][1] = c}
         IN IF want = 0 THEN rows = {}
            ELSE Cardinality(rows) = 1 /\ \A i \in rows : E.clients[i][2] = want
    /\ \A i \in 1..Len(E.clients) : E.clients[i][1] \in {"QBitTorrent", "Transmission"}
    /\ E.torrents4 = Cardinality(DOMAIN store)
    /\ E.peers4 = TotalPeers(store, DOMAIN store)
    /\ UNCHANGED store
Next == Reset \/ Announce \/ Html
Spec == Init /\ [][Next]_vars
Remember == TLCSet(1, [l |-> l, store |-> store])
Accepted ==
    LET d == TLCGet("stats").diameter IN
    IF d - 1 = Len(Rec) THEN TRUE
    ELSE PrintT(<<"TRACE_REJECTED", d, ToJson(Rec[d])>>) /\ PrintT(<<"LAST_STATE", ToJson(TLCGet(1))>>) /\ FALSE
=============================================================================
