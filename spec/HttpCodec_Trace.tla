-------------------------- MODULE HttpCodec_Trace --------------------------
(***************************************************************************)
(* Trace validation for C14: every line logged by harness/src/bin/         *)
(* http_codec (one call sequence on the real aquatic_http_protocol) is     *)
(* judged against the reference codec.                                     *)
(*                                                                         *)
(*  get_path : Request::parse_http_get_path (and Request::parse_bytes of   *)
(*             the path inside a GET request) = ParsePath                  *)
(*  req_rt   : Request::write -> Request::parse_bytes gives the request    *)
(*  reply    : Response::write_bytes = BencReply byte for byte, and        *)
(*             Response::parse_bytes of those bytes gives the reply        *)
(*                                                                         *)
(* With J_DOMAIN_ONLY=1 only the membership of the inputs in the domain of *)
(* the statement is checked (a generator fault, never a verdict).          *)
(***************************************************************************)
EXTENDS HttpCodec, Json, IOUtils

Rec == ndJsonDeserialize(IOEnv.TRACE)

DomainOnly == "J_DOMAIN_ONLY" \in DOMAIN IOEnv /\ IOEnv["J_DOMAIN_ONLY"] = "1"

VARIABLES
    l,       \* next line of Rec
    judged   \* events judged so far in this run

vars == <<l, judged>>

Init == l = 1 /\ judged = 0

E == Rec[l]
IsEvent(name) == l <= Len(Rec) /\ Rec[l].ev = name /\ l' = l + 1

Reset == IsEvent("reset") /\ judged' = 0

(* accept / reject and the decoded request *)
ResMatches(res, exp) ==
    IF exp.ok THEN res.st = "ok" /\ res.req = exp.req
    ELSE res.st = "err"

GetPath ==
    /\ IsEvent("get_path")
    /\ PathDomain(E.path)
    /\ DomainOnly \/
         LET exp == ParsePath(E.path)
         IN /\ ResMatches(E.res, exp)
            /\ E.http => ResMatches(E.res_http, exp)
    /\ judged' = judged + 1

ReqRoundTrip ==
    /\ IsEvent("req_rt")
    /\ RequestDomain(E.req)
    /\ DomainOnly \/ (E.res.st = "ok" /\ E.res.req = E.req)
    /\ judged' = judged + 1

Reply ==
    /\ IsEvent("reply")
    /\ ReplyDomain(E.reply)
    /\ DomainOnly \/
         /\ E.bytes = BencReply(E.reply)
         /\ E.parsed.st = "ok"
         /\ E.parsed.reply = CanonReply(E.reply)
    /\ judged' = judged + 1

Next == Reset \/ GetPath \/ ReqRoundTrip \/ Reply

Spec == Init /\ [][Next]_vars

Remember == TLCSet(1, [l |-> l, judged |-> judged])

Accepted ==
    LET d == TLCGet("stats").diameter IN
    IF d - 1 = Len(Rec) THEN TRUE
    ELSE /\ PrintT(<<"TRACE_REJECTED", d, ToJson(Rec[d])>>)
         /\ PrintT(<<"LAST_STATE", ToJson(TLCGet(1))>>)
         /\ FALSE
=============================================================================
