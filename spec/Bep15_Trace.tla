----------------------------- MODULE Bep15_Trace -----------------------------
(***************************************************************************)
(* Trace validation of the real UDP wire codec (aquatic_udp_protocol)      *)
(* against the reference codec Bep15.  One trace line per case executed by *)
(* harness/src/bin/udp_codec.rs:                                           *)
(*                                                                         *)
(*  req    a request value: the bytes written by Request::write_bytes and  *)
(*         the result of parsing them back with max_scrape_torrents = max  *)
(*  parse  a datagram: the result of Request::parse_bytes(bytes, max)      *)
(*  resp   a reply value: the bytes written by Response::write_bytes and   *)
(*         the result of Response::parse_bytes(bytes, fam = 4)             *)
(*  presp  reply bytes: the result of Response::parse_bytes                *)
(*                                                                         *)
(* MODE = judge (deciding pass): written bytes equal the reference         *)
(* encoding byte for byte; accept / reject as ParseRequest says; every     *)
(* field of an accepted request / reply equals the reference parse; a      *)
(* scrape holds exactly the first max hashes.  Which kind of error a       *)
(* rejection is (sendable or not, message) is recorded but not judged.     *)
(*                                                                         *)
(* MODE = gen (tool consistency pass, a failure is a tool error): the      *)
(* inputs built by lib/c13.py are well-formed and fall into the structural *)
(* class TLC generated them for (no class is claimed but not exercised).   *)
(***************************************************************************)
EXTENDS Bep15, TLC, Json, IOUtils

Rec == ndJsonDeserialize(IOEnv.TRACE)
Judging == IOEnv.MODE = "judge"

VARIABLE l
vars == <<l>>

Init == l = 1

E == Rec[l]
IsEvent(name) == l <= Len(Rec) /\ Rec[l].ev = name /\ l' = l + 1
Has(k) == k \in DOMAIN E

(***************************************************************************)
(* comparison of a recorded result with a reference result                 *)
(***************************************************************************)
ReqFieldsEq(kind, a, f) ==
    CASE kind = "connect"  -> a.tid = f.tid
      [] kind = "announce" ->
           /\ a.cid = f.cid /\ a.tid = f.tid /\ a.hash = f.hash /\ a.pid = f.pid
           /\ a.down = f.down /\ a.left = f.left /\ a.up = f.up /\ a.event = f.event
           /\ a.ip = f.ip /\ a.key = f.key /\ a.numwant = f.numwant /\ a.port = f.port
      [] kind = "scrape" ->
           /\ a.cid = f.cid /\ a.tid = f.tid
           /\ Len(a.hashes) = Len(f.hashes)
           /\ \A i \in 1..Len(f.hashes) : a.hashes[i] = f.hashes[i]

RespFieldsEq(kind, a, f) ==
    CASE kind = "connect"  -> a.tid = f.tid /\ a.cid = f.cid
      [] kind = "announce" ->
           /\ a.tid = f.tid /\ a.interval = f.interval /\ a.leechers = f.leechers
           /\ a.seeders = f.seeders /\ Len(a.peers) = Len(f.peers)
           /\ \A i \in 1..Len(f.peers) : a.peers[i][1] = f.peers[i][1] /\ a.peers[i][2] = f.peers[i][2]
      [] kind = "scrape" ->
           /\ a.tid = f.tid /\ Len(a.stats) = Len(f.stats)
           /\ \A i \in 1..Len(f.stats) : \A j \in 1..3 : a.stats[i][j] = f.stats[i][j]
      [] kind = "error" -> a.tid = f.tid /\ a.msg = f.msg

SameReq(act, ref) == act.kind = ref.kind /\ ReqFieldsEq(ref.kind, act.f, ref.f)

(* accept / reject as the reference says; "ok_padded" leaves the verdict open *)
ReqResultOK(act, ref) ==
    IF ref.class = "ok_padded" THEN act.ok => SameReq(act, ref)
    ELSE /\ act.ok = ref.ok
         /\ ref.ok => SameReq(act, ref)

(***************************************************************************)
(* well-formedness of case inputs (gen pass)                               *)
(***************************************************************************)
WfReqFields(kind, f) ==
    CASE kind = "connect"  -> IsBytes(f.tid, 4)
      [] kind = "announce" ->
           /\ IsBytes(f.cid, 8) /\ IsBytes(f.tid, 4) /\ IsBytes(f.hash, 20) /\ IsBytes(f.pid, 20)
           /\ IsBytes(f.down, 8) /\ IsBytes(f.left, 8) /\ IsBytes(f.up, 8) /\ f.event \in Events
           /\ IsBytes(f.ip, 4) /\ IsBytes(f.key, 4) /\ IsBytes(f.numwant, 4) /\ IsBytes(f.port, 2)
      [] kind = "scrape" ->
           /\ IsBytes(f.cid, 8) /\ IsBytes(f.tid, 4)
           /\ \A i \in 1..Len(f.hashes) : IsBytes(f.hashes[i], 20)

WfRespFields(kind, fam, f) ==
    CASE kind = "connect"  -> IsBytes(f.tid, 4) /\ IsBytes(f.cid, 8)
      [] kind = "announce" ->
           /\ IsBytes(f.tid, 4) /\ IsBytes(f.interval, 4) /\ IsBytes(f.leechers, 4) /\ IsBytes(f.seeders, 4)
           /\ \A i \in 1..Len(f.peers) : IsBytes(f.peers[i][1], IpLen(fam)) /\ IsBytes(f.peers[i][2], 2)
      [] kind = "scrape" ->
           /\ IsBytes(f.tid, 4)
           /\ \A i \in 1..Len(f.stats) : \A j \in 1..3 : IsBytes(f.stats[i][j], 4)
      [] kind = "error" -> IsBytes(f.tid, 4) /\ IsByteSeq(f.msg)

ListLen(kind, f) ==
    CASE kind = "scrape" /\ "hashes" \in DOMAIN f -> Len(f.hashes)
      [] kind = "scrape" -> Len(f.stats)
      [] kind = "announce" /\ "peers" \in DOMAIN f -> Len(f.peers)
      [] kind = "error" -> Len(f.msg)
      [] OTHER -> 0

(* the abstract choices TLC printed for a well-formed message are honoured *)
RtGenOK(dir) ==
    /\ E.gen.dir = dir
    /\ E.gen.kind = E.kind
    /\ (dir = "req" /\ E.kind = "announce") => E.f.event = E.gen.event
    /\ (dir = "resp" /\ E.kind = "announce") => E.fam = E.gen.fam
    /\ ListLen(E.kind, E.f) = E.gen.n

(***************************************************************************)
(* events                                                                  *)
(***************************************************************************)
Reset == IsEvent("reset")

Req ==
    /\ IsEvent("req")
    /\ IF Judging
       THEN /\ ~Has("werr")
            /\ LET ref == EncRequest(E.kind, E.f)
               IN /\ E.wbytes = ref
                  /\ ReqResultOK(E.back, ParseRequest(ref, E.max))
       ELSE /\ E.kind \in {"connect", "announce", "scrape"}
            /\ E.max \in 0..255
            /\ WfReqFields(E.kind, E.f)
            /\ RtGenOK("req")

Parse ==
    /\ IsEvent("parse")
    /\ IF Judging
       THEN ReqResultOK(E.res, ParseRequest(E.bytes, E.max))
       ELSE /\ IsByteSeq(E.bytes)
            /\ E.max \in 0..255
            /\ Has("gen") =>
                 LET ref == ParseRequest(E.bytes, E.max)
                 IN /\ ref.ok = E.gen.x.ok
                    /\ ref.class = E.gen.x.class
                    /\ ref.ok => ref.kind = E.gen.kind
                    /\ (ref.ok /\ ref.kind = "scrape") => Len(ref.f.hashes) = E.gen.x.nh
                    \* the fields the datagram was assembled from are the ones the reference reads
                    /\ (ref.ok /\ Has("f")) =>
                         IF ref.kind = "scrape"
                         THEN ReqFieldsEq("scrape", ref.f,
                                          [E.f EXCEPT !.hashes = SubSeq(E.f.hashes, 1, E.gen.x.nh)])
                         ELSE ReqFieldsEq(ref.kind, ref.f, E.f)

Resp ==
    /\ IsEvent("resp")
    /\ IF Judging
       THEN /\ ~Has("werr")
            /\ LET ref == EncResponse(E.kind, E.fam, E.f)
                   rp == ParseResponse(ref, E.fam)
               IN /\ E.wbytes = ref
                  /\ E.back.ok
                  /\ E.back.kind = E.kind
                  /\ (E.kind = "announce") => E.back.fam = E.fam
                  /\ RespFieldsEq(E.kind, E.back.f, E.f)
                  /\ rp.ok /\ RespFieldsEq(E.kind, E.back.f, rp.f)
       ELSE /\ E.kind \in {"connect", "announce", "scrape", "error"}
            /\ E.fam \in {4, 6}
            /\ WfRespFields(E.kind, E.fam, E.f)
            /\ RtGenOK("resp")

(* conforming reply bytes must be read as the reference reads them *)
PResp ==
    /\ IsEvent("presp")
    /\ LET ref == ParseResponse(E.bytes, E.fam)
       IN IF Judging
          THEN ref.ok => /\ E.res.ok
                         /\ E.res.kind = ref.kind
                         /\ (ref.kind = "announce") => E.res.fam = E.fam
                         /\ RespFieldsEq(ref.kind, E.res.f, ref.f)
          ELSE /\ IsByteSeq(E.bytes)
               /\ E.fam \in {4, 6}
               /\ ref.ok /\ ref.kind = E.kind
               /\ RespFieldsEq(E.kind, ref.f, E.f)
               /\ E.bytes = EncResponse(E.kind, E.fam, E.f)

Next == Reset \/ Req \/ Parse \/ Resp \/ PResp

Spec == Init /\ [][Next]_vars

Remember == TLCSet(1, [l |-> l])

Accepted ==
    LET d == TLCGet("stats").diameter IN
    IF d - 1 = Len(Rec) THEN TRUE
    ELSE /\ PrintT(<<"TRACE_REJECTED", d, ToJson(Rec[d])>>)
         /\ PrintT(<<"LAST_STATE", ToJson(TLCGet(1))>>)
         /\ FALSE
=============================================================================
