SPECIFICATION FairSpec
CONSTANTS
  Workers = {1, 2, 3}
  SocketsPerWorker = 1
  Drop = TRUE
INVARIANTS DropOnlyAfterAllBound ServeOnlyAfterDrop
PROPERTY EventuallyUp
