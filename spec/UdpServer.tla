----------------------------- MODULE UdpServer -----------------------------
(***************************************************************************)
(* The UDP tracker as a function from received datagrams to sent datagrams *)
(* (crates/udp/src/workers/socket/{mio,uring}: read -> parse -> validate   *)
(* connection id -> access list -> swarm -> send).  Properties C06, C03.   *)
(*                                                                         *)
(* A datagram is [src, sport0, class, conn, ...]:                          *)
(*   class  the parser's decision class (Bep15.tla is the byte-level       *)
(*          definition of these classes)                                   *)
(*   conn   how the connection id it carries was obtained: "valid"         *)
(*          (issued by this tracker to this source, within its age),       *)
(*          "stale", "foreign" (issued to another source), "forged",       *)
(*          "other" (issued by another tracker process), "none"            *)
(***************************************************************************)
EXTENDS Naturals, Integers, Sequences, FiniteSets, RefTracker

Classes == {"connect_ok", "connect_badmagic", "connect_short", "short12", "badaction",
            "announce_ok", "announce_ext", "announce_short", "announce_badevent", "announce_port0",
            "scrape_ok", "scrape_empty", "scrape_ragged"}
ConnKinds == {"valid", "stale", "foreign", "forged", "other", "none"}

(* kind of the single reply a datagram causes, or "none" *)
Expect(class, conn, sport0, allowed) ==
    IF sport0 THEN "none"
    ELSE CASE class = "connect_ok" -> "connect"
           [] class \in {"announce_ok", "announce_ext"} ->
                  IF conn = "valid" THEN (IF allowed THEN "announce" ELSE "error") ELSE "none"
           [] class \in {"announce_port0", "scrape_empty", "scrape_ragged"} ->
                  IF conn = "valid" THEN "error" ELSE "none"
           [] class = "scrape_ok" -> IF conn = "valid" THEN "scrape" ELSE "none"
           [] OTHER -> "none"

ReplyLen(kind, npeers, fam, nstats, msglen) ==
    CASE kind = "connect" -> 16
      [] kind = "announce" -> 20 + npeers * (IF fam = 4 THEN 6 ELSE 18)
      [] kind = "scrape" -> 8 + 12 * nstats
      [] kind = "error" -> 8 + msglen

(* canonical source: an IPv4-mapped IPv6 source is the embedded IPv4 address *)
Canon(src) == IF src.class = "v4mapped" THEN [class |-> "v4", host |-> src.host] ELSE src
FamOf(src) == IF Canon(src).class = "v4" THEN 4 ELSE 6

----------------------------------------------------------------------------
(* small behavioural model for TLC *)
CONSTANTS Sources, Hashes, Ports, MaxScrape, Forbidden

VARIABLES store, op
vars == <<store, op>>

Init == store = <<>> /\ op = [name |-> "init"]

Handle(src, sport0, class, conn, h, port, ipfield) ==
    LET kind == Expect(class, conn, sport0, h \notin Forbidden)
        t == <<FamOf(src), h>>
        key == <<Canon(src).host, port>>            \* the request's ip field is never read
    IN /\ op' = [name |-> "datagram", src |-> src, sport0 |-> sport0, class |-> class, conn |-> conn,
                 h |-> h, port |-> port, ipfield |-> ipfield, reply |-> kind,
                 dst |-> IF kind = "none" THEN "nobody" ELSE src,
                 rfam |-> IF kind = "announce" THEN FamOf(src) ELSE 0]
       /\ store' = IF kind = "announce"
                   THEN AnnounceStore(store, t, key, "leeching", [seeder |-> FALSE, deadline |-> 1, pid |-> 0])
                   ELSE store

Next ==
    \E src \in Sources, sport0 \in BOOLEAN, class \in Classes, conn \in ConnKinds,
       h \in Hashes, port \in Ports, ipfield \in {0, 1} :
        Handle(src, sport0, class, conn, h, port, ipfield)

Spec == Init /\ [][Next]_vars

(* C06 *)
ReplyToSender == [][op'.reply # "none" => op'.dst = op'.src]_vars
NoReplyWithoutValidId ==
    [][(op'.reply \in {"announce", "scrape", "error"}) => op'.conn = "valid"]_vars
OnlyConnectUnauthenticated ==
    [][(op'.conn # "valid" /\ op'.reply # "none") =>
         (op'.reply = "connect" /\ ReplyLen("connect", 0, 4, 0, 0) = 16)]_vars
ExactlyOneForWellFormed ==
    [][(~op'.sport0 /\ (op'.class = "connect_ok" \/
          (op'.conn = "valid" /\ op'.class \in {"announce_ok", "announce_ext", "scrape_ok"})))
         => op'.reply # "none"]_vars
Port0Ignored == [][op'.sport0 => (op'.reply = "none" /\ store' = store)]_vars
StateOnlyByValidAnnounce == [][store' # store => op'.reply = "announce"]_vars
FamilyOfSender == [][op'.reply = "announce" => op'.rfam = FamOf(op'.src)]_vars

(* C03: stored keys are canonical sources of announces actually received *)
StoredKeysAreSources ==
    \A t \in DOMAIN store : \A k \in DOMAIN store[t] :
        \E s \in Sources : k[1] = Canon(s).host /\ t[1] = FamOf(s)
=============================================================================
