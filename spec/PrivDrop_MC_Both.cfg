SPECIFICATION Spec
CONSTANTS
  Workers = {1, 2}
  SocketsPerWorker = 2
  Drop = TRUE
INVARIANTS DropOnlyAfterAllBound ServeOnlyAfterDrop
