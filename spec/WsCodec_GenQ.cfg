SPECIFICATION Spec
CONSTANTS
  Concrete = FALSE
  Full = FALSE
INVARIANT LawHolds
INVARIANT Emitted
CHECK_DEADLOCK FALSE
