---------------------------- MODULE HttpSwarm_MC ----------------------------
EXTENDS HttpSwarm, Json

SymKeys == Permutations(Keys)
MCNumWants == {-1, 2, 3}
MCScrapeLists == {<<h>> : h \in Hashes} \cup {<<h1, h2>> : h1 \in Hashes, h2 \in Hashes}
                 \cup {<<h1, h2, h3>> : h1 \in Hashes, h2 \in Hashes, h3 \in Hashes}
GenNumWants == {-1, 2}
GenQNumWants == {2}
GenQScrapeLists == {<<h>> : h \in Hashes}

Id(m) ==
    [t \in DOMAIN m |->
        <<m[t].kind, m[t].nseed,
          [i \in 1..Len(m[t].seq) |->
             <<m[t].seq[i].key, m[t].seq[i].seeder, m[t].seq[i].deadline>>]>>]

EmitEdge == PrintT(<<"EDGE", ToString(Id(tm)), ToJson(op'), ToString(Id(tm'))>>)
=============================================================================
