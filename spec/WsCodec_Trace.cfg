SPECIFICATION Spec
CONSTANTS
  Concrete = TRUE
INVARIANT Remember
POSTCONDITION Accepted
CHECK_DEADLOCK FALSE
