SPECIFICATION Spec
CONSTANTS N = 24  OffByOne = FALSE
INVARIANTS UHSound WsSound LimitOK
CHECK_DEADLOCK FALSE
