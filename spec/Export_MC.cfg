SPECIFICATION Spec
CONSTANTS
  Versions = {1, 2, 3}
  Lines = 3
INVARIANTS PathAlwaysComplete NeverPartial
CHECK_DEADLOCK FALSE
