------------------------------ MODULE WsSwarm ------------------------------
(***************************************************************************)
(* Model of one WebTorrent swarm worker's storage                          *)
(* (crates/ws/src/workers/swarm/storage.rs) together with the socket-side  *)
(* per-connection bookkeeping that produces ConnectionClosed messages      *)
(* (crates/ws/src/workers/socket/connection.rs: announced_info_hashes,     *)
(* ConnectionCleanupData::after_close).                                    *)
(*                                                                         *)
(*   tm[t]      [seq, nseed]: the IndexMap of peers in storage order       *)
(*              (swap_remove semantics) and the cached seeder count.       *)
(*              An entry is [pid, owner, seeder, deadline, exp] where      *)
(*              owner = <<consumer, conn>> and exp maps <<answerer pid,    *)
(*              offer id>> to the deadline of a forwarded, unanswered      *)
(*              offer.                                                     *)
(*   ann[c]     socket side: hash -> peer id announced on connection c     *)
(*   closed     connections that have been closed                          *)
(*   pend       history variable: the offers forwarded and since neither   *)
(*              answered, nor dropped by a cleaning pass, nor orphaned by  *)
(*              the removal of the offering entry; a function              *)
(*              <<hash, offerer, answerer, offer id>> -> deadline kept by  *)
(*              reference rules, independent of the entries' exp maps      *)
(*   op         last operation with arguments and out-messages             *)
(*                                                                         *)
(* Fixed = FALSE models the code before the ownership repairs (owner check *)
(* on the slot key only; ConnectionClosed without owner) and is kept as a  *)
(* negative control: TLC must find the ownership violations in it.         *)
(***************************************************************************)
EXTENDS Naturals, Integers, Sequences, FiniteSets, PeerSelect, RefTracker

CONSTANTS
    Conns,        \* connections <<consumer, slot key>>
    Hashes, Pids, OfferIds,
    Times,        \* values of the worker's clock at announces
    CleanTimes,   \* values of the clock at cleaning passes
    MaxPeerAge, MaxOfferAge, MaxOffers, MaxScrape,
    OfferLists,   \* sequences of offer ids an announce may carry
    ScrapeLists,
    Events, Lefts,   \* Lefts: subset of {0, 1, 2}; 2 = absent
    Fixed

VARIABLES tm, ann, closed, pend, op
vars == <<tm, ann, closed, pend, op>>

TEmpty == [seq |-> <<>>, nseed |-> 0]
TD(h) == IF h \in DOMAIN tm THEN tm[h] ELSE TEmpty

Idx(seq, pid) ==
    IF \E i \in 1..Len(seq) : seq[i].pid = pid
    THEN CHOOSE i \in 1..Len(seq) : seq[i].pid = pid ELSE 0

SwapRemove(seq, i) ==
    IF i = Len(seq) THEN SubSeq(seq, 1, Len(seq) - 1)
    ELSE [j \in 1..(Len(seq) - 1) |-> IF j = i THEN seq[Len(seq)] ELSE seq[j]]

SameOwner(a, b) == IF Fixed THEN a = b ELSE a[2] = b[2]   \* slot key only before the fix

Init ==
    /\ tm = <<>>
    /\ ann = [c \in Conns |-> <<>>]
    /\ closed = {}
    /\ pend = <<>>
    /\ op = [name |-> "init"]

----------------------------------------------------------------------------
(* Storage: TorrentMap::handle_announce_request *)

(* insert_or_update_peer *)
Upsert(td, c, pid, status, now) ==
    LET i == Idx(td.seq, pid) IN
    IF i # 0 THEN
        IF status = "stopped"
        THEN [seq |-> SwapRemove(td.seq, i),
              nseed |-> td.nseed - (IF td.seq[i].seeder THEN 1 ELSE 0)]
        ELSE [seq |-> [td.seq EXCEPT ![i].seeder = (status = "seeding"),
                                     ![i].deadline = now + MaxPeerAge],
              nseed |-> td.nseed - (IF td.seq[i].seeder THEN 1 ELSE 0)
                                 + (IF status = "seeding" THEN 1 ELSE 0)]
    ELSE
        IF status = "stopped" THEN td
        ELSE [seq |-> Append(td.seq, [pid |-> pid, owner |-> c, seeder |-> status = "seeding",
                                      deadline |-> now + MaxPeerAge, exp |-> <<>>]),
              nseed |-> td.nseed + (IF status = "seeding" THEN 1 ELSE 0)]

FnPut(f, k, v) == [x \in DOMAIN f \cup {k} |-> IF x = k THEN v ELSE f[x]]
FnDel(f, k) == [x \in DOMAIN f \ {k} |-> f[x]]

Min3(a, b, c) == Min2(a, Min2(b, c))

(* handle_offers: receivers are positions in td.seq *)
OfferOffsets(td, limit) == WsOffsets(Len(td.seq), limit)

HandleOffers(td, h, pid, offers, now, o) ==
    LET limit == Min2(Len(offers), MaxOffers)
        si    == Idx(td.seq, pid)
        recv  == ExtractWs(Len(td.seq), limit, si, o[1], o[2])
        n     == Min2(Len(offers), Len(recv))
        msgs  == [j \in 1..n |->
                    [kind |-> "offer", to |-> td.seq[recv[j]].owner, h |-> h,
                     from |-> pid, oid |-> offers[j], topid |-> td.seq[recv[j]].pid]]
        RECURSIVE AddExp(_, _)
        AddExp(e, j) == IF j > n THEN e
                        ELSE AddExp(FnPut(e, <<td.seq[recv[j]].pid, offers[j]>>, now + MaxOfferAge), j + 1)
    IN IF si = 0 THEN [td |-> td, msgs |-> <<>>]
       ELSE [td |-> [td EXCEPT !.seq[si].exp = AddExp(td.seq[si].exp, 1)], msgs |-> msgs]

(* handle_answer: answer = <<>> or <<to_pid, oid>> *)
HandleAnswer(td, h, c, pid, answer) ==
    IF answer = <<>> THEN [td |-> td, msgs |-> <<>>]
    ELSE LET ri == Idx(td.seq, answer[1])
             k  == <<pid, answer[2]>>
         IN IF ri = 0 THEN [td |-> td, msgs |-> <<>>]
            ELSE IF k \in DOMAIN td.seq[ri].exp
                 THEN [td |-> [td EXCEPT !.seq[ri].exp = FnDel(td.seq[ri].exp, k)],
                       msgs |-> << [kind |-> "answer", to |-> td.seq[ri].owner, h |-> h,
                                    from |-> pid, oid |-> answer[2], topid |-> answer[1]] >>]
                 ELSE [td |-> td,
                       msgs |-> << [kind |-> "error", to |-> c, h |-> h] >>]

StoreAnnounce(c, h, pid, event, left, offers, answer, now) ==
    LET td0 == TD(h)
        i   == Idx(td0.seq, pid)
        status == Status(event, left)
    IN
    IF i # 0 /\ ~SameOwner(td0.seq[i].owner, c)
    THEN \* ignored: no reply, no effect (the empty torrent entry may be created)
         /\ tm' = FnPut(tm, h, td0)
         /\ op' = [name |-> "announce", c |-> c, h |-> h, pid |-> pid, event |-> event,
                   left |-> left, offers |-> offers, answer |-> answer, now |-> now,
                   out |-> <<>>, ignored |-> TRUE]
    ELSE LET td1 == Upsert(td0, c, pid, status, now) IN
         \E o \in (IF status # "stopped" /\ offers # <<>>
                   THEN OfferOffsets(td1, Min2(Len(offers), MaxOffers)) ELSE {<<0, 0>>}) :
           LET r2 == IF status # "stopped" /\ offers # <<>>
                     THEN HandleOffers(td1, h, pid, offers, now, o)
                     ELSE [td |-> td1, msgs |-> <<>>]
               r3 == IF status # "stopped"
                     THEN HandleAnswer(r2.td, h, c, pid, answer)
                     ELSE [td |-> r2.td, msgs |-> <<>>]
               resp == [kind |-> "announce", to |-> c, h |-> h,
                        seeders |-> r3.td.nseed, leechers |-> Len(r3.td.seq) - r3.td.nseed]
           IN /\ tm' = FnPut(tm, h, r3.td)
              /\ op' = [name |-> "announce", c |-> c, h |-> h, pid |-> pid, event |-> event,
                        left |-> left, offers |-> offers, answer |-> answer, now |-> now,
                        out |-> r2.msgs \o r3.msgs \o <<resp>>, ignored |-> FALSE]

----------------------------------------------------------------------------
(* Socket side + storage, one action per client-visible event *)

(* reference bookkeeping of pending offers *)
PendDropOfferer(pd, h, P) == [k \in {k \in DOMAIN pd : ~(k[1] = h /\ k[2] \in P)} |-> pd[k]]

PendAfterAnnounce(o) ==
    IF o.ignored THEN pend
    ELSE LET status == Status(o.event, o.left)
             p0 == IF status = "stopped" THEN PendDropOfferer(pend, o.h, {o.pid}) ELSE pend
             offs == SelectSeq(o.out, LAMBDA m : m.kind = "offer")
             RECURSIVE Add(_, _)
             Add(pd, j) == IF j > Len(offs) THEN pd
                           ELSE Add(FnPut(pd, <<o.h, o.pid, offs[j].topid, offs[j].oid>>, o.now + MaxOfferAge), j + 1)
             p1 == Add(p0, 1)
             answs == SelectSeq(o.out, LAMBDA m : m.kind = "answer")
         IN IF answs = <<>> THEN p1
            ELSE FnDel(p1, <<o.h, answs[1].topid, o.pid, answs[1].oid>>)

(* after_close -> ConnectionClosed -> handle_connection_closed *)
CloseTD(td, c, pid) ==
    LET i == Idx(td.seq, pid) IN
    IF i = 0 THEN td
    ELSE IF Fixed /\ td.seq[i].owner # c THEN td
    ELSE [seq |-> SwapRemove(td.seq, i),
          nseed |-> td.nseed - (IF td.seq[i].seeder THEN 1 ELSE 0)]

CloseEffects(c) ==
    /\ closed' = closed \cup {c}
    /\ tm' = [h \in DOMAIN tm |->
                 IF h \in DOMAIN ann[c] THEN CloseTD(tm[h], c, ann[c][h]) ELSE tm[h]]
    /\ ann' = [ann EXCEPT ![c] = <<>>]
    \* reference: the offers of the entries this connection created die with them
    /\ pend' = [k \in {k \in DOMAIN pend :
                         ~(\E i \in 1..Len(TD(k[1]).seq) :
                              TD(k[1]).seq[i].pid = k[2] /\ TD(k[1]).seq[i].owner = c)} |-> pend[k]]

Announce(c, h, pid, event, left, offers, answer, now) ==
    /\ c \notin closed
    /\ IF h \in DOMAIN ann[c] /\ ann[c][h] # pid
       THEN \* second peer id for a torrent: refused with an error, connection ends
            /\ op' = [name |-> "refused", c |-> c, h |-> h, pid |-> pid, announced |-> ann[c]]
            /\ CloseEffects(c)
       ELSE /\ ann' = [ann EXCEPT ![c] = IF event = "stopped" THEN FnDel(ann[c], h)
                                         ELSE FnPut(ann[c], h, pid)]
            /\ StoreAnnounce(c, h, pid, event, left, offers, answer, now)
            /\ pend' = PendAfterAnnounce(op')
            /\ UNCHANGED closed

FirstN(s, n) == SubSeq(s, 1, IF Len(s) <= n THEN Len(s) ELSE n)

Scrape(c, hs) ==
    /\ c \notin closed
    /\ op' = [name |-> "scrape", c |-> c, hs |-> hs,
              reply |-> {<<h, tm[h].nseed, Len(tm[h].seq) - tm[h].nseed>> :
                            h \in SeqRange(FirstN(hs, MaxScrape)) \cap DOMAIN tm}]
    /\ UNCHANGED <<tm, ann, closed, pend>>

Close(c) ==
    /\ c \notin closed
    /\ CloseEffects(c)
    /\ op' = [name |-> "close", c |-> c, announced |-> ann[c]]

(* TorrentMap::clean *)
CleanTD(td, now) ==
    LET pruned == [i \in 1..Len(td.seq) |->
                     [td.seq[i] EXCEPT !.exp =
                        [k \in {k \in DOMAIN td.seq[i].exp : td.seq[i].exp[k] > now} |-> td.seq[i].exp[k]]]]
        kept == SelectSeq(pruned, LAMBDA e : e.deadline > now)
        gone == SelectSeq(pruned, LAMBDA e : ~(e.deadline > now))
    IN [seq |-> kept,
        nseed |-> td.nseed - Cardinality({i \in 1..Len(gone) : gone[i].seeder})]

Clean(now, forbidden) ==
    LET live == {h \in DOMAIN tm : h \notin forbidden /\ Len(CleanTD(tm[h], now).seq) > 0}
    IN /\ tm' = [h \in live |-> CleanTD(tm[h], now)]
       /\ op' = [name |-> "clean", now |-> now, forbidden |-> forbidden]
       \* reference: expired offers and the offers of removed entries are dropped
       /\ pend' = [k \in {k \in DOMAIN pend :
                            /\ pend[k] > now
                            /\ k[1] \in live
                            /\ \E i \in 1..Len(tm[k[1]].seq) :
                                 tm[k[1]].seq[i].pid = k[2] /\ tm[k[1]].seq[i].deadline > now} |-> pend[k]]
       /\ UNCHANGED <<ann, closed>>

Next ==
    \/ \E c \in Conns, h \in Hashes, pid \in Pids, event \in Events, left \in Lefts,
          offers \in OfferLists, now \in Times :
          \E answer \in {<<>>} \cup (Pids \X OfferIds) :
             Announce(c, h, pid, event, left, offers, answer, now)
    \/ \E c \in Conns, hs \in ScrapeLists : Scrape(c, hs)
    \/ \E c \in Conns : Close(c)
    \/ \E now \in CleanTimes : Clean(now, {})

Spec == Init /\ [][Next]_vars

----------------------------------------------------------------------------
(* Reference semantics (C08 / C09) and what TLC decides *)

Core(e) == [owner |-> e.owner, seeder |-> e.seeder, deadline |-> e.deadline]

(* abstraction: torrent -> pid -> core entry; empty torrents dropped *)
Abs(m) ==
    LET live == {h \in DOMAIN m : Len(m[h].seq) > 0}
    IN [h \in live |->
          [p \in {m[h].seq[i].pid : i \in 1..Len(m[h].seq)} |-> Core(m[h].seq[Idx(m[h].seq, p)])]]

(* pending offers: set of <<h, offerer, answerer, oid, deadline>> *)
Pending(m) ==
    UNION {UNION {{<<h, m[h].seq[i].pid, k[1], k[2], m[h].seq[i].exp[k]>> : k \in DOMAIN m[h].seq[i].exp}
                  : i \in 1..Len(m[h].seq)} : h \in DOMAIN m}

TypeOK ==
    \A h \in DOMAIN tm :
        /\ tm[h].nseed = Cardinality({i \in 1..Len(tm[h].seq) : tm[h].seq[i].seeder})
        /\ \A i, j \in 1..Len(tm[h].seq) : tm[h].seq[i].pid = tm[h].seq[j].pid => i = j

(* ClosedLeavesNothing: nothing owned by a closed connection stays stored *)
(* C09: the entries' expectation maps are exactly the reference's pending offers *)
PendingFaithful == Pending(tm) = {<<k[1], k[2], k[3], k[4], pend[k]>> : k \in DOMAIN pend}

ClosedLeavesNothing ==
    \A h \in DOMAIN tm : \A i \in 1..Len(tm[h].seq) : tm[h].seq[i].owner \notin closed

(* the socket-side map agrees with what the connection owns *)
AnnConsistent ==
    \A c \in Conns : \A h \in DOMAIN tm : \A i \in 1..Len(tm[h].seq) :
        tm[h].seq[i].owner = c => (h \in DOMAIN ann[c] /\ ann[c][h] = tm[h].seq[i].pid)

RefPeers(a, h) == IF h \in DOMAIN a THEN a[h] ELSE <<>>

StepRefines ==
    LET a == Abs(tm)  b == Abs(tm')  o == op' IN
    CASE o.name = "announce" ->
           LET pm == RefPeers(a, o.h)
               foreign == o.pid \in DOMAIN pm /\ pm[o.pid].owner # o.c
               status == Status(o.event, o.left)
           IN IF foreign
              THEN \* ignored, no reply, no effect
                   /\ b = a /\ o.out = <<>> /\ pend' = pend
              ELSE LET entry == [owner |-> o.c, seeder |-> status = "seeding",
                                 deadline |-> o.now + MaxPeerAge]
                       newpm == IF status = "stopped" THEN Without(pm, o.pid)
                                ELSE FnPut(pm, o.pid, entry)
                       resp == o.out[Len(o.out)]
                       offs == SelectSeq(o.out, LAMBDA m : m.kind = "offer")
                       others == DOMAIN newpm \ {o.pid}
                       want == IF status = "stopped" THEN 0
                               ELSE Min3(Len(o.offers), MaxOffers, Cardinality(others))
                   IN /\ b = Put(a, o.h, newpm)
                      \* exactly one reply, last, to the sender, counts include it
                      /\ resp.kind = "announce" /\ resp.to = o.c
                      /\ resp.seeders = NumSeeders(newpm)
                      /\ resp.leechers = NumLeechers(newpm)
                      /\ \A j \in 1..(Len(o.out) - 1) : o.out[j].kind # "announce"
                      \* C09 offers
                      /\ Len(offs) = want
                      /\ \A j \in 1..Len(offs) :
                           /\ offs[j].oid = o.offers[j]
                           /\ offs[j].from = o.pid
                           /\ offs[j].topid \in others
                           /\ offs[j].to = newpm[offs[j].topid].owner
                      /\ \A j, k \in 1..Len(offs) : offs[j].topid = offs[k].topid => j = k
              \* C09 answers
                      /\ LET answs == SelectSeq(o.out, LAMBDA m : m.kind = "answer")
                             errs  == SelectSeq(o.out, LAMBDA m : m.kind = "error")
                             \* pending before this announce, after this announce's own offers
                             legit == /\ o.answer # <<>> /\ status # "stopped"
                                      /\ o.answer[1] \in DOMAIN newpm
                                      /\ <<o.h, o.answer[1], o.pid, o.answer[2]>> \in DOMAIN pend
                         IN /\ Len(answs) = (IF legit THEN 1 ELSE 0)
                            /\ legit => /\ answs[1].to = newpm[o.answer[1]].owner
                                        /\ answs[1].from = o.pid /\ answs[1].oid = o.answer[2]
                            /\ \A j \in 1..Len(errs) : errs[j].to = o.c
      [] o.name = "refused" ->
           b = [h \in {h \in DOMAIN a : \E p \in DOMAIN a[h] : a[h][p].owner # o.c} |->
                  [p \in {p \in DOMAIN a[h] : a[h][p].owner # o.c} |-> a[h][p]]]
      [] o.name = "scrape" ->
           /\ b = a
           /\ \A x \in o.reply : x[1] \in SeqRange(o.hs)
           /\ \A h \in SeqRange(FirstN(o.hs, MaxScrape)) :
                IF h \in DOMAIN a
                THEN \E x \in o.reply : x[1] = h /\ x[2] = NumSeeders(a[h]) /\ x[3] = NumLeechers(a[h])
                ELSE \A x \in o.reply : x[1] = h => (x[2] = 0 /\ x[3] = 0)
      [] o.name = "close" ->
           \* removes exactly the entries the closing connection created
           b = [h \in {h \in DOMAIN a : \E p \in DOMAIN a[h] : a[h][p].owner # o.c} |->
                  [p \in {p \in DOMAIN a[h] : a[h][p].owner # o.c} |-> a[h][p]]]
      [] o.name = "clean" ->
           /\ b = [h \in {h \in DOMAIN a : \E p \in DOMAIN a[h] : a[h][p].deadline > o.now} |->
                     [p \in {p \in DOMAIN a[h] : a[h][p].deadline > o.now} |-> a[h][p]]]

      [] OTHER -> TRUE

RefinesReference == [][StepRefines]_vars

(* An entry changes only through its owner, by expiry, or by cleaning *)
OwnershipStep ==
    LET o == op' IN
    (o.name \in {"announce", "close", "refused"}) =>
        \A h \in DOMAIN Abs(tm) : \A p \in DOMAIN Abs(tm)[h] :
            Abs(tm)[h][p].owner # o.c =>
                (h \in DOMAIN Abs(tm') /\ p \in DOMAIN Abs(tm')[h] /\ Abs(tm')[h][p] = Abs(tm)[h][p])

Ownership == [][OwnershipStep]_vars

View == <<tm, ann, closed, pend>>
=============================================================================
