SPECIFICATION Spec
INVARIANTS Emit RuleSound
CHECK_DEADLOCK FALSE
