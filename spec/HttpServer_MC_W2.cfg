SPECIFICATION Spec
CONSTANTS
  Conns = {c1, c2}
  W = 2
  Hashes = {1, 2}
  Keys = {k1}
  MaxScrape = 2
  KeepAlive = TRUE
  ScrapeLists <- MCScrapeLists
  TruncateFirst = TRUE
  BlankFirst = TRUE
  MaxReq = 2
INVARIANTS WellFramed InOrder WorkersInvisible
PROPERTIES Isolation
CHECK_DEADLOCK FALSE
