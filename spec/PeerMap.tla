----------------------------- MODULE PeerMap -----------------------------
(***************************************************************************)
(* Implementation-shaped per-torrent peer map of the UDP and HTTP trackers *)
(* (crates/udp/src/swarm.rs PeerMap / SmallPeerMap / LargePeerMap and      *)
(* crates/http/src/workers/swarm/storage.rs TorrentData).                  *)
(*                                                                         *)
(* A peer map is [kind, seq, nseed]:                                       *)
(*   kind  "small" (ArrayVec, capacity Cap) or "large" (IndexMap)          *)
(*   seq   the entries in storage order: [key, seeder, deadline, pid]      *)
(*   nseed the cached num_seeders of the large variant (0 for small)       *)
(* Order matters: replies are prefixes / slices of seq.                    *)
(***************************************************************************)
EXTENDS Naturals, Integers, Sequences, FiniteSets, PeerSelect

PMEmpty == [kind |-> "small", seq |-> <<>>, nseed |-> 0]

IdxOf(seq, key) ==
    IF \E i \in 1..Len(seq) : seq[i].key = key
    THEN CHOOSE i \in 1..Len(seq) : seq[i].key = key
    ELSE 0

(* ArrayVec::remove(i): later elements shift down *)
RemoveShift(seq, i) == SubSeq(seq, 1, i - 1) \o SubSeq(seq, i + 1, Len(seq))

(* IndexMap::swap_remove: the last element takes the place of the removed *)
SwapRemove(seq, i) ==
    IF i = Len(seq) THEN SubSeq(seq, 1, Len(seq) - 1)
    ELSE [j \in 1..(Len(seq) - 1) |-> IF j = i THEN seq[Len(seq)] ELSE seq[j]]

CountSeeders(seq) == Cardinality({i \in 1..Len(seq) : seq[i].seeder})

KeysOf(seq) == [i \in 1..Len(seq) |-> seq[i].key]
KeySet(seq) == {seq[i].key : i \in 1..Len(seq)}

Pick(seq, idxs) == [i \in 1..Len(idxs) |-> seq[idxs[i]].key]

(* retain(valid): order preserving for both ArrayVec and IndexMap *)
Retain(seq, now) == SelectSeq(seq, LAMBDA e : e.deadline > now)
Expired(seq, now) == SelectSeq(seq, LAMBDA e : ~(e.deadline > now))

(* LargePeerMap::try_shrink *)
TryShrink(pm, Cap) ==
    IF pm.kind = "large" /\ Len(pm.seq) <= Cap
    THEN [kind |-> "small", seq |-> pm.seq, nseed |-> 0]
    ELSE pm

(* (seeders, leechers) as the code computes them *)
SL(pm) ==
    IF pm.kind = "small"
    THEN <<CountSeeders(pm.seq), Len(pm.seq) - CountSeeders(pm.seq)>>
    ELSE <<pm.nseed, Len(pm.seq) - pm.nseed>>

(* Offsets that the RNG may draw for this announce *)
AnnOffsets(pm, key, limit) ==
    IF pm.kind = "small" THEN {<<0, 0>>}
    ELSE LET len == Len(pm.seq) - (IF IdxOf(pm.seq, key) = 0 THEN 0 ELSE 1)
         IN  UHOffsets(len, limit)

(***************************************************************************)
(* PeerMap::announce / TorrentData::upsert_peer_and_get_response_peers.    *)
(* Result: [pm, seeders, leechers, peers, removed] where removed is the    *)
(* entry stored under key before, as a sequence of length 0 or 1.                      *)
(***************************************************************************)
PMAnnounce(pm, Cap, key, status, entry, limit, o1, o2) ==
    LET i == IdxOf(pm.seq, key)
        removed == IF i = 0 THEN <<>> ELSE <<pm.seq[i]>>
    IN
    IF pm.kind = "small" THEN
        LET s1 == IF i = 0 THEN pm.seq ELSE RemoveShift(pm.seq, i)
            ns == CountSeeders(s1)
            peers == KeysOf(SubSeq(s1, 1, IF Len(s1) <= limit THEN Len(s1) ELSE limit))
            conv == Len(s1) = Cap /\ status # "stopped"
            s2 == IF status = "stopped" THEN s1 ELSE Append(s1, entry)
        IN [pm |-> [kind |-> IF conv THEN "large" ELSE "small",
                    seq |-> s2,
                    nseed |-> IF conv THEN ns + (IF entry.seeder THEN 1 ELSE 0) ELSE 0],
            seeders |-> ns, leechers |-> Len(s1) - ns,
            peers |-> peers, removed |-> removed]
    ELSE
        LET s1 == IF i = 0 THEN pm.seq ELSE SwapRemove(pm.seq, i)
            ns == IF i # 0 /\ pm.seq[i].seeder THEN pm.nseed - 1 ELSE pm.nseed
            peers == Pick(s1, ExtractUH(Len(s1), limit, o1, o2))
            after == IF status = "stopped"
                     THEN TryShrink([kind |-> "large", seq |-> s1, nseed |-> ns], Cap)
                     ELSE [kind |-> "large", seq |-> Append(s1, entry),
                           nseed |-> ns + (IF entry.seeder THEN 1 ELSE 0)]
        IN [pm |-> after,
            seeders |-> ns, leechers |-> Len(s1) - ns,
            peers |-> peers, removed |-> removed]

(* cleaning of one peer map.  shrink: UDP calls try_shrink after cleaning a *)
(* large map, HTTP does not.                                               *)
PMClean(pm, Cap, now, shrink) ==
    LET kept == Retain(pm.seq, now)
        gone == Expired(pm.seq, now)
        ns   == IF pm.kind = "small" THEN 0
                ELSE pm.nseed - CountSeeders(gone)
        p1   == [kind |-> pm.kind, seq |-> kept, nseed |-> ns]
    IN  [pm |-> IF shrink THEN TryShrink(p1, Cap) ELSE p1,
         gone |-> gone,
         seeders |-> IF pm.kind = "small" THEN CountSeeders(kept) ELSE ns,
         leechers |-> IF pm.kind = "small" THEN Len(kept) - CountSeeders(kept)
                      ELSE Len(kept) - ns]

(* Abstraction to the reference store's per-torrent function *)
AbsPM(pm) ==
    [k \in KeySet(pm.seq) |->
        LET e == pm.seq[IdxOf(pm.seq, k)]
        IN [seeder |-> e.seeder, deadline |-> e.deadline, pid |-> e.pid]]

(* Representation invariants *)
PMWellFormed(pm, Cap, strictLarge) ==
    /\ \A i, j \in 1..Len(pm.seq) : pm.seq[i].key = pm.seq[j].key => i = j
    /\ pm.kind = "small" => Len(pm.seq) <= Cap /\ pm.nseed = 0
    /\ pm.kind = "large" => pm.nseed = CountSeeders(pm.seq)
    /\ (strictLarge /\ pm.kind = "large") => Len(pm.seq) > Cap
=============================================================================
