SPECIFICATION Spec
CONSTANTS
  Fams = {4}
  Hashes = {1}
  Keys = {k1, k2, k3, k4, k5}
  Deadlines = {1}
  Nows = {0, 1}
  NumWants <- GenNumWants
  MaxPeers = 4
  MaxScrape = 2
  Cap = 4
  ScrapeLists <- MCScrapeLists
  Events = {"started", "stopped"}
  Lefts = {0, 1}
VIEW View
ACTION_CONSTRAINT EmitEdge
CHECK_DEADLOCK FALSE
