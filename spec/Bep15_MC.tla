------------------------------ MODULE Bep15_MC ------------------------------
(***************************************************************************)
(* Spec-internal laws of the BEP 15 reference codec, checked by TLC.       *)
(*                                                                         *)
(* The "state graph" is the tree  root -> group -> leaf  of input classes. *)
(* Every leaf is one input (a message of the enumerated field space or a   *)
(* structurally malformed datagram); the invariant Law states, per group,  *)
(* what the codec must do on it, in a formulation independent of the       *)
(* definitions in Bep15 (BEP 15 offset table instead of concatenation      *)
(* order, closed-form classification instead of the parser's case order).  *)
(***************************************************************************)
EXTENDS Bep15, TLC

CONSTANT NPat   \* value patterns per announce field in the round-trip space (2..4)
ASSUME NPat \in 2..4

VARIABLE c   \* [g : "root" | "group" | "leaf", grp : name, i : index]

(***************************************************************************)
(* field value patterns; a field at wire offset off of n bytes             *)
(***************************************************************************)
PatA(off, n) == [j \in 1..n |-> (off + j - 1) % 256]          \* all bytes of a message distinct
PatB(off, n) == [j \in 1..n |-> 255 - ((off + j - 1) % 256)]
Zeros(n) == [j \in 1..n |-> 0]
Ones(n) == [j \in 1..n |-> 255]
Pad(off, n) == [j \in 1..n |-> (3 * (off + j) + 1) % 256]
Pat(bit, off, n) == IF bit = 0 THEN PatA(off, n) ELSE PatB(off, n)
Pat4(k, off, n) == CASE k = 0 -> PatA(off, n) [] k = 1 -> PatB(off, n)
                     [] k = 2 -> Zeros(n) [] k = 3 -> Ones(n)
Bit(i, k) == (i \div (2 ^ k)) % 2
Dig(i, k) == (i \div (NPat ^ k)) % NPat

EvSeq == <<"none", "completed", "started", "stopped">>
(* BEP 15 event numbers, stated a second time *)
EvTable == [none |-> <<0, 0, 0, 0>>, completed |-> <<0, 0, 0, 1>>,
            started |-> <<0, 0, 0, 2>>, stopped |-> <<0, 0, 0, 3>>]

OkRes(res, kind, f) == /\ res.ok /\ res.class = "ok" /\ res.kind = kind /\ res.f = f
Rej(res, why) == ~res.ok /\ res.class = why

MaxSet == {0, 1, 2, 3, 70, 255}

(***************************************************************************)
(* round trips over the enumerated field space + BEP 15 offset tables      *)
(***************************************************************************)
RtConnectN == 4
RtConnect(i) ==
    LET r == [tid |-> Pat4(i, 12, 4)]
        e == EncConnectReq(r)
    IN /\ Len(e) = 16 /\ IsByteSeq(e)
       /\ At(e, 0, 8) = <<0, 0, 4, 23, 39, 16, 25, 128>>
       /\ At(e, 8, 4) = <<0, 0, 0, 0>>
       /\ At(e, 12, 4) = r.tid
       /\ \A m \in MaxSet : OkRes(ParseRequest(e, m), "connect", r)

AnnOf(d(_), ev) ==
    [cid |-> Pat4(d(0), 0, 8), tid |-> Pat4(d(1), 12, 4), hash |-> Pat4(d(2), 16, 20),
     pid |-> Pat4(d(3), 36, 20), down |-> Pat4(d(4), 56, 8), left |-> Pat4(d(5), 64, 8),
     up |-> Pat4(d(6), 72, 8), ip |-> Pat4(d(7), 84, 4), key |-> Pat4(d(8), 88, 4),
     numwant |-> Pat4(d(9), 92, 4),
     \* pattern 2 (all zero) is not a port: the all-ones pattern takes its place
     port |-> Pat4(IF d(10) = 2 THEN 3 ELSE d(10), 96, 2),
     event |-> ev]
AnnReq(i) == LET d(k) == Dig(i, k) IN AnnOf(d, EvSeq[(i \div (NPat ^ 11)) + 1])
RtAnnounceN == (NPat ^ 11) * 4
RtAnnounce(i) ==
    LET r == AnnReq(i)
        e == EncAnnounceReq(r)
    IN /\ Len(e) = 98 /\ IsByteSeq(e)
       /\ At(e, 0, 8) = r.cid /\ At(e, 8, 4) = <<0, 0, 0, 1>> /\ At(e, 12, 4) = r.tid
       /\ At(e, 16, 20) = r.hash /\ At(e, 36, 20) = r.pid /\ At(e, 56, 8) = r.down
       /\ At(e, 64, 8) = r.left /\ At(e, 72, 8) = r.up /\ At(e, 80, 4) = EvTable[r.event]
       /\ At(e, 84, 4) = r.ip /\ At(e, 88, 4) = r.key /\ At(e, 92, 4) = r.numwant
       /\ At(e, 96, 2) = r.port
       /\ \A m \in {0, 255} : OkRes(ParseRequest(e, m), "announce", r)
       \* extension bytes (BEP 41) after the 98 bytes are ignored
       /\ \A x \in {<<0>>, <<2, 5, 47, 97, 110, 110, 1, 0>>, Pad(98, 22)} :
            OkRes(ParseRequest(e \o x, 1), "announce", r)

HashNo(k) == [j \in 1..20 |-> (37 * k + j) % 256]
RtScrapeN == 4 * 6
RtScrape(i) ==
    LET n == i \div 4
        r == [cid |-> Pat(Bit(i, 0), 0, 8), tid |-> Pat(Bit(i, 1), 12, 4),
              hashes |-> [k \in 1..n |-> HashNo(k)]]
        e == EncScrapeReq(r)
    IN /\ Len(e) = 16 + 20 * n /\ IsByteSeq(e)
       /\ At(e, 0, 8) = r.cid /\ At(e, 8, 4) = <<0, 0, 0, 2>> /\ At(e, 12, 4) = r.tid
       /\ \A k \in 1..n : At(e, 16 + 20 * (k - 1), 20) = r.hashes[k]
       /\ \A m \in MaxSet :
            IF n = 0 THEN Rej(ParseRequest(e, m), "no_hashes")
            ELSE OkRes(ParseRequest(e, m), "scrape",
                       [r EXCEPT !.hashes = SubSeq(r.hashes, 1, Min(m, n))])
       /\ (n > 0) => OkRes(ParseRequest(e, n), "scrape", r)

RtRespConnectN == 16
RtRespConnect(i) ==
    LET r == [tid |-> Pat4(i % 4, 4, 4), cid |-> Pat4(i \div 4, 8, 8)]
        e == EncConnectResp(r)
    IN /\ Len(e) = 16 /\ IsByteSeq(e)
       /\ At(e, 0, 4) = <<0, 0, 0, 0>> /\ At(e, 4, 4) = r.tid /\ At(e, 8, 8) = r.cid
       /\ \A fam \in {4, 6} : OkRes(ParseResponse(e, fam), "connect", r)

PeerNo(fam, k) == <<[j \in 1..IpLen(fam) |-> (50 * k + j) % 256], <<k, 255 - k>>>>
RtRespAnnounceN == 2 * 16 * 5
RtRespAnnounce(i) ==
    LET fam == IF i % 2 = 0 THEN 4 ELSE 6
        q == (i \div 2) % 16
        n == i \div 32
        r == [tid |-> Pat(Bit(q, 0), 4, 4), interval |-> Pat(Bit(q, 1), 8, 4),
              leechers |-> Pat(Bit(q, 2), 12, 4), seeders |-> Pat(Bit(q, 3), 16, 4),
              peers |-> [k \in 1..n |-> PeerNo(fam, k)]]
        e == EncAnnounceResp(fam, r)
        pl == IF fam = 4 THEN 6 ELSE 18
    IN /\ Len(e) = 20 + pl * n /\ IsByteSeq(e)
       /\ At(e, 0, 4) = <<0, 0, 0, 1>> /\ At(e, 4, 4) = r.tid /\ At(e, 8, 4) = r.interval
       /\ At(e, 12, 4) = r.leechers /\ At(e, 16, 4) = r.seeders
       /\ \A k \in 1..n : /\ At(e, 20 + pl * (k - 1), pl - 2) = r.peers[k][1]
                          /\ At(e, 20 + pl * (k - 1) + pl - 2, 2) = r.peers[k][2]
       /\ OkRes(ParseResponse(e, fam), "announce", r)

StatNo(k) == <<<<0, 0, k, 1>>, <<0, 0, k, 2>>, <<0, 0, k, 3>>>>
RtRespScrapeN == 4 * 5
RtRespScrape(i) ==
    LET n == i \div 4
        r == [tid |-> Pat4(i % 4, 4, 4), stats |-> [k \in 1..n |-> StatNo(k)]]
        e == EncScrapeResp(r)
    IN /\ Len(e) = 8 + 12 * n /\ IsByteSeq(e)
       /\ At(e, 0, 4) = <<0, 0, 0, 2>> /\ At(e, 4, 4) = r.tid
       /\ \A k \in 1..n : /\ At(e, 8 + 12 * (k - 1), 4) = <<0, 0, k, 1>>    \* seeders
                          /\ At(e, 12 + 12 * (k - 1), 4) = <<0, 0, k, 2>>   \* completed
                          /\ At(e, 16 + 12 * (k - 1), 4) = <<0, 0, k, 3>>   \* leechers
       /\ \A fam \in {4, 6} : OkRes(ParseResponse(e, fam), "scrape", r)

RtRespErrorN == 4 * 5
RtRespError(i) ==
    LET n == i \div 4
        r == [tid |-> Pat4(i % 4, 4, 4), msg |-> [k \in 1..n |-> 64 + k]]
        e == EncError(r)
    IN /\ Len(e) = 8 + n /\ IsByteSeq(e)
       /\ At(e, 0, 4) = <<0, 0, 0, 3>> /\ At(e, 4, 4) = r.tid /\ At(e, 8, n) = r.msg
       /\ \A fam \in {4, 6} : OkRes(ParseResponse(e, fam), "error", r)

(***************************************************************************)
(* structural classes of request datagrams: parameters, the datagram built *)
(* from canonical field values, and the expected decision in closed form   *)
(***************************************************************************)
BaseAnn == LET d(k) == 0 IN AnnOf(d, "started")     \* all fields PatA
BaseConn == [tid |-> PatA(12, 4)]
Kinds3 == <<"connect", "announce", "scrape">>
(* 120 bytes: the message followed by padding / further hash bytes *)
Base120(kind) ==
    CASE kind = "connect"  -> EncConnectReq(BaseConn) \o Pad(16, 104)
      [] kind = "announce" -> EncAnnounceReq(BaseAnn) \o Pad(98, 22)
      [] kind = "scrape"   -> PatA(0, 8) \o BE32(2) \o PatA(12, 4) \o Pad(16, 104)
BaseMsg(kind) ==
    CASE kind = "connect"  -> SubSeq(Base120(kind), 1, 16)
      [] kind = "announce" -> SubSeq(Base120(kind), 1, 98)
      [] kind = "scrape"   -> SubSeq(Base120(kind), 1, 36)
Patch(b, off, x) == [j \in 1..Len(b) |-> IF j > off /\ j <= off + Len(x) THEN x[j - off] ELSE b[j]]

X(ok, class, nh) == [ok |-> ok, class |-> class, nh |-> nh]

(* truncation: kind x length 0..120 x maxScrape *)
TruncMax == <<0, 1, 2, 255>>
TruncN == 3 * 121 * 4
TruncP(i) == [kind |-> Kinds3[(i \div 484) + 1], len |-> (i % 484) \div 4, max |-> TruncMax[(i % 4) + 1]]
TruncBytes(p) == SubSeq(Base120(p.kind), 1, p.len)
TruncX(p) ==
    IF p.len < 16 THEN X(FALSE, "too_few", 0)
    ELSE CASE p.kind = "connect" -> X(TRUE, IF p.len = 16 THEN "ok" ELSE "ok_padded", 0)
           [] p.kind = "announce" -> IF p.len < 98 THEN X(FALSE, "too_few", 0) ELSE X(TRUE, "ok", 0)
           [] p.kind = "scrape" ->
                IF p.len = 16 THEN X(FALSE, "no_hashes", 0)
                ELSE IF (p.len - 16) % 20 # 0 THEN X(FALSE, "not_multiple", 0)
                ELSE X(TRUE, "ok", Min(p.max, (p.len - 16) \div 20))

(* the fields an accepted structural case must yield *)
FieldsOf(kind, b, nh) ==
    CASE kind = "connect"  -> [tid |-> At(b, 12, 4)]
      [] kind = "announce" -> BaseAnn
      [] kind = "scrape"   -> [cid |-> At(b, 0, 8), tid |-> At(b, 12, 4),
                               hashes |-> [k \in 1..nh |-> At(b, 16 + 20 * (k - 1), 20)]]

Decides(b, max, kind, x) ==
    LET res == ParseRequest(b, max)
    IN /\ res.ok = x.ok
       /\ res.class = x.class
       /\ x.ok => /\ res.kind = kind
                  /\ res.f = FieldsOf(kind, b, x.nh)
                  /\ (kind = "scrape") => Len(res.f.hashes) = x.nh

(* action: base message x action bytes *)
Actions == <<<<0, 0, 0, 0>>, <<0, 0, 0, 1>>, <<0, 0, 0, 2>>, <<0, 0, 0, 3>>, <<0, 0, 0, 4>>,
             <<1, 0, 0, 0>>, <<2, 0, 0, 0>>, <<0, 0, 1, 0>>, <<0, 1, 0, 2>>, <<128, 0, 0, 1>>,
             <<0, 0, 0, 255>>, <<255, 255, 255, 255>>>>
ActionN == 3 * Len(Actions)
ActionP(i) == [kind |-> Kinds3[(i \div Len(Actions)) + 1], action |-> Actions[(i % Len(Actions)) + 1]]
ActionBytes(p) == Patch(BaseMsg(p.kind), 8, p.action)
OwnAction(kind) == CASE kind = "connect" -> <<0, 0, 0, 0>> [] kind = "announce" -> <<0, 0, 0, 1>>
                     [] kind = "scrape" -> <<0, 0, 0, 2>>
ActionX(p) ==
    IF p.action = OwnAction(p.kind) THEN X(TRUE, "ok", 1)
    ELSE IF p.action \notin {<<0, 0, 0, 0>>, <<0, 0, 0, 1>>, <<0, 0, 0, 2>>} THEN X(FALSE, "bad_action", 0)
    \* a message of one kind relabelled as another kind
    ELSE CASE p.action = <<0, 0, 0, 0>> -> X(FALSE, "bad_magic", 0)           \* cid pattern is not the magic
           [] p.action = <<0, 0, 0, 1>> -> X(FALSE, "too_few", 0)            \* 16 or 36 bytes < 98
           [] p.kind = "connect" -> X(FALSE, "no_hashes", 0)                 \* 16 bytes as a scrape
           [] OTHER -> X(FALSE, "not_multiple", 0)                           \* 98 bytes as a scrape: 82 % 20 # 0

(* event: announce with the event bytes replaced *)
EventBs == <<<<0, 0, 0, 0>>, <<0, 0, 0, 1>>, <<0, 0, 0, 2>>, <<0, 0, 0, 3>>, <<0, 0, 0, 4>>,
             <<1, 0, 0, 0>>, <<3, 0, 0, 0>>, <<0, 0, 1, 0>>, <<0, 1, 0, 3>>, <<128, 0, 0, 2>>,
             <<0, 0, 0, 255>>, <<255, 255, 255, 255>>>>
EventN == Len(EventBs)
EventName(b4) == CASE b4 = <<0, 0, 0, 0>> -> "none" [] b4 = <<0, 0, 0, 1>> -> "completed"
                   [] b4 = <<0, 0, 0, 2>> -> "started" [] b4 = <<0, 0, 0, 3>> -> "stopped"
                   [] OTHER -> ""
EventP(i) == [event |-> EventBs[i + 1], name |-> EventName(EventBs[i + 1])]
EventBytes(p) == Patch(BaseMsg("announce"), 80, p.event)
EventX(p) == IF p.event \in {<<0, 0, 0, 0>>, <<0, 0, 0, 1>>, <<0, 0, 0, 2>>, <<0, 0, 0, 3>>}
             THEN X(TRUE, "ok", 0) ELSE X(FALSE, "bad_event", 0)

(* protocol id of a connect request *)
MagicBs == <<Magic>>
           \o [k \in 1..8 |-> [Magic EXCEPT ![k] = (@ + 1) % 256]]
           \o <<Zeros(8), Ones(8), <<128, 25, 16, 39, 23, 4, 0, 0>>, <<0, 0, 0, 0, 0, 0, 4, 23>>,
                <<39, 16, 25, 128, 0, 0, 4, 23>>>>
MagicN == Len(MagicBs)
MagicP(i) == [magic |-> MagicBs[i + 1]]
MagicBytes(p) == Patch(BaseMsg("connect"), 0, p.magic)
MagicX(p) == IF p.magic = <<0, 0, 4, 23, 39, 16, 25, 128>> THEN X(TRUE, "ok", 0) ELSE X(FALSE, "bad_magic", 0)

(* port of an announce *)
PortBs == <<<<0, 0>>, <<0, 1>>, <<1, 0>>, <<0, 80>>, <<255, 255>>, <<26, 225>>>>
PortN == Len(PortBs)
PortP(i) == [port |-> PortBs[i + 1]]
PortBytes(p) == Patch(BaseMsg("announce"), 96, p.port)
PortX(p) == IF p.port = <<0, 0>> THEN X(FALSE, "port_zero", 0) ELSE X(TRUE, "ok", 0)

(* scrape payload length 0..61 x maxScrape *)
PayMax == <<0, 1, 2, 3>>
PayN == 62 * 4
PayP(i) == [pay |-> i \div 4, max |-> PayMax[(i % 4) + 1]]
PayBytes(p) == SubSeq(Base120("scrape"), 1, 16 + p.pay)
PayX(p) == IF p.pay = 0 THEN X(FALSE, "no_hashes", 0)
           ELSE IF p.pay \notin {20, 40, 60} THEN X(FALSE, "not_multiple", 0)
           ELSE X(TRUE, "ok", Min(p.max, p.pay \div 20))

(* truncation to maxScrape: maxScrape x number of hashes *)
CutMax == <<0, 1, 2, 70, 255>>
CutNs == <<0, 1, 2, 3, 74, 255>>
CutN == 5 * 6
CutP(i) == [max |-> CutMax[(i \div 6) + 1], n |-> CutNs[(i % 6) + 1]]
CutBytes(p) == PatA(0, 8) \o BE32(2) \o PatA(12, 4) \o Flatten([k \in 1..p.n |-> HashNo(k)])
CutX(p) == IF p.n = 0 THEN X(FALSE, "no_hashes", 0) ELSE X(TRUE, "ok", IF p.n < p.max THEN p.n ELSE p.max)

(***************************************************************************)
(* the tree                                                                *)
(***************************************************************************)
RtGroups == {"rt_connect", "rt_announce", "rt_scrape", "rt_resp_connect", "rt_resp_announce",
             "rt_resp_scrape", "rt_resp_error"}
StructGroups == {"trunc", "action", "event", "magic", "port", "paylen", "cut"}
Groups == RtGroups \cup StructGroups

Size(g) ==
    CASE g = "rt_connect" -> RtConnectN [] g = "rt_announce" -> RtAnnounceN [] g = "rt_scrape" -> RtScrapeN
      [] g = "rt_resp_connect" -> RtRespConnectN [] g = "rt_resp_announce" -> RtRespAnnounceN
      [] g = "rt_resp_scrape" -> RtRespScrapeN [] g = "rt_resp_error" -> RtRespErrorN
      [] g = "trunc" -> TruncN [] g = "action" -> ActionN [] g = "event" -> EventN
      [] g = "magic" -> MagicN [] g = "port" -> PortN [] g = "paylen" -> PayN [] g = "cut" -> CutN

(* parameters, datagram, maxScrape, kind and expected decision of a structural leaf *)
StructP(g, i) ==
    CASE g = "trunc" -> TruncP(i) [] g = "action" -> ActionP(i) [] g = "event" -> EventP(i)
      [] g = "magic" -> MagicP(i) [] g = "port" -> PortP(i) [] g = "paylen" -> PayP(i) [] g = "cut" -> CutP(i)
StructBytes(g, i) ==
    CASE g = "trunc" -> TruncBytes(TruncP(i)) [] g = "action" -> ActionBytes(ActionP(i))
      [] g = "event" -> EventBytes(EventP(i)) [] g = "magic" -> MagicBytes(MagicP(i))
      [] g = "port" -> PortBytes(PortP(i)) [] g = "paylen" -> PayBytes(PayP(i)) [] g = "cut" -> CutBytes(CutP(i))
StructMaxes(g, i) ==
    CASE g = "trunc" -> {TruncP(i).max} [] g = "paylen" -> {PayP(i).max} [] g = "cut" -> {CutP(i).max}
      [] OTHER -> {0, 1, 255}
StructKind(g, i) ==
    CASE g = "trunc" -> TruncP(i).kind [] g = "action" -> ActionP(i).kind
      [] g \in {"event", "port"} -> "announce" [] g = "magic" -> "connect" [] OTHER -> "scrape"
StructX(g, i) ==
    CASE g = "trunc" -> TruncX(TruncP(i)) [] g = "action" -> ActionX(ActionP(i))
      [] g = "event" -> EventX(EventP(i)) [] g = "magic" -> MagicX(MagicP(i))
      [] g = "port" -> PortX(PortP(i)) [] g = "paylen" -> PayX(PayP(i)) [] g = "cut" -> CutX(CutP(i))

StructLaw(g, i) ==
    LET b == StructBytes(g, i)
        x == StructX(g, i)
        kind == StructKind(g, i)
    IN /\ IsByteSeq(b)
       /\ \A m \in StructMaxes(g, i) :
            LET xm == IF kind = "scrape" /\ g = "action" THEN [x EXCEPT !.nh = Min(m, 1)] ELSE x
            IN IF g = "event" /\ x.ok
               THEN LET res == ParseRequest(b, m)
                    IN OkRes(res, "announce", [BaseAnn EXCEPT !.event = EventName(EventP(i).event)])
               ELSE IF g = "port" /\ x.ok
               THEN OkRes(ParseRequest(b, m), "announce", [BaseAnn EXCEPT !.port = PortP(i).port])
               ELSE Decides(b, m, kind, xm)

LeafLaw(g, i) ==
    CASE g = "rt_connect" -> RtConnect(i) [] g = "rt_announce" -> RtAnnounce(i) [] g = "rt_scrape" -> RtScrape(i)
      [] g = "rt_resp_connect" -> RtRespConnect(i) [] g = "rt_resp_announce" -> RtRespAnnounce(i)
      [] g = "rt_resp_scrape" -> RtRespScrape(i) [] g = "rt_resp_error" -> RtRespError(i)
      [] OTHER -> StructLaw(g, i)

Init == c = [g |-> "root", grp |-> "", i |-> 0]
Next ==
    \/ /\ c.g = "root"
       /\ \E n \in Groups : c' = [g |-> "group", grp |-> n, i |-> 0]
    \/ /\ c.g = "group"
       /\ \E i \in 0..(Size(c.grp) - 1) : c' = [g |-> "leaf", grp |-> c.grp, i |-> i]
Spec == Init /\ [][Next]_c

Law == (c.g = "leaf") => LeafLaw(c.grp, c.i)

(* the event table is the one of BEP 15 *)
EventTableLaw == /\ c.g \in {"root", "group", "leaf"}
                 /\ \A e \in Events : EncEvent(e) = EvTable[e]
                 /\ \A e \in Events : DecEvent(EvTable[e]) = e

(* negative control: a codec with started/stopped exchanged must be refuted *)
BadEvCodes == [none |-> 0, completed |-> 1, started |-> 3, stopped |-> 2]
(* ... leechers / seeders exchanged in the announce reply ... *)
BadEncAnnounceResp(fam, r) ==
    BE32(ActAnnounce) \o r.tid \o r.interval \o r.seeders \o r.leechers
    \o Flatten([i \in 1..Len(r.peers) |-> EncPeer(r.peers[i])])
(* ... little-endian action / event numbers ... *)
BadBE32(n) == <<n % 256, (n \div 256) % 256, (n \div 65536) % 256, (n \div 16777216) % 256>>
=============================================================================
