SPECIFICATION Spec
INVARIANT Mark
POSTCONDITION Accepted
CHECK_DEADLOCK FALSE
