SPECIFICATION FairSpec
CONSTANTS
  Certs = {1, 2}
  Conns = {1, 2}
  Grace = 2
  MaxTime = 6
  GraceClose = TRUE
  SkipIdentical = TRUE
INVARIANT TypeOK
INVARIANT ConnOnKnownConfig
INVARIANT DeadlineOnlyForStale
PROPERTY ReloadIsAtomic
PROPERTY StaleEventuallyClosed
CONSTRAINT GenBound
CHECK_DEADLOCK FALSE
