------------------------------ MODULE Watchdog ------------------------------
(***************************************************************************)
(* The tail loop of run() in the three trackers (crates/{udp,http,ws}/src/ *)
(* lib.rs): every PollPeriod seconds all worker join handles are polled;   *)
(* a finished worker - returned Ok, returned Err or panicked - makes run() *)
(* return an error.  Property C19.                                         *)
(*                                                                         *)
(* Time is discrete.  Workers are spawned one per step before the loop     *)
(* starts and may die at any moment, including during start-up.            *)
(***************************************************************************)
EXTENDS Naturals, FiniteSets

CONSTANTS Workers, PollPeriod, MaxTime, Bound, Modes

VARIABLES clock, spawned, state, diedAt, nextPoll, returned, returnedAt, looping
vars == <<clock, spawned, state, diedAt, nextPoll, returned, returnedAt, looping>>

Init ==
    /\ clock = 0 /\ spawned = {} /\ looping = FALSE
    /\ state = [w \in Workers |-> "notstarted"]
    /\ diedAt = [w \in Workers |-> 0]
    /\ nextPoll = 0 /\ returned = "no" /\ returnedAt = 0

Spawn(w) ==
    /\ ~looping /\ returned = "no" /\ w \notin spawned
    /\ spawned' = spawned \cup {w}
    /\ state' = [state EXCEPT ![w] = "running"]
    /\ UNCHANGED <<clock, diedAt, nextPoll, returned, returnedAt, looping>>

StartLoop ==
    /\ ~looping /\ spawned = Workers /\ returned = "no"
    /\ looping' = TRUE /\ nextPoll' = clock
    /\ UNCHANGED <<clock, spawned, state, diedAt, returned, returnedAt>>

Die(w, mode) ==
    /\ state[w] = "running" /\ returned = "no"
    /\ state' = [state EXCEPT ![w] = mode]
    /\ diedAt' = [diedAt EXCEPT ![w] = clock]
    /\ UNCHANGED <<clock, spawned, nextPoll, returned, returnedAt, looping>>

Dead(w) == state[w] \in Modes

(* one pass over the join handles, then sleep(PollPeriod) *)
Poll ==
    /\ looping /\ returned = "no" /\ clock = nextPoll
    /\ IF \E w \in Workers : Dead(w)
       THEN returned' = "err" /\ returnedAt' = clock /\ UNCHANGED nextPoll
       ELSE nextPoll' = clock + PollPeriod /\ UNCHANGED <<returned, returnedAt>>
    /\ UNCHANGED <<clock, spawned, state, diedAt, looping>>

(* time passes, but never past a due poll *)
Tick ==
    /\ clock < MaxTime /\ returned = "no"
    /\ looping /\ clock < nextPoll      \* spawning the workers takes no model time
    /\ clock' = clock + 1
    /\ UNCHANGED <<spawned, state, diedAt, nextPoll, returned, returnedAt, looping>>

Next == (\E w \in Workers : Spawn(w)) \/ StartLoop \/ (\E w \in Workers, m \in Modes : Die(w, m)) \/ Poll \/ Tick
Spec == Init /\ [][Next]_vars

(* a dead worker is noticed within the bound, however its death falls relative to the poll phase *)
RunReturnsErr ==
    \A w \in Workers : (Dead(w) /\ returned = "no" /\ looping) => clock - diedAt[w] <= PollPeriod
BoundOK == PollPeriod <= Bound
NeverReturnsOtherwise == returned # "no" => (returned = "err" /\ \E w \in Workers : Dead(w))
ReturnedInTime ==
    returned = "err" => \E w \in Workers : Dead(w) /\ returnedAt - diedAt[w] <= Bound
=============================================================================
