------------------------------ MODULE TlsReload ------------------------------
(***************************************************************************)
(* TLS configuration handling of the HTTP and WebTorrent trackers            *)
(* (crates/http/src/lib.rs, crates/ws/src/lib.rs: the signal loop of run();  *)
(* crates/common/src/rustls_config.rs; crates/ws/src/workers/socket/mod.rs:  *)
(* clean_connections).  An extension beyond the listed properties.           *)
(*                                                                         *)
(*   - certificate and key are read at start-up and again on SIGUSR1;        *)
(*   - a reload that fails (file missing or unparsable) leaves the previous  *)
(*     configuration in force; a successful one is swapped in atomically     *)
(*     (ArcSwap) and applies to NEW connections only;                        *)
(*   - WebTorrent only: a connection accepted under a configuration that has *)
(*     since been replaced (Arc::ptr_eq fails; the WebTorrent signal loop    *)
(*     skips a reload whose certificate file is byte-identical to the one    *)
(*     in force, so that does not count) gets, at the next cleaning, a       *)
(*     deadline `now + close_after_tls_update_grace_period`, and is closed   *)
(*     by the first cleaning at or after that deadline.  Its peers must then *)
(*     disappear (that part is property C17 and is judged there).            *)
(***************************************************************************)
EXTENDS Naturals, FiniteSets

CONSTANTS Certs,          \* good certificate ids
          Conns,          \* connection ids
          Grace,          \* close_after_tls_update_grace_period
          MaxTime,
          GraceClose,     \* TRUE: WebTorrent tracker, FALSE: HTTP tracker
          SkipIdentical   \* TRUE (WebTorrent): a reload that finds the certificate file byte-identical to the
                          \* one in force is skipped - no new configuration, nobody becomes stale

Bad == 100            \* file contents that do not parse (ids, like the certificates: TLC compares them)
Missing == 101

VARIABLES file,      \* what is on disk: a certificate id, Bad or Missing
          served,    \* [gen, cert]: the configuration in force (gen counts successful loads)
          conn,      \* c -> [st, gen, cert, dl]   st: "none", "open", "closed";  dl: deadline + 1, 0 = none
          now

vars == <<file, served, conn, now>>

NoDl == 0

Init ==
    /\ file \in Certs
    /\ served = [gen |-> 1, cert |-> file]          \* start-up: a failing load means the tracker never runs
    /\ conn = [c \in Conns |-> [st |-> "none", gen |-> 0, cert |-> file, dl |-> NoDl]]
    /\ now = 0

WriteFile(x) ==
    /\ file' = x
    /\ UNCHANGED <<served, conn, now>>

(* SIGUSR1 *)
Reload ==
    /\ served' = IF file \in Certs /\ ~(SkipIdentical /\ file = served.cert)
                 THEN [gen |-> served.gen + 1, cert |-> file] ELSE served
    /\ UNCHANGED <<file, conn, now>>

Connect(c) ==
    /\ conn[c].st = "none"
    /\ conn' = [conn EXCEPT ![c] = [st |-> "open", gen |-> served.gen, cert |-> served.cert, dl |-> NoDl]]
    /\ UNCHANGED <<file, served, now>>

ClientClose(c) ==
    /\ conn[c].st = "open"
    /\ conn' = [conn EXCEPT ![c].st = "closed"]
    /\ UNCHANGED <<file, served, now>>

Tick ==
    /\ now < MaxTime
    /\ now' = now + 1
    /\ UNCHANGED <<file, served, conn>>

(* one connection cleaning pass *)
Clean ==
    /\ GraceClose
    /\ conn' = [c \in Conns |->
                 IF conn[c].st # "open" THEN conn[c]
                 ELSE IF conn[c].dl # NoDl
                      THEN IF conn[c].dl - 1 <= now THEN [conn[c] EXCEPT !.st = "closed"] ELSE conn[c]
                      ELSE IF conn[c].gen # served.gen
                           THEN [conn[c] EXCEPT !.dl = now + Grace + 1]
                           ELSE conn[c]]
    /\ UNCHANGED <<file, served, now>>

Next ==
    \/ \E x \in Certs \cup {Bad, Missing} : WriteFile(x)
    \/ Reload
    \/ \E c \in Conns : Connect(c) \/ ClientClose(c)
    \/ Tick
    \/ Clean

Spec == Init /\ [][Next]_vars
FairSpec == Spec /\ WF_vars(Tick) /\ WF_vars(Clean)

----------------------------------------------------------------------------
TypeOK ==
    /\ file \in Certs \cup {Bad, Missing}
    /\ served.cert \in Certs                      \* a broken file is never served
    /\ \A c \in Conns : conn[c].st \in {"none", "open", "closed"}

(* a connection is always on the configuration that was in force when it was accepted *)
ConnOnKnownConfig ==
    \A c \in Conns : conn[c].st = "open" => conn[c].gen <= served.gen /\ conn[c].cert \in Certs

(* the tracker only ever puts a deadline on connections of a REPLACED configuration *)
DeadlineOnlyForStale ==
    \A c \in Conns : conn[c].dl # NoDl => conn[c].gen < served.gen

(* a failed reload changes nothing; a successful one changes only what new connections get *)
ReloadIsAtomic ==
    [][ (served' # served) => (file \in Certs /\ served'.cert = file /\ conn' = conn) ]_vars

(* WebTorrent: a stale connection is eventually closed (or the model's bounded clock runs out first) *)
StaleEventuallyClosed ==
    \A c \in Conns :
        (conn[c].st = "open" /\ conn[c].gen < served.gen) ~> (conn[c].st = "closed" \/ now = MaxTime)

(* HTTP: no connection is ever given a deadline because of a certificate update *)
HttpNeverClosesForTls == ~GraceClose => \A c \in Conns : conn[c].dl = NoDl

GenBound == served.gen <= 3
=============================================================================
