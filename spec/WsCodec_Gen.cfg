SPECIFICATION Spec
CONSTANTS
  Concrete = FALSE
  Full = TRUE
INVARIANT LawHolds
INVARIANT Emitted
CHECK_DEADLOCK FALSE
