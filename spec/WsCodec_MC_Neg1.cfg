SPECIFICATION Spec
CONSTANTS
  Concrete = TRUE
  Full = FALSE
  IdAccept <- PrefixIdAccept
INVARIANT LawHolds
CHECK_DEADLOCK FALSE
