------------------------------ MODULE PrivDrop ------------------------------
(***************************************************************************)
(* Start-up of a tracker with `privileges.drop_privileges` (extension,     *)
(* beyond the listed properties): crates/common/src/privileges.rs and the  *)
(* socket set-up of the three trackers.                                    *)
(*                                                                         *)
(* run() builds one PrivilegeDropper around a std::sync::Barrier of        *)
(* Parties = socket workers x sockets per worker and hands every worker one *)
(* clone per socket.  A worker thread creates its sockets ONE AFTER THE     *)
(* OTHER and calls after_socket_creation() after each: with dropping on,    *)
(* that is barrier.wait(); the barrier's leader then chroots and switches   *)
(* user for the whole process.  Workers serve once all their sockets exist. *)
(*                                                                         *)
(* The specification models the code as it is.  With two sockets per worker *)
(* (UDP and HTTP trackers with use_ipv4 and use_ipv6, the default) a worker *)
(* waits at the barrier after its first socket and so never creates its     *)
(* second one: the barrier can never fill - TLC reports the deadlock        *)
(* (PrivDrop_MC_Both.cfg), and running trackers show it (lib/ext_startup).  *)
(***************************************************************************)
EXTENDS Naturals, Sequences, FiniteSets, TLC

CONSTANTS Workers, SocketsPerWorker, Drop

VARIABLES todo,      \* worker -> sockets still to create
          bound,     \* set of <<worker, k>> created so far
          waiting,   \* workers parked in barrier.wait()
          arrived,   \* arrivals of the current barrier generation
          dropped,   \* privileges dropped (process-wide)
          serving    \* workers that have entered their serving loop
vars == <<todo, bound, waiting, arrived, dropped, serving>>

Parties == Cardinality(Workers) * SocketsPerWorker

Init ==
    /\ todo = [w \in Workers |-> SocketsPerWorker]
    /\ bound = {} /\ waiting = {} /\ arrived = 0 /\ dropped = FALSE /\ serving = {}

(* create the next socket, then after_socket_creation() *)
CreateSocket(w) ==
    /\ w \notin waiting /\ w \notin serving /\ todo[w] > 0
    /\ bound' = bound \cup {<<w, todo[w]>>}
    /\ todo' = [todo EXCEPT ![w] = @ - 1]
    /\ IF ~Drop
       THEN UNCHANGED <<waiting, arrived, dropped>>
       ELSE IF arrived + 1 = Parties
            THEN \* the last arrival is the leader: everybody is released, the leader drops privileges
                 /\ waiting' = {} /\ arrived' = 0 /\ dropped' = TRUE
            ELSE /\ waiting' = waiting \cup {w} /\ arrived' = arrived + 1 /\ UNCHANGED dropped
    /\ UNCHANGED serving

Serve(w) ==
    /\ w \notin waiting /\ w \notin serving /\ todo[w] = 0
    /\ serving' = serving \cup {w}
    /\ UNCHANGED <<todo, bound, waiting, arrived, dropped>>

Up == serving = Workers
Next == (\E w \in Workers : CreateSocket(w) \/ Serve(w)) \/ (Up /\ UNCHANGED vars)
Spec == Init /\ [][Next]_vars
FairSpec == Spec /\ \A w \in Workers : WF_vars(CreateSocket(w) \/ Serve(w))

----------------------------------------------------------------------------
AllBound == bound = {<<w, k>> : w \in Workers, k \in 1..SocketsPerWorker}

(* privileges are given up only once every socket exists ... *)
DropOnlyAfterAllBound == dropped => AllBound
(* ... and nobody serves a request with the privileges still held *)
ServeOnlyAfterDrop == (Drop /\ serving # {}) => dropped
(* every worker ends up serving: TLC's deadlock check (the only terminal states are Up), and *)
EventuallyUp == <>Up

(* what an observer sees once nothing moves any more *)
Terminal == ~ENABLED (\E w \in Workers : CreateSocket(w) \/ Serve(w))
EmitTerminal == Terminal => PrintT(<<"TERMINAL", Up, dropped, Cardinality(bound)>>)
=============================================================================
