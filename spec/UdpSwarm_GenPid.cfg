SPECIFICATION Spec
CONSTANTS
  Fams = {4}
  Hashes = {1}
  Keys = {k1, k2}
  Pids = {1, 2}
  Deadlines = {1}
  Nows = {0, 1}
  NumWants <- GenNumWants
  MaxResp = 2
  Cap = 2
  ScrapeLists <- GenScrapeLists
  Events = {"started", "stopped"}
  Lefts = {0, 1}
VIEW View
ACTION_CONSTRAINT EmitEdge
CHECK_DEADLOCK FALSE
