-------------------------- MODULE PeerSelectLemmas --------------------------
(***************************************************************************)
(* Unbounded supplement to PeerSelect_MC (property C02): the arithmetic    *)
(* facts that make the two slices of extract_response_peers well-formed    *)
(* for ALL swarm sizes and limits, proved with TLAPS (SMT back end).       *)
(* len = number of peers in the map, limit = max_num_peers_to_take,        *)
(* mid = len / 2, n = limit / 2 (UDP/HTTP) or limit / 2 + 1 (WebTorrent).  *)
(***************************************************************************)
EXTENDS Naturals, Integers, TLAPS

Max(a, b) == IF a >= b THEN a ELSE b

(* no usize underflow in `middle_index - num_to_take_per_half` *)
LEMMA MidGeqHalf ==
    \A len, limit \in Nat : len > limit => (len \div 2) >= (limit \div 2)
  BY SMT

(* first slice [o1, o1 + n) ends at or before the middle, for every offset the RNG may draw *)
LEMMA FirstSliceInBounds ==
    \A len, limit, o1 \in Nat :
        LET mid == len \div 2  n == limit \div 2 IN
        (len > limit /\ o1 < Max(1, mid - n)) => (o1 + n <= mid /\ o1 + n <= len)
  BY SMT DEF Max

(* second slice [o2, o2 + n) stays inside the map *)
LEMMA SecondSliceInBounds ==
    \A len, limit, o2 \in Nat :
        LET mid == len \div 2  n == limit \div 2 IN
        (len > limit /\ o2 >= mid /\ o2 < Max(mid + 1, len - n)) => (o2 + n <= len)
  BY SMT DEF Max

(* the two slices cannot overlap: the first ends where the second may begin *)
LEMMA SlicesDisjoint ==
    \A len, limit, o1, o2 \in Nat :
        LET mid == len \div 2  n == limit \div 2 IN
        (len > limit /\ o1 < Max(1, mid - n) /\ o2 >= mid) => o1 + n <= o2
  BY SMT DEF Max

(* WebTorrent variant: len >= limit + 2, n = limit / 2 + 1 *)
LEMMA WsMidGeqHalf ==
    \A len, limit \in Nat : len > limit + 1 => (len \div 2) >= (limit \div 2) + 1
  BY SMT

LEMMA WsFirstSliceInBounds ==
    \A len, limit, o1 \in Nat :
        LET mid == len \div 2  n == (limit \div 2) + 1 IN
        (len > limit + 1 /\ o1 < Max(1, mid - n)) => o1 + n <= mid
  BY SMT, WsMidGeqHalf DEF Max

LEMMA WsSecondSliceInBounds ==
    \A len, limit, o2 \in Nat :
        LET mid == len \div 2  n == (limit \div 2) + 1 IN
        (len > limit + 1 /\ o2 >= mid /\ o2 < Max(mid + 1, len - n)) => o2 + n <= len
  BY SMT, WsMidGeqHalf DEF Max

(* after filtering the sender out of the 2n selected peers at least `limit` remain *)
LEMMA WsEnough ==
    \A limit \in Nat : 2 * ((limit \div 2) + 1) - 1 >= limit
  BY SMT
=============================================================================
