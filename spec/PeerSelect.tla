--------------------------- MODULE PeerSelect ---------------------------
(***************************************************************************)
(* The peer-selection arithmetic of the three trackers, transcribed with   *)
(* the code's own range expressions (crates/udp/src/swarm.rs               *)
(* LargePeerMap::extract_response_peers, crates/http/.../storage.rs        *)
(* extract_response_peers, crates/ws/.../storage.rs                        *)
(* extract_response_peers).  Positions are 1-based here (0-based in Rust). *)
(* The two random offsets are parameters; callers quantify over            *)
(* O1Range / O2Range, so every outcome of the RNG is a successor state.    *)
(***************************************************************************)
EXTENDS Naturals, Integers, Sequences, FiniteSets

LOCAL Max2(a, b) == IF a >= b THEN a ELSE b
LOCAL Min2(a, b) == IF a <= b THEN a ELSE b

(* a..b as a sequence *)
Span(a, b) == [i \in 1..(IF b >= a THEN b - a + 1 ELSE 0) |-> a + i - 1]

(* indexmap get_range(from..to) on 0-based half-open ranges: None (here    *)
(* the empty sequence, flagged by InBounds) unless from <= to <= len.      *)
InBounds(len, from, to) == from <= to /\ to <= len
GetRange(len, from, to) ==       \* 0-based [from, to) -> 1-based positions
    IF InBounds(len, from, to) THEN Span(from + 1, to) ELSE <<>>

----------------------------------------------------------------------------
(* UDP (LargePeerMap) and HTTP: the requester has been removed from the    *)
(* map before the selection, so positions 1..len are all "others".         *)

UHMid(len)        == len \div 2
UHPerHalf(limit)  == limit \div 2
UHTo1(len, limit) == Max2(1, UHMid(len) - UHPerHalf(limit))
UHTo2(len, limit) == Max2(UHMid(len) + 1, len - UHPerHalf(limit))

(* 0-based offsets, as drawn by rng.random_range(from..to) *)
O1Range(len, limit) == 0 .. (UHTo1(len, limit) - 1)
O2Range(len, limit) == UHMid(len) .. (UHTo2(len, limit) - 1)

(* no usize subtraction underflows on the path taken when len > limit *)
UHNoUnderflow(len, limit) ==
    len > limit => /\ UHMid(len) >= UHPerHalf(limit)
                   /\ len >= UHPerHalf(limit)

ExtractUH(len, limit, o1, o2) ==
    IF len <= limit THEN Span(1, len)
    ELSE GetRange(len, o1, o1 + UHPerHalf(limit))
         \o GetRange(len, o2, o2 + UHPerHalf(limit))

UHRangesInBounds(len, limit, o1, o2) ==
    len > limit => /\ InBounds(len, o1, o1 + UHPerHalf(limit))
                   /\ InBounds(len, o2, o2 + UHPerHalf(limit))

(* Offsets are irrelevant when everything is returned *)
UHOffsets(len, limit) ==
    IF len <= limit THEN {<<0, 0>>}
    ELSE O1Range(len, limit) \X O2Range(len, limit)

----------------------------------------------------------------------------
(* WebTorrent: the sender is still in the map (position `sender`, or 0 if  *)
(* it is not stored) and is filtered out of the selection.                 *)

WsPerHalf(limit)  == (limit \div 2) + 1
WsTo1(len, limit) == Max2(1, (len \div 2) - WsPerHalf(limit))
WsTo2(len, limit) == Max2((len \div 2) + 1, len - WsPerHalf(limit))

WsO1Range(len, limit) == 0 .. (WsTo1(len, limit) - 1)
WsO2Range(len, limit) == (len \div 2) .. (WsTo2(len, limit) - 1)

Take(s, n) == SubSeq(s, 1, Min2(Len(s), n))

ExtractWs(len, limit, sender, o1, o2) ==
    LET notSender(i) == i # sender
    IN  IF len <= limit + 1
        THEN Take(SelectSeq(Span(1, len), notSender), limit)
        ELSE Take(SelectSeq(GetRange(len, o1, o1 + WsPerHalf(limit))
                            \o GetRange(len, o2, o2 + WsPerHalf(limit)),
                            notSender), limit)

WsRangesInBounds(len, limit, o1, o2) ==
    len > limit + 1 => /\ InBounds(len, o1, o1 + WsPerHalf(limit))
                       /\ InBounds(len, o2, o2 + WsPerHalf(limit))

WsNoUnderflow(len, limit) ==
    len > limit + 1 => /\ (len \div 2) >= WsPerHalf(limit)
                       /\ len >= WsPerHalf(limit)

WsOffsets(len, limit) ==
    IF len <= limit + 1 THEN {<<0, 0>>}
    ELSE WsO1Range(len, limit) \X WsO2Range(len, limit)
=============================================================================
