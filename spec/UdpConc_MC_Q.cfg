SPECIFICATION Spec
CONSTANTS
  Threads <- MCThreads
  Catalogue <- QuickCatalogue
  GuardEnabled = TRUE
  NoThread = 0
  RecursiveScrape = FALSE
INVARIANTS Linearizable NoLostAnnounce NoOrphanWrite LockSanity
