SPECIFICATION Spec
CONSTANTS
  Threads <- MCThreads
  Catalogue <- QuickCatalogue
  GuardEnabled = TRUE
  NoThread = 0
INVARIANTS Linearizable NoLostAnnounce NoOrphanWrite LockSanity
