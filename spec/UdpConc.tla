------------------------------ MODULE UdpConc ------------------------------
(***************************************************************************)
(* Concurrent model of the UDP tracker's shared swarm state at lock        *)
(* granularity (crates/udp/src/swarm.rs TorrentMapShards::{announce,       *)
(* scrape, clean_and_get_statistics}).                                     *)
(*                                                                         *)
(* Shared state                                                            *)
(*   slock     the shard RwLock: [readers, upg, writer] (parking_lot:       *)
(*             an upgradable reader excludes writers and other upgradable  *)
(*             readers, admits readers; upgrade waits for readers)         *)
(*   smap      the shard map: hash -> reference of a peer-map object       *)
(*   heap      reference -> [peers (key -> deadline), strong (Arc count),  *)
(*             readers, writer (the per-torrent RwLock)]; freed at 0       *)
(* Threads run constant programs, one action per lock acquisition; the     *)
(* release is folded into the step that ends the critical section          *)
(* (Lipton reduction: releases are left movers).                           *)
(*                                                                         *)
(* Ghost state                                                             *)
(*   ref       the reference tracker's store (hash -> key -> deadline),    *)
(*             updated at each operation's linearization point             *)
(*   linok     FALSE as soon as a reply differs from the reference reply   *)
(*             at the linearization point                                  *)
(*                                                                         *)
(* GuardEnabled = FALSE removes the Arc::get_mut test of the second        *)
(* cleaning phase (the lost-announce race described in the CHANGELOG):     *)
(* negative control.                                                       *)
(***************************************************************************)
EXTENDS Naturals, Sequences, FiniteSets, TLC

CONSTANTS Threads, Catalogue, GuardEnabled, NoThread,
          RecursiveScrape   \* TRUE: a scrape takes the shard read lock for all its hashes up front
                            \* (recursive read locking; negative control - parking_lot may deadlock)

(* an op is [kind |-> "announce", h, key, stop (BOOLEAN), d (deadline)]            *)
(*          [kind |-> "scrape", hs (sequence of hashes)]   or   [kind |-> "clean", now] *)

VARIABLES progs, slock, smap, heap, nextref, pc, loc, ref, linok, replies
vars == <<progs, slock, smap, heap, nextref, pc, loc, ref, linok, replies>>

Prog(t) == progs[t]
Done(t) == pc[t].i > Len(Prog(t))
Op(t) == Prog(t)[pc[t].i]

FnPut(f, k, v) == [x \in DOMAIN f \cup {k} |-> IF x = k THEN v ELSE f[x]]
FnDel(f, k) == [x \in DOMAIN f \ {k} |-> f[x]]

NewObj == [peers |-> <<>>, strong |-> 1, readers |-> {}, writer |-> NoThread]

(* decrement the Arc count of object r, freeing it at zero *)
DropRef(h2, r) ==
    IF h2[r].strong = 1 THEN FnDel(h2, r) ELSE [h2 EXCEPT ![r].strong = @ - 1]

(***************************************************************************)
(* parking_lot's RwLock, as the code relies on it:                          *)
(*   - `writer` is the WRITER_BIT: an exclusive acquisition (write(), or the *)
(*     upgrade of an upgradable read) first sets it - possible when no other *)
(*     writer / upgradable reader is present - and THEN waits for the        *)
(*     readers to leave.  While it is set no new reader is admitted, even a  *)
(*     thread that already holds a read lock (task-fair; this is why         *)
(*     recursive read locking can deadlock).                                 *)
(*   - `readers` counts shared acquisitions per thread.                      *)
(*   - an upgradable reader excludes writers and other upgradable readers,   *)
(*     admits readers.                                                       *)
(***************************************************************************)
NoReaders == \A t \in Threads : slock.readers[t] = 0
ReadShard(t) == [slock EXCEPT !.readers[t] = @ + 1]
UnreadShard(t) == [slock EXCEPT !.readers[t] = @ - 1]

Init ==
    /\ progs \in Catalogue
    /\ slock = [readers |-> [t \in Threads |-> 0], upg |-> NoThread, writer |-> NoThread]
    /\ smap = <<>>
    /\ heap = <<>>
    /\ nextref = 1
    /\ pc = [t \in Threads |-> [i |-> 1, ph |-> "start", j |-> 1]]
    /\ loc = [t \in Threads |-> <<>>]
    /\ ref = <<>>
    /\ linok = TRUE
    /\ replies = [t \in Threads |-> <<>>]

Advance(t) == pc' = [pc EXCEPT ![t] = [i |-> pc[t].i + 1, ph |-> "start", j |-> 1]]
Phase(t, ph) == pc' = [pc EXCEPT ![t].ph = ph]

RefPeers(h) == IF h \in DOMAIN ref THEN ref[h] ELSE <<>>
RefPut(h, pm) == IF DOMAIN pm = {} THEN FnDel(ref, h) ELSE FnPut(ref, h, pm)

----------------------------------------------------------------------------
(* announce *)

AnnUpRead(t) ==
    /\ ~Done(t) /\ Op(t).kind = "announce" /\ pc[t].ph = "start"
    /\ slock.writer = NoThread /\ slock.upg = NoThread
    /\ IF Op(t).h \in DOMAIN smap
       THEN \* hit: clone the Arc, release the shard lock
            /\ heap' = [heap EXCEPT ![smap[Op(t).h]].strong = @ + 1]
            /\ loc' = [loc EXCEPT ![t] = <<smap[Op(t).h]>>]
            /\ Phase(t, "wwant")
            /\ UNCHANGED slock
       ELSE \* miss: keep the upgradable lock, upgrade next
            /\ slock' = [slock EXCEPT !.upg = t]
            /\ Phase(t, "upgrade")
            /\ UNCHANGED <<heap, loc>>
    /\ UNCHANGED <<progs, smap, nextref, ref, linok, replies>>

(* the upgrade swaps the upgradable bit for the writer bit at once ... *)
AnnUpgWant(t) ==
    /\ ~Done(t) /\ Op(t).kind = "announce" /\ pc[t].ph = "upgrade"
    /\ slock' = [slock EXCEPT !.upg = NoThread, !.writer = t]
    /\ Phase(t, "upgwait")
    /\ UNCHANGED <<progs, smap, heap, nextref, loc, ref, linok, replies>>

(* ... and then waits for the readers to leave *)
AnnUpgrade(t) ==
    /\ ~Done(t) /\ Op(t).kind = "announce" /\ pc[t].ph = "upgwait"
    /\ NoReaders
    /\ LET h == Op(t).h IN
       \* entry(h).or_default(): never overwrites an existing entry
       IF h \in DOMAIN smap
       THEN /\ heap' = [heap EXCEPT ![smap[h]].strong = @ + 1]
            /\ loc' = [loc EXCEPT ![t] = <<smap[h]>>]
            /\ UNCHANGED <<smap, nextref>>
       ELSE /\ smap' = FnPut(smap, h, nextref)
            /\ heap' = FnPut(heap, nextref, [NewObj EXCEPT !.strong = 2])
            /\ loc' = [loc EXCEPT ![t] = <<nextref>>]
            /\ nextref' = nextref + 1
    /\ slock' = [slock EXCEPT !.writer = NoThread]
    /\ Phase(t, "wwant")
    /\ UNCHANGED <<progs, ref, linok, replies>>

AnnWriteWant(t) ==
    /\ ~Done(t) /\ Op(t).kind = "announce" /\ pc[t].ph = "wwant"
    /\ heap[loc[t][1]].writer = NoThread
    /\ heap' = [heap EXCEPT ![loc[t][1]].writer = t]
    /\ Phase(t, "write")
    /\ UNCHANGED <<progs, slock, smap, nextref, loc, ref, linok, replies>>

AnnWrite(t) ==
    /\ ~Done(t) /\ Op(t).kind = "announce" /\ pc[t].ph = "write"
    /\ LET r == loc[t][1]  o == Op(t) IN
       /\ heap[r].writer = t /\ heap[r].readers = {}
       /\ LET others  == FnDel(heap[r].peers, o.key)
              newp    == IF o.stop THEN others ELSE FnPut(others, o.key, o.d)
              reply   == Cardinality(DOMAIN others)
              rothers == FnDel(RefPeers(o.h), o.key)
              rnew    == IF o.stop THEN rothers ELSE FnPut(rothers, o.key, o.d)
          IN /\ heap' = DropRef([heap EXCEPT ![r].peers = newp, ![r].writer = NoThread], r)
             \* linearization point
             /\ linok' = (linok /\ reply = Cardinality(DOMAIN rothers))
             /\ ref' = RefPut(o.h, rnew)
             /\ replies' = [replies EXCEPT ![t] = Append(@, reply)]
    /\ loc' = [loc EXCEPT ![t] = <<>>]
    /\ Advance(t)
    /\ UNCHANGED <<progs, slock, smap, nextref>>

----------------------------------------------------------------------------
(* scrape: one unit per requested hash - shard read lock, nested peer-map  *)
(* read lock, both released before the next hash                           *)

ScrHash(t) == Op(t).hs[pc[t].j]
NextUnit(t) ==
    IF pc[t].j = Len(Op(t).hs) THEN Advance(t)
    ELSE pc' = [pc EXCEPT ![t] = [i |-> @.i, ph |-> "start", j |-> @.j + 1]]

ScrShard(t) ==
    /\ ~RecursiveScrape
    /\ ~Done(t) /\ Op(t).kind = "scrape" /\ pc[t].ph = "start"
    /\ slock.writer = NoThread
    /\ IF ScrHash(t) \in DOMAIN smap
       THEN /\ slock' = ReadShard(t)
            /\ Phase(t, "map")
            /\ UNCHANGED <<linok, replies>>
       ELSE \* miss: zeros; linearization point of this unit
            /\ linok' = (linok /\ Cardinality(DOMAIN RefPeers(ScrHash(t))) = 0)
            /\ replies' = [replies EXCEPT ![t] = Append(@, 0)]
            /\ NextUnit(t)
            /\ UNCHANGED slock
    /\ UNCHANGED <<progs, smap, heap, nextref, loc, ref>>

ScrMap(t) ==
    /\ ~RecursiveScrape
    /\ ~Done(t) /\ Op(t).kind = "scrape" /\ pc[t].ph = "map"
    /\ LET r == smap[ScrHash(t)] IN
       /\ heap[r].writer = NoThread
       /\ LET reply == Cardinality(DOMAIN heap[r].peers) IN
          /\ linok' = (linok /\ reply = Cardinality(DOMAIN RefPeers(ScrHash(t))))
          /\ replies' = [replies EXCEPT ![t] = Append(@, reply)]
    /\ slock' = UnreadShard(t)
    /\ NextUnit(t)
    /\ UNCHANGED <<progs, smap, heap, nextref, loc, ref>>

(* negative control: the shard read lock is taken once per hash before any statistics are read *)
ScrLockAll(t) ==
    /\ RecursiveScrape
    /\ ~Done(t) /\ Op(t).kind = "scrape" /\ pc[t].ph = "start"
    /\ slock.writer = NoThread
    /\ slock' = ReadShard(t)
    /\ pc' = [pc EXCEPT ![t] = IF @.j = Len(Op(t).hs) THEN [i |-> @.i, ph |-> "map", j |-> 1]
                               ELSE [i |-> @.i, ph |-> "start", j |-> @.j + 1]]
    /\ UNCHANGED <<progs, smap, heap, nextref, loc, ref, linok, replies>>

ScrReadAll(t) ==
    /\ RecursiveScrape
    /\ ~Done(t) /\ Op(t).kind = "scrape" /\ pc[t].ph = "map"
    /\ LET h == ScrHash(t) IN
       /\ h \in DOMAIN smap => heap[smap[h]].writer = NoThread
       /\ LET reply == IF h \in DOMAIN smap THEN Cardinality(DOMAIN heap[smap[h]].peers) ELSE 0 IN
          /\ linok' = (linok /\ reply = Cardinality(DOMAIN RefPeers(h)))
          /\ replies' = [replies EXCEPT ![t] = Append(@, reply)]
    /\ IF pc[t].j = Len(Op(t).hs)
       THEN /\ slock' = [slock EXCEPT !.readers[t] = 0]
            /\ Advance(t)
       ELSE /\ pc' = [pc EXCEPT ![t].j = @ + 1]
            /\ UNCHANGED slock
    /\ UNCHANGED <<progs, smap, heap, nextref, loc, ref>>

----------------------------------------------------------------------------
(* cleaning pass: phase 1 per torrent, phase 2 on the whole shard *)

SetToSeq(S) == LET RECURSIVE F(_)
                   F(X) == IF X = {} THEN <<>>
                           ELSE LET x == CHOOSE x \in X : TRUE IN <<x>> \o F(X \ {x})
               IN F(S)

Cl1Shard(t) ==
    /\ ~Done(t) /\ Op(t).kind = "clean" /\ pc[t].ph = "start"
    /\ slock.writer = NoThread
    \* read lock; clone every Arc; release
    /\ heap' = [r \in DOMAIN heap |->
                  IF \E h \in DOMAIN smap : smap[h] = r
                  THEN [heap[r] EXCEPT !.strong = @ + 1] ELSE heap[r]]
    /\ loc' = [loc EXCEPT ![t] = SetToSeq({<<h, smap[h]>> : h \in DOMAIN smap})]
    /\ Phase(t, "maps")
    /\ UNCHANGED <<progs, slock, smap, nextref, ref, linok, replies>>

Cl1MapWant(t) ==
    /\ ~Done(t) /\ Op(t).kind = "clean" /\ pc[t].ph = "maps" /\ loc[t] # <<>>
    /\ heap[loc[t][1][2]].writer = NoThread
    /\ heap' = [heap EXCEPT ![loc[t][1][2]].writer = t]
    /\ Phase(t, "mapw")
    /\ UNCHANGED <<progs, slock, smap, nextref, loc, ref, linok, replies>>

Cl1Map(t) ==
    /\ ~Done(t) /\ Op(t).kind = "clean" /\ pc[t].ph = "mapw"
    /\ LET h == loc[t][1][1]  r == loc[t][1][2]  now == Op(t).now IN
       /\ heap[r].writer = t /\ heap[r].readers = {}
       /\ LET keep  == {k \in DOMAIN heap[r].peers : heap[r].peers[k] > now}
              newp  == [k \in keep |-> heap[r].peers[k]]
              \* linearization point of the pass for this torrent - if the object is
              \* still the torrent's map (an orphan has no abstract effect)
              live  == h \in DOMAIN smap /\ smap[h] = r
              rkeep == {k \in DOMAIN RefPeers(h) : RefPeers(h)[k] > now}
          IN /\ heap' = DropRef([heap EXCEPT ![r].peers = newp, ![r].writer = NoThread], r)
             /\ ref' = IF live THEN RefPut(h, [k \in rkeep |-> RefPeers(h)[k]]) ELSE ref
    /\ loc' = [loc EXCEPT ![t] = Tail(@)]
    /\ Phase(t, "maps")
    /\ UNCHANGED <<progs, slock, smap, nextref, linok, replies>>

Cl2Want(t) ==
    /\ ~Done(t) /\ Op(t).kind = "clean" /\ pc[t].ph = "maps" /\ loc[t] = <<>>
    /\ slock.writer = NoThread /\ slock.upg = NoThread
    /\ slock' = [slock EXCEPT !.writer = t]
    /\ Phase(t, "cl2")
    /\ UNCHANGED <<progs, smap, heap, nextref, loc, ref, linok, replies>>

Cl2Shard(t) ==
    /\ ~Done(t) /\ Op(t).kind = "clean" /\ pc[t].ph = "cl2"
    /\ slock.writer = t /\ NoReaders
    \* retain: drop empty torrents - unless the Arc is also held elsewhere
    /\ LET gone == {h \in DOMAIN smap :
                      /\ DOMAIN heap[smap[h]].peers = {}
                      /\ GuardEnabled => heap[smap[h]].strong = 1}
           RECURSIVE DropAll(_, _)
           DropAll(hp, S) == IF S = {} THEN hp
                             ELSE LET x == CHOOSE x \in S : TRUE
                                  IN DropAll(DropRef(hp, smap[x]), S \ {x})
       IN /\ smap' = [h \in DOMAIN smap \ gone |-> smap[h]]
          /\ heap' = DropAll(heap, gone)
    /\ slock' = [slock EXCEPT !.writer = NoThread]
    /\ replies' = [replies EXCEPT ![t] = Append(@, 0)]
    /\ Advance(t)
    /\ UNCHANGED <<progs, nextref, loc, ref, linok>>

----------------------------------------------------------------------------
Step(t) == \/ AnnUpRead(t) \/ AnnUpgWant(t) \/ AnnUpgrade(t) \/ AnnWriteWant(t) \/ AnnWrite(t)
           \/ ScrShard(t) \/ ScrMap(t) \/ ScrLockAll(t) \/ ScrReadAll(t)
           \/ Cl1Shard(t) \/ Cl1MapWant(t) \/ Cl1Map(t) \/ Cl2Want(t) \/ Cl2Shard(t)

AllDone == \A t \in Threads : Done(t)

Next == (\E t \in Threads : Step(t)) \/ (AllDone /\ UNCHANGED vars)

Spec == Init /\ [][Next]_vars

----------------------------------------------------------------------------
(* C04 *)

(* every reply equals the reference reply at the operation's linearization point *)
Linearizable == linok

(* at quiescence the stored state is the reference state: no answered announce is lost *)
Abs == LET live == {h \in DOMAIN smap : DOMAIN heap[smap[h]].peers # {}}
       IN [h \in live |-> heap[smap[h]].peers]
NoLostAnnounce == AllDone => Abs = ref

(* nobody ever writes to a peer map that is not reachable from the shard map *)
NoOrphanWrite ==
    \A t \in Threads :
        (~Done(t) /\ Op(t).kind = "announce" /\ pc[t].ph \in {"wwant", "write"}) =>
            \E h \in DOMAIN smap : smap[h] = loc[t][1]

LockSanity ==
    /\ slock.writer # NoThread => slock.upg = NoThread
    /\ \A r \in DOMAIN heap : heap[r].strong >= 1

(* Deadlock freedom: TLC's deadlock check (the only terminal states are AllDone) *)

(* Under weak fairness of every thread every program runs to completion: no livelock between the   *)
(* upgradable reader waiting for readers to leave and readers queueing behind it                     *)
FairSpec == Spec /\ \A t \in Threads : WF_vars(Step(t))
Termination == <>AllDone
=============================================================================
