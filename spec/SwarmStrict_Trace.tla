-------------------------- MODULE SwarmStrict_Trace --------------------------
(***************************************************************************)
(* Strict, implementation-shaped trace validation of the UDP and HTTP      *)
(* swarm storage (DESIGN.md 3.5, first pass).  The state is the concrete   *)
(* peer-map model of PeerMap.tla - inline / heap representation, storage   *)
(* order (ArrayVec shift vs IndexMap swap_remove), cached seeder counter.  *)
(* Each logged call must be explained by the model INCLUDING the exact     *)
(* peer list (the two random offsets are not logged: TLC infers them) and  *)
(* the exact state dump (verif_dump) after the call.                       *)
(*                                                                         *)
(* A rejection here is NOT a violation of any property: it means the code  *)
(* no longer matches the implementation-shaped model (model drift) and is  *)
(* reported as such in the evidence.  The deciding pass is *Ref_Trace.     *)
(***************************************************************************)
EXTENDS PeerMap, RefTracker, Json, IOUtils

CONSTANTS Cap, CleanShrinks

Rec == ndJsonDeserialize(IOEnv.TRACE)

VARIABLES l, tm, cfg
vars == <<l, tm, cfg>>

Init == l = 1 /\ tm = <<>> /\ cfg = [max_resp |-> 0] /\ TLCSet(2, 1)
E == Rec[l]
IsEvent(name) == l <= Len(Rec) /\ Rec[l].ev = name /\ l' = l + 1
PMOf(t) == IF t \in DOMAIN tm THEN tm[t] ELSE PMEmpty
MaxOut == IF "max_resp" \in DOMAIN cfg THEN cfg.max_resp ELSE cfg.max_peers

(* the dump of one torrent equals the model's peer map: representation, order, cached counter *)
TorrentMatches(d, pm) ==
    /\ d[3] = pm.kind
    /\ Len(d[6]) = Len(pm.seq)
    /\ \A i \in 1..Len(pm.seq) :
         /\ d[6][i][1] = pm.seq[i].key /\ d[6][i][2] = pm.seq[i].seeder
         /\ d[6][i][3] = pm.seq[i].deadline /\ d[6][i][4] = pm.seq[i].pid
    /\ pm.kind = "large" => d[4] = pm.nseed

DumpMatches(dump, m) ==
    /\ {<<dump[i][1], dump[i][2]>> : i \in 1..Len(dump)} = DOMAIN m
    /\ Len(dump) = Cardinality(DOMAIN m)
    /\ \A i \in 1..Len(dump) : TorrentMatches(dump[i], m[<<dump[i][1], dump[i][2]>>])

Reset == IsEvent("reset") /\ tm' = <<>> /\ cfg' = E

ReplyPeers == IF "peers" \in DOMAIN E.reply THEN E.reply.peers ELSE E.reply.peers4 \o E.reply.peers6

Announce ==
    /\ IsEvent("announce")
    /\ LET t == <<E.t[1], E.t[2]>>
           status == Status(E.event, E.left)
           limit == Limit(E.numwant, MaxOut)
           entry == [key |-> E.key, seeder |-> status = "seeding", deadline |-> E.deadline,
                     pid |-> IF "pid" \in DOMAIN E THEN E.pid ELSE 0]
       IN \E o \in AnnOffsets(PMOf(t), E.key, limit) :
            LET r == PMAnnounce(PMOf(t), Cap, E.key, status, entry, limit, o[1], o[2]) IN
            /\ r.seeders = E.reply.seeders /\ r.leechers = E.reply.leechers
            /\ r.peers = ReplyPeers
            /\ tm' = [x \in DOMAIN tm \cup {t} |-> IF x = t THEN r.pm ELSE tm[x]]
    /\ ("dump" \in DOMAIN E) => DumpMatches(E.dump, tm')
    /\ UNCHANGED cfg

Scrape == IsEvent("scrape") /\ UNCHANGED <<tm, cfg>>
Other == /\ l <= Len(Rec) /\ Rec[l].ev \in {"reload", "allowed", "announce_rejected"} /\ l' = l + 1
         /\ UNCHANGED <<tm, cfg>>

(* cleaning with mode off: expired entries go, empty torrents go; UDP shrinks heap maps back *)
Clean ==
    /\ IsEvent("clean")
    /\ LET c(t) == PMClean(tm[t], Cap, E.now, CleanShrinks)
           live == {t \in DOMAIN tm : Len(c(t).pm.seq) > 0}
       IN tm' = [t \in live |-> c(t).pm]
    /\ ("dump" \in DOMAIN E) => DumpMatches(E.dump, tm')
    /\ UNCHANGED cfg

Next == Reset \/ Announce \/ Scrape \/ Clean \/ Other
Spec == Init /\ [][Next]_vars

Mark == TLCSet(2, IF l > TLCGet(2) THEN l ELSE TLCGet(2))
Accepted ==
    LET hw == TLCGet(2) IN
    IF hw = Len(Rec) + 1 THEN TRUE
    ELSE PrintT(<<"TRACE_REJECTED", hw, ToJson(Rec[hw])>>) /\ FALSE
=============================================================================
