----------------------------- MODULE HttpSwarm -----------------------------
(***************************************************************************)
(* Sequential model of one HTTP swarm worker's state                       *)
(* (crates/http/src/workers/swarm/storage.rs TorrentMaps): one action per  *)
(* public call.  Same peer-map machinery as the UDP tracker (PeerMap.tla)  *)
(* with Cap = 4, and these deliberate differences, modelled as the code    *)
(* has them:                                                               *)
(*   - clean() does not shrink a heap map back to the inline form          *)
(*   - clean() drops forbidden torrents without looking at their peers     *)
(*   - scrape answers through a sorted map of the first MaxScrape hashes   *)
(*     (duplicates collapse, unknown hashes report zeros)                  *)
(*   - peers carry no peer id                                              *)
(***************************************************************************)
EXTENDS PeerMap, RefTracker

CONSTANTS Fams, Hashes, Keys, Deadlines, Nows, NumWants, MaxPeers, MaxScrape,
          Cap, ScrapeLists, Events, Lefts

VARIABLES tm, op
vars == <<tm, op>>

Torrents == Fams \X Hashes
PM(t) == IF t \in DOMAIN tm THEN tm[t] ELSE PMEmpty

Abs(m) ==
    LET live == {t \in DOMAIN m : Len(m[t].seq) > 0}
    IN  [t \in live |-> AbsPM(m[t])]

Init == tm = <<>> /\ op = [name |-> "init"]

(* numwant: -1 encodes "absent" *)
Announce(t, key, event, left, numwant, deadline) ==
    LET status == Status(event, left)
        limit  == Limit(numwant, MaxPeers)
        entry  == [key |-> key, seeder |-> status = "seeding", deadline |-> deadline, pid |-> 0]
    IN \E o \in AnnOffsets(PM(t), key, limit) :
        LET r == PMAnnounce(PM(t), Cap, key, status, entry, limit, o[1], o[2])
        IN /\ tm' = [x \in DOMAIN tm \cup {t} |-> IF x = t THEN r.pm ELSE tm[x]]
           /\ op' = [name |-> "announce", t |-> t, key |-> key, event |-> event,
                     left |-> left, numwant |-> numwant, deadline |-> deadline,
                     reply |-> [seeders |-> r.seeders, leechers |-> r.leechers,
                                peers |-> r.peers]]

FirstN(s, n) == SubSeq(s, 1, IF Len(s) <= n THEN Len(s) ELSE n)

ScrapeReply(fam, hs) ==
    {<<h, SL(PM(<<fam, h>>))[1], SL(PM(<<fam, h>>))[2]>> : h \in SeqRange(FirstN(hs, MaxScrape))}

Scrape(fam, hs) ==
    /\ op' = [name |-> "scrape", fam |-> fam, hs |-> hs, reply |-> ScrapeReply(fam, hs)]
    /\ UNCHANGED tm

Clean(now, forbidden) ==
    LET c(t)  == PMClean(tm[t], Cap, now, FALSE)
        live  == {t \in DOMAIN tm : t[2] \notin forbidden /\ Len(c(t).pm.seq) > 0}
    IN /\ tm' = [t \in live |-> c(t).pm]
       /\ op' = [name |-> "clean", now |-> now, forbidden |-> forbidden,
                 torrents |-> live]

Next ==
    \/ \E t \in Torrents, key \in Keys, event \in Events, left \in Lefts,
          numwant \in NumWants, deadline \in Deadlines :
          Announce(t, key, event, left, numwant, deadline)
    \/ \E fam \in Fams, hs \in ScrapeLists : Scrape(fam, hs)
    \/ \E now \in Nows : Clean(now, {})

Spec == Init /\ [][Next]_vars

----------------------------------------------------------------------------
(* HTTP's clean never shrinks, so a heap map may hold <= Cap entries *)
TypeOK == \A t \in DOMAIN tm : PMWellFormed(tm[t], Cap, FALSE)

StepRefines ==
    LET a == Abs(tm)  b == Abs(tm')  o == op' IN
    CASE o.name = "announce" ->
           LET status == Status(o.event, o.left)
               entry  == [seeder |-> status = "seeding", deadline |-> o.deadline, pid |-> 0]
               cnt    == AnnounceCountsExcl(a, o.t, o.key)
           IN /\ b = AnnounceStore(a, o.t, o.key, status, entry)
              /\ o.reply.seeders = cnt.seeders
              /\ o.reply.leechers = cnt.leechers
              /\ PeerListOK(o.reply.peers, Candidates(a, o.t, o.key),
                            Limit(o.numwant, MaxPeers), 1)
      [] o.name = "scrape" ->
           /\ b = a
           \* each of the first MaxScrape requested torrents exactly once
           /\ {x[1] : x \in o.reply} = SeqRange(FirstN(o.hs, MaxScrape))
           /\ Cardinality(o.reply) = Cardinality({x[1] : x \in o.reply})
           /\ \A x \in o.reply :
                LET c == ScrapeCounts(a, <<o.fam, x[1]>>)
                IN x[2] = c.seeders /\ x[3] = c.leechers
      [] o.name = "clean" ->
           /\ b = CleanStore(a, o.now, LAMBDA t : t[2] \in o.forbidden)
           \* empty torrents are dropped by the cleaning pass
           /\ DOMAIN tm' = DOMAIN b
           /\ \A t \in DOMAIN a : \A k \in DOMAIN a[t] :
                (t[2] \notin o.forbidden) =>
                  ((t \in DOMAIN b /\ k \in DOMAIN b[t]) <=> Valid(a[t][k].deadline, o.now))
      [] OTHER -> TRUE

RefinesReference == [][StepRefines]_vars

SelectionInBounds ==
    \A t \in DOMAIN tm :
        tm[t].kind = "large" =>
          \A limit \in {Limit(n, MaxPeers) : n \in NumWants} :
            \A len \in {Len(tm[t].seq), Len(tm[t].seq) - 1} :
              len >= 0 =>
              /\ UHNoUnderflow(len, limit)
              /\ \A o \in UHOffsets(len, limit) : UHRangesInBounds(len, limit, o[1], o[2])

View == tm
=============================================================================
