SPECIFICATION Spec
CONSTANTS
  Concrete = TRUE
  Full = TRUE
INVARIANT LawHolds
INVARIANT Emitted
CHECK_DEADLOCK FALSE
