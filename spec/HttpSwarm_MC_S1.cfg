\* scrape semantics: two hashes, lists up to length 3 with repeats, MaxScrape = 1
SPECIFICATION Spec
CONSTANTS
  Fams = {4}
  Hashes = {1, 2}
  Keys = {k1, k2}
  Deadlines = {1}
  Nows = {0, 1}
  NumWants <- MCNumWants
  MaxPeers = 4
  MaxScrape = 1
  Cap = 4
  ScrapeLists <- MCScrapeLists
  Events = {"started", "stopped"}
  Lefts = {0, 1}
SYMMETRY SymKeys
VIEW View
INVARIANTS TypeOK SelectionInBounds
PROPERTIES RefinesReference
CHECK_DEADLOCK FALSE
