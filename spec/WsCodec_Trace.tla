--------------------------- MODULE WsCodec_Trace ---------------------------
(***************************************************************************)
(* Trace validation of the real WebTorrent codec (aquatic_ws_protocol)     *)
(* against the reference codec WsCodec (property C15).  One line per case  *)
(* executed by harness ws_codec:                                           *)
(*                                                                         *)
(*  decode    a JSON text (logged as the tree it was written from, in one  *)
(*            of several escaping styles) was given to from_ws_message as  *)
(*            a text frame and as a binary frame: both results must be     *)
(*            what the reference decoder makes of the tree - in particular *)
(*            accepted iff every identifier string satisfies IdAccept, and *)
(*            the decoded identifier bytes are the code points;            *)
(*  roundtrip a message was encoded with to_ws_message: a text frame; in    *)
(*            the produced JSON every identifier of the message is written *)
(*            as its 20 code points <= U+00FF (nothing else about the text *)
(*            is prescribed by the property), and the real decoder returns *)
(*            the message from the text frame and from the same bytes as a *)
(*            binary frame;                                                *)
(*  rawbin    a binary frame whose payload is not well-formed UTF-8 is     *)
(*            not a JSON text: rejected.                                   *)
(***************************************************************************)
EXTENDS WsCodec, TLC, Json, IOUtils

Rec == ndJsonDeserialize(IOEnv.TRACE)

VARIABLE l
vars == <<l>>

Init == l = 1

E == Rec[l]
IsEvent(name) == l <= Len(Rec) /\ Rec[l].ev = name /\ l' = l + 1

Reset == IsEvent("reset")

DecodeEv ==
    /\ IsEvent("decode")
    /\ E.dir \in {"in", "out"}
    /\ LET expected == Res(Decode(E.dir, E.tree))
       IN /\ ResEq(E.text, expected)
          /\ ResEq(E.bin, expected)

(* every identifier of a message is 20 bytes (the executor builds nothing else) *)
Ids(m) ==
    CASE m.k = "announce" ->
           {m.ih, m.pid} \cup {m.to[i] : i \in 1..Len(m.to)} \cup {m.aoid[i] : i \in 1..Len(m.aoid)}
           \cup (IF m.offers = None THEN {} ELSE {m.offers[1][i].oid : i \in 1..Len(m.offers[1])})
      [] m.k = "scrape" -> IF m.ihs = None THEN {} ELSE {m.ihs[1].hs[i] : i \in 1..Len(m.ihs[1].hs)}
      [] m.k \in {"offer", "answer"} -> {m.pid, m.ih, m.oid}
      [] m.k = "ann_resp" -> {m.ih}
      [] m.k = "scr_resp" -> {m.files[i].ih : i \in 1..Len(m.files)}
      [] m.k = "error" -> {m.eih[i] : i \in 1..Len(m.eih)}

RoundtripEv ==
    /\ IsEvent("roundtrip")
    /\ E.dir = DirOf(E.msg)
    /\ MsgEq(E.msg, E.case)                       \* the executor built the message of the case
    /\ \A b \in Ids(E.msg) : IsBytes20(b)
    /\ E.frame = "text"
    /\ E.enc.t = "o"
    /\ IdsWritten(E.msg, E.enc)                  \* every identifier written as its 20 code points
    /\ ResEq(E.text, <<"ok", E.msg>>)                       \* and the real decoder gives it back
    /\ ResEq(E.bin, <<"ok", E.msg>>)

RawBinEv ==
    /\ IsEvent("rawbin")
    /\ ~Utf8Valid(E.bytes) => E.res = <<"err">>

Next == Reset \/ DecodeEv \/ RoundtripEv \/ RawBinEv

Spec == Init /\ [][Next]_vars

Remember == TLCSet(1, [l |-> l])

Accepted ==
    LET d == TLCGet("stats").diameter IN
    IF d - 1 = Len(Rec) THEN TRUE
    ELSE /\ PrintT(<<"TRACE_REJECTED", d, ToJson([x \in {"ev", "dir", "n"} \cap DOMAIN Rec[d] |-> Rec[d][x]])>>)
         /\ PrintT(<<"LAST_STATE", ToJson(TLCGet(1))>>)
         /\ FALSE
=============================================================================
