--------------------------- MODULE Watchdog_Trace ---------------------------
(* One line per fault scenario run on a real tracker process: the fault's   *)
(* and run()'s return's timestamps come from the child's monotonic clock.   *)
EXTENDS Naturals, Integers, Sequences, TLC, Json, IOUtils
Rec == ndJsonDeserialize(IOEnv.TRACE)
VARIABLE l
Init == l = 1
E == Rec[l]
Scenario ==
    /\ l <= Len(Rec) /\ E.ev = "scenario" /\ l' = l + 1
    \* run() returned an error, after the fault, within ten seconds of it
    /\ E.result = "err"
    /\ E.return_ms >= E.fault_ms
    /\ E.return_ms - E.fault_ms <= 10000
Reset == l <= Len(Rec) /\ E.ev = "reset" /\ l' = l + 1
Next == Scenario \/ Reset
Spec == Init /\ [][Next]_l
Remember == TLCSet(1, [l |-> l])
Accepted ==
    LET d == TLCGet("stats").diameter IN
    IF d - 1 = Len(Rec) THEN TRUE
    ELSE PrintT(<<"TRACE_REJECTED", d, ToJson(Rec[d])>>) /\ FALSE
=============================================================================
