--------------------------- MODULE RefTracker ---------------------------
(***************************************************************************)
(* The reference tracker of properties C01 / C07 / C08 as pure operators.  *)
(*                                                                         *)
(* A store is a function whose DOMAIN is the set of torrents that have at  *)
(* least one stored peer; a torrent is any value (the trackers use         *)
(* <<family, info_hash>>).  store[t] is a function from peer keys to       *)
(* entries.  A key is <<ip, port>> for UDP/HTTP and a peer id for          *)
(* WebTorrent.  An entry is a record with at least the fields              *)
(*     seeder   : BOOLEAN                                                  *)
(*     deadline : Nat     (first second at which the entry is expired)     *)
(* Torrents without peers are never in the DOMAIN (normal form), which is  *)
(* the reference meaning of "indistinguishable from one never seen".       *)
(***************************************************************************)
EXTENDS Naturals, Integers, Sequences, FiniteSets, TLC

EmptyFn == <<>>                         \* the function with empty DOMAIN

Min2(a, b) == IF a <= b THEN a ELSE b
Max2(a, b) == IF a >= b THEN a ELSE b

(* Peer status from the announce event and the sign of `left` (the number *)
(* of bytes left): -1 negative, 0 zero, 1 positive, 2 absent (WebTorrent). *)
Status(event, leftSign) ==
    IF event = "stopped" THEN "stopped"
    ELSE IF leftSign = 0 THEN "seeding"
    ELSE "leeching"

(* An entry is valid (kept by a cleaning pass) while deadline > now. *)
Valid(deadline, now) == deadline > now

Peers(store, t) == IF t \in DOMAIN store THEN store[t] ELSE EmptyFn

Restrict(f, S) == [x \in S |-> f[x]]

Without(f, k) == Restrict(f, DOMAIN f \ {k})

NumSeeders(pm)  == Cardinality({k \in DOMAIN pm : pm[k].seeder})
NumLeechers(pm) == Cardinality({k \in DOMAIN pm : ~pm[k].seeder})

(* store with torrent t set to pm, normalised *)
Put(store, t, pm) ==
    IF DOMAIN pm = {}
    THEN Restrict(store, DOMAIN store \ {t})
    ELSE [x \in DOMAIN store \cup {t} |-> IF x = t THEN pm ELSE store[x]]

(* Effective limit on the number of peers handed out. *)
Limit(numwant, cfgmax) ==
    IF numwant <= 0 THEN cfgmax ELSE Min2(cfgmax, numwant)

(***************************************************************************)
(* Announce.  The reply counts EXCLUDE the announcer (UDP, HTTP) when      *)
(* inclSelf = FALSE and INCLUDE it after the update when inclSelf = TRUE   *)
(* (WebTorrent).                                                           *)
(***************************************************************************)
AnnounceStore(store, t, key, status, entry) ==
    LET others == Without(Peers(store, t), key)
        new    == IF status = "stopped" THEN others
                  ELSE [x \in DOMAIN others \cup {key} |->
                           IF x = key THEN entry ELSE others[x]]
    IN  Put(store, t, new)

AnnounceCountsExcl(store, t, key) ==
    LET others == Without(Peers(store, t), key)
    IN  [seeders |-> NumSeeders(others), leechers |-> NumLeechers(others)]

AnnounceCountsIncl(store, t, key, status, entry) ==
    LET pm == Peers(AnnounceStore(store, t, key, status, entry), t)
    IN  [seeders |-> NumSeeders(pm), leechers |-> NumLeechers(pm)]

(* The peers a reply may contain: every stored key of t except the requester *)
Candidates(store, t, key) == DOMAIN Peers(store, t) \ {key}

(***************************************************************************)
(* C02 for UDP/HTTP at the level of the statement: `peers` is a sequence   *)
(* of keys.  slack = 1 for UDP/HTTP ("at least limit-1"), 0 for WebTorrent.*)
(***************************************************************************)
IsInjectiveSeq(s) == \A i, j \in 1..Len(s) : s[i] = s[j] => i = j
SeqRange(s) == {s[i] : i \in 1..Len(s)}

PeerListOK(peers, cands, limit, slack) ==
    /\ IsInjectiveSeq(peers)
    /\ SeqRange(peers) \subseteq cands
    /\ Len(peers) <= limit
    /\ IF Cardinality(cands) <= limit
       THEN Len(peers) = Cardinality(cands)
       ELSE Len(peers) >= limit - slack

(* Scrape of one torrent: counts include every stored peer. *)
ScrapeCounts(store, t) ==
    LET pm == Peers(store, t)
    IN  [seeders |-> NumSeeders(pm), leechers |-> NumLeechers(pm)]

(* Cleaning pass at time `now`: drops expired entries of every torrent and *)
(* every torrent for which Forbidden(t) holds.                             *)
CleanStore(store, now, Forbidden(_)) ==
    LET keep(t) == {k \in DOMAIN store[t] : Valid(store[t][k].deadline, now)}
        live    == {t \in DOMAIN store : ~Forbidden(t) /\ keep(t) # {}}
    IN  [t \in live |-> Restrict(store[t], keep(t))]

NothingForbidden(t) == FALSE

TotalPeers(store, T) ==
    LET RECURSIVE Sum(_)
        Sum(S) == IF S = {} THEN 0
                  ELSE LET x == CHOOSE x \in S : TRUE
                       IN Cardinality(DOMAIN store[x]) + Sum(S \ {x})
    IN Sum(T)
=============================================================================
