SPECIFICATION Spec
CONSTANTS
  Workers = {1, 2}
  SocketsPerWorker = 2
  Drop = TRUE
INVARIANTS EmitTerminal
CHECK_DEADLOCK FALSE
