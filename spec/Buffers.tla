------------------------------- MODULE Buffers -------------------------------
(***************************************************************************)
(* Reply and request sizes against the fixed buffers of the trackers       *)
(* (property C18).  Constants mirrored from the code:                      *)
(*   UDP mio      BUFFER_SIZE 8192 (receive and send)                      *)
(*   UDP io_uring REQUEST_BUF_LEN 512 including recvmsg metadata           *)
(*                (io_uring_recvmsg_out 16 bytes + the socket address),    *)
(*                RESPONSE_BUF_LEN 2048                                    *)
(*   HTTP         REQUEST_BUFFER_SIZE 2048, RESPONSE_BUFFER_SIZE 4096      *)
(*                (the response buffer also holds the 45-byte header and   *)
(*                the final CRLF)                                          *)
(* None of the trackers validates max_response_peers / max_peers /         *)
(* max_scrape_torrents against these at start-up (Accepted == TRUE).       *)
(***************************************************************************)
EXTENDS Naturals, Sequences, FiniteSets, TLC

RECURSIVE Digits(_)
Digits(n) == IF n < 10 THEN 1 ELSE 1 + Digits(n \div 10)

PeerLen(fam) == IF fam = 4 THEN 6 ELSE 18

(* BEP 15 *)
UdpAnnounceReqLen == 98
UdpScrapeReqLen(n) == 16 + 20 * n
UdpAnnounceLen(fam, n) == 20 + n * PeerLen(fam)
UdpScrapeLen(n) == 8 + 12 * n

UdpSendBuf(backend) == IF backend = "mio" THEN 8192 ELSE 2048
UdpRecvBuf(backend, fam) == IF backend = "mio" THEN 8192 ELSE 512 - 16 - (IF fam = 4 THEN 16 ELSE 28)

(* HTTP: canonical bencode as written by aquatic_http_protocol *)
HttpHeaderLen == 45
BStr(n) == Digits(n) + 1 + n                 \* "<n>:" + n bytes
BInt(v) == 2 + Digits(v)                     \* "i" v "e"
HttpAnnounceBody(fam, n, complete, incomplete, interval) ==
    1 + (10 + BInt(complete)) + (13 + BInt(incomplete)) + (10 + BInt(interval))
      + (7 + BStr(IF fam = 4 THEN 6 * n ELSE 0)) + (8 + BStr(IF fam = 6 THEN 18 * n ELSE 0)) + 1
HttpScrapeFile(c, i) == 23 + 1 + (10 + BInt(c)) + (13 + BInt(0)) + (13 + BInt(i)) + 1
HttpScrapeBody(n, c, i) == 9 + n * HttpScrapeFile(c, i) + 2
HttpReplyLen(body) == HttpHeaderLen + body + 2
HttpSendBuf == 4096
HttpRecvBuf == 2048
(* shortest scrape request with n hashes made of unreserved ASCII characters *)
HttpScrapeReqLen(n) == 12 + 31 * n - 1 + 13

(* a request is accepted if it fits the receive buffer; its reply is delivered if it fits the send buffer *)
Case(tracker, backend, kind, fam, n) ==
    LET reqlen == CASE tracker = "udp" /\ kind = "announce" -> UdpAnnounceReqLen
                    [] tracker = "udp" /\ kind = "scrape" -> UdpScrapeReqLen(n)
                    [] tracker = "http" /\ kind = "announce" -> 300
                    [] tracker = "http" /\ kind = "scrape" -> HttpScrapeReqLen(n)
        replylen == CASE tracker = "udp" /\ kind = "announce" -> UdpAnnounceLen(fam, n)
                      [] tracker = "udp" /\ kind = "scrape" -> UdpScrapeLen(n)
                      [] tracker = "http" /\ kind = "announce" -> HttpReplyLen(HttpAnnounceBody(fam, n, 0, n, 120))
                      [] tracker = "http" /\ kind = "scrape" -> HttpReplyLen(HttpScrapeBody(n, 0, 1))
        recvbuf == IF tracker = "udp" THEN UdpRecvBuf(backend, fam) ELSE HttpRecvBuf
        sendbuf == IF tracker = "udp" THEN UdpSendBuf(backend) ELSE HttpSendBuf
    IN [tracker |-> tracker, backend |-> backend, kind |-> kind, fam |-> fam, n |-> n,
        reqlen |-> reqlen, replylen |-> replylen,
        received |-> reqlen <= recvbuf,
        delivered |-> reqlen <= recvbuf /\ replylen <= sendbuf]

(* the largest n for which Case(...).delivered, found by search: boundaries of the grid *)
Boundary(tracker, backend, kind, fam, limit) ==
    CHOOSE n \in 0..limit : Case(tracker, backend, kind, fam, n).delivered
                            /\ (n = limit \/ ~Case(tracker, backend, kind, fam, n + 1).delivered)
=============================================================================
