------------------------------ MODULE WsServer ------------------------------
(***************************************************************************)
(* The WebTorrent tracker between its WebSocket connections and its swarm  *)
(* workers (crates/ws/src/workers/socket/{mod,connection}.rs and           *)
(* workers/swarm/mod.rs): socket workers with per-worker slot-map          *)
(* connection keys, swarm workers, and the three channel meshes - in       *)
(* messages, out messages, control messages - as independent FIFO queues.  *)
(* Property C17.                                                           *)
(*                                                                         *)
(* A connection is <<socket worker, slot key>>; slot keys repeat across    *)
(* socket workers.  Swarm storage is abstracted to hash -> pid -> owner    *)
(* (its own correctness is C08).                                           *)
(*                                                                         *)
(* RouteByConsumer = FALSE sends every out-message to socket worker 1      *)
(* (routing by connection key only): negative control.                     *)
(***************************************************************************)
EXTENDS Naturals, Sequences, FiniteSets, TLC

CONSTANTS Conns, SwarmWorkers, Hashes, Pids, RouteByConsumer, MaxOps,
          QuiescentClose   \* TRUE: a connection closes only when none of its announces is still queued

VARIABLES open, closed, ann, inq, ctl, outq, swarm, delivered, pendscr, nops
vars == <<open, closed, ann, inq, ctl, outq, swarm, delivered, pendscr, nops>>

SockWorkers == {c[1] : c \in Conns}
WorkerOf(h) == (h % Cardinality(SwarmWorkers)) + 1
FnPut(f, k, v) == [x \in DOMAIN f \cup {k} |-> IF x = k THEN v ELSE f[x]]
FnDel(f, k) == [x \in DOMAIN f \ {k} |-> f[x]]
Peers(s, h) == IF h \in DOMAIN s THEN s[h] ELSE <<>>

InFlight(c) == \E w \in SwarmWorkers, p \in SockWorkers : \E i \in 1..Len(inq[w][p]) : inq[w][p][i].conn = c

Init ==
    /\ open = Conns /\ closed = {}
    /\ ann = [c \in Conns |-> <<>>]
    /\ inq = [w \in SwarmWorkers |-> [p \in SockWorkers |-> <<>>]]    \* one queue per (producer, consumer)
    /\ ctl = [w \in SwarmWorkers |-> [p \in SockWorkers |-> <<>>]]
    /\ outq = [p \in SockWorkers |-> <<>>]
    /\ swarm = [w \in SwarmWorkers |-> <<>>]
    /\ delivered = {}
    /\ pendscr = [c \in Conns |-> {}]
    /\ nops = 0

(* socket worker: announce received on connection c *)
ClientAnnounce(c, h, pid, offer) ==
    /\ c \in open /\ nops < MaxOps
    /\ nops' = nops + 1
    /\ (QuiescentClose /\ h \in DOMAIN ann[c] /\ ann[c][h] # pid) => ~InFlight(c)
    /\ IF h \in DOMAIN ann[c] /\ ann[c][h] # pid
       THEN \* second peer id: error on this connection, connection closed by the tracker
            /\ delivered' = delivered \cup {[conn |-> c, kind |-> "error", intended |-> c]}
            /\ open' = open \ {c} /\ closed' = closed \cup {c}
            /\ ctl' = [w \in SwarmWorkers |->
                         LET mine == {x \in DOMAIN ann[c] : WorkerOf(x) = w} IN
                         IF mine = {} THEN ctl[w]
                         ELSE [ctl[w] EXCEPT ![c[1]] = Append(@, [conn |-> c, pairs |-> {<<x, ann[c][x]>> : x \in mine}])]]
            /\ ann' = [ann EXCEPT ![c] = <<>>]
            /\ UNCHANGED <<inq, outq, swarm, pendscr>>
       ELSE /\ ann' = [ann EXCEPT ![c] = FnPut(@, h, pid)]
            /\ inq' = [inq EXCEPT ![WorkerOf(h)][c[1]] =
                          Append(@, [kind |-> "announce", conn |-> c, h |-> h, pid |-> pid, offer |-> offer])]
            /\ UNCHANGED <<open, closed, ctl, outq, swarm, delivered, pendscr>>

(* socket worker: scrape of a set of hashes, split by swarm worker, merged when all parts are back *)
ClientScrape(c, hs) ==
    /\ c \in open /\ nops < MaxOps /\ pendscr[c] = {} /\ hs # {}
    /\ nops' = nops + 1
    /\ LET ws == {WorkerOf(h) : h \in hs} IN
       /\ pendscr' = [pendscr EXCEPT ![c] = ws]
       /\ inq' = [w \in SwarmWorkers |->
                    IF w \in ws THEN [inq[w] EXCEPT ![c[1]] = Append(@, [kind |-> "scrape", conn |-> c])]
                    ELSE inq[w]]
    /\ UNCHANGED <<open, closed, ann, ctl, outq, swarm, delivered>>

(* connection closed or dropped: one ConnectionClosed per involved swarm worker, on the control mesh *)
ClientClose(c) ==
    /\ c \in open
    /\ QuiescentClose => ~InFlight(c)
    /\ open' = open \ {c} /\ closed' = closed \cup {c}
    /\ ctl' = [w \in SwarmWorkers |->
                 LET mine == {x \in DOMAIN ann[c] : WorkerOf(x) = w} IN
                 IF mine = {} THEN ctl[w]
                 ELSE [ctl[w] EXCEPT ![c[1]] = Append(@, [conn |-> c, pairs |-> {<<x, ann[c][x]>> : x \in mine}])]]
    /\ ann' = [ann EXCEPT ![c] = <<>>]
    /\ UNCHANGED <<inq, outq, swarm, delivered, pendscr, nops>>

Target(m) == IF RouteByConsumer THEN m.to[1] ELSE 1

(* swarm worker w serves the in-message queue fed by socket worker p *)
SwarmIn(w, p) ==
    /\ inq[w][p] # <<>>
    /\ LET m == Head(inq[w][p]) IN
       /\ inq' = [inq EXCEPT ![w][p] = Tail(@)]
       /\ IF m.kind = "announce"
          THEN LET pm == Peers(swarm[w], m.h) IN
               IF m.pid \in DOMAIN pm /\ pm[m.pid] # m.conn
               THEN UNCHANGED <<swarm, outq>>                 \* owned by another connection: ignored
               ELSE LET others == DOMAIN pm \ {m.pid}
                        recv == IF m.offer /\ others # {} THEN {CHOOSE q \in others : TRUE} ELSE {}
                        offs == {[to |-> pm[q], kind |-> "offer", intended |-> pm[q]] : q \in recv}
                        resp == [to |-> m.conn, kind |-> "announce", intended |-> m.conn]
                        RECURSIVE Push(_, _)
                        Push(oq, S) == IF S = {} THEN oq
                                       ELSE LET x == CHOOSE x \in S : TRUE
                                            IN Push([oq EXCEPT ![Target(x)] = Append(@, x)], S \ {x})
                    IN /\ swarm' = [swarm EXCEPT ![w] = FnPut(@, m.h, FnPut(pm, m.pid, m.conn))]
                       /\ outq' = Push(outq, offs \cup {resp})
          ELSE /\ outq' = [outq EXCEPT ![Target([to |-> m.conn])] =
                              Append(@, [to |-> m.conn, kind |-> "scrapepart", intended |-> m.conn, from |-> w])]
               /\ UNCHANGED swarm
    /\ UNCHANGED <<open, closed, ann, ctl, delivered, pendscr, nops>>

(* swarm worker w serves the control queue fed by socket worker p (an independent task) *)
SwarmCtl(w, p) ==
    /\ ctl[w][p] # <<>>
    /\ LET m == Head(ctl[w][p]) IN
       /\ ctl' = [ctl EXCEPT ![w][p] = Tail(@)]
       /\ swarm' = [swarm EXCEPT ![w] =
                      [h \in DOMAIN @ |->
                         [q \in {q \in DOMAIN @[h] : ~(<<h, q>> \in m.pairs /\ @[h][q] = m.conn)} |-> @[h][q]]]]
    /\ UNCHANGED <<open, closed, ann, inq, outq, delivered, pendscr, nops>>

(* socket worker p delivers an out-message to the connection in the addressed slot, if it is open *)
SockOut(p) ==
    /\ outq[p] # <<>>
    /\ LET m == Head(outq[p])
           c == <<p, m.to[2]>>
       IN /\ outq' = [outq EXCEPT ![p] = Tail(@)]
          /\ IF c \in open
             THEN IF m.kind = "scrapepart"
                  THEN /\ pendscr' = [pendscr EXCEPT ![c] = @ \ {m.from}]
                       /\ delivered' = IF pendscr[c] \ {m.from} = {} /\ pendscr[c] # {}
                                       THEN delivered \cup {[conn |-> c, kind |-> "scrape", intended |-> m.intended]}
                                       ELSE delivered
                  ELSE /\ delivered' = delivered \cup {[conn |-> c, kind |-> m.kind, intended |-> m.intended]}
                       /\ UNCHANGED pendscr
             ELSE UNCHANGED <<delivered, pendscr>>
    /\ UNCHANGED <<open, closed, ann, inq, ctl, swarm, nops>>

Next ==
    \/ \E c \in Conns, h \in Hashes, pid \in Pids, offer \in BOOLEAN : ClientAnnounce(c, h, pid, offer)
    \/ \E c \in Conns, hs \in SUBSET Hashes : ClientScrape(c, hs)
    \/ \E c \in Conns : ClientClose(c)
    \/ \E w \in SwarmWorkers, p \in SockWorkers : SwarmIn(w, p) \/ SwarmCtl(w, p)
    \/ \E p \in SockWorkers : SockOut(p)

Spec == Init /\ [][Next]_vars

----------------------------------------------------------------------------
(* C17 *)

(* every forwarded message reaches exactly the connection it is meant for, and no other *)
DeliveredOnlyToAddressee == \A d \in delivered : d.conn = d.intended

Quiescent ==
    /\ \A w \in SwarmWorkers, p \in SockWorkers : inq[w][p] = <<>> /\ ctl[w][p] = <<>>
    /\ \A p \in SockWorkers : outq[p] = <<>>

StoredOwners == UNION {UNION {{swarm[w][h][q] : q \in DOMAIN swarm[w][h]} : h \in DOMAIN swarm[w]} : w \in SwarmWorkers}

(* Once everything has drained, no swarm worker stores an entry of a closed connection - PROVIDED no  *)
(* announce of that connection was still in flight when it closed: the in-message mesh and the control *)
(* mesh are independent queues, so a ConnectionClosed can overtake a queued announce (see DESIGN.md).   *)
ClosedLeavesNothing == Quiescent => StoredOwners \cap closed = {}

(* Liveness under weak fairness of the workers: a scrape whose connection stays open is eventually  *)
(* answered (all parts merged), whatever else goes on                                               *)
FairSpec == Spec /\ (\A w \in SwarmWorkers, p \in SockWorkers : WF_vars(SwarmIn(w, p)) /\ WF_vars(SwarmCtl(w, p)))
                 /\ (\A p \in SockWorkers : WF_vars(SockOut(p)))
ScrapeAnswered == \A c \in Conns : (pendscr[c] # {}) ~> (pendscr[c] = {} \/ c \notin open)
=============================================================================
