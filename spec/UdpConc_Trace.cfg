SPECIFICATION TSpec
CONSTANTS
  Threads <- TThreads
  Catalogue <- TCatalogue
  GuardEnabled = TRUE
  NoThread = 0
  RecursiveScrape = FALSE
INVARIANT Mark
INVARIANT Linearizable
INVARIANT NoLostAnnounce
INVARIANT NoOrphanWrite
INVARIANT LockSanity
POSTCONDITION Accepted
CHECK_DEADLOCK FALSE
