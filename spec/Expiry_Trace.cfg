SPECIFICATION Spec
INVARIANT Remember
POSTCONDITION Accepted
CHECK_DEADLOCK FALSE
