---------------------------- MODULE UdpSwarm_MC ----------------------------
EXTENDS UdpSwarm

SymKeys == Permutations(Keys)

MCScrapeLists == {<<h>> : h \in Hashes} \cup {<<h1, h2>> : h1 \in Hashes, h2 \in Hashes}
TimeNumWants == {-1}
TimeScrapeLists == {<<h>> : h \in Hashes}
MCNumWants == {-1, 1, 2}
=============================================================================
