--------------------------- MODULE PeerSelect_MC ---------------------------
(* Exhaustive evaluation of the peer-selection arithmetic (C02) for every   *)
(* swarm size and limit up to N, every requester position and EVERY outcome *)
(* of the two random offsets.                                               *)
EXTENDS PeerSelect, TLC

CONSTANTS N, OffByOne      \* OffByOne = TRUE: negative control (broken range)

VARIABLES len, limit
vars == <<len, limit>>

Init == len = 0 /\ limit = 0
Next == \/ len < N /\ len' = len + 1 /\ limit' = limit
        \/ limit < N /\ limit' = limit + 1 /\ len' = len
Spec == Init /\ [][Next]_vars

Inj(s) == \A i, j \in 1..Len(s) : s[i] = s[j] => i = j
Rng(s) == {s[i] : i \in 1..Len(s)}

(* negative control: a selection with an inclusive upper bound *)
BrokenUH(l, lim, o1, o2) ==
    IF l <= lim THEN Span(1, l)
    ELSE GetRange(l, o1, o1 + UHPerHalf(lim) + 1) \o GetRange(l, o2, o2 + UHPerHalf(lim))

UHResult(l, lim, o) == IF OffByOne THEN BrokenUH(l, lim, o[1], o[2]) ELSE ExtractUH(l, lim, o[1], o[2])

(* UDP / HTTP: positions 1..len are the other peers (requester already removed) *)
UHSound ==
    /\ UHNoUnderflow(len, limit)
    /\ \A o \in UHOffsets(len, limit) :
         LET r == UHResult(len, limit, o) IN
         /\ UHRangesInBounds(len, limit, o[1], o[2])
         /\ Inj(r)
         /\ Rng(r) \subseteq 1..len
         /\ Len(r) <= limit
         /\ IF len <= limit THEN Len(r) = len ELSE Len(r) >= limit - 1

(* WebTorrent: the sender may be stored at any position, or not at all (0) *)
WsSound ==
    /\ WsNoUnderflow(len, limit)
    /\ \A sender \in 0..len : \A o \in WsOffsets(len, limit) :
         LET r == ExtractWs(len, limit, sender, o[1], o[2])
             others == len - (IF sender = 0 THEN 0 ELSE 1)
         IN
         /\ WsRangesInBounds(len, limit, o[1], o[2])
         /\ Inj(r)
         /\ Rng(r) \subseteq (1..len) \ {sender}
         /\ Len(r) <= limit
         /\ IF others <= limit THEN Len(r) = others ELSE Len(r) = limit

(* clamping rules of the three trackers *)
LOCAL Min2(a, b) == IF a <= b THEN a ELSE b
LimitUdp(numwant, cfgmax) == IF numwant <= 0 THEN cfgmax ELSE Min2(cfgmax, numwant)
LimitOK ==
    \A nw \in -2..(N + 2) : \A mx \in 0..N :
        LET l == LimitUdp(nw, mx) IN l <= mx /\ (nw > 0 => l <= nw) /\ (nw <= 0 => l = mx)
=============================================================================
