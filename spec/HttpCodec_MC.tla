--------------------------- MODULE HttpCodec_MC ---------------------------
(***************************************************************************)
(* TLC as an evaluator of the reference codec: every state is one input    *)
(* case (a shape plus a deterministic filling of its values).  The         *)
(* invariants are the codec's own laws and decision tables; the shapes are *)
(* printed (CASE lines) and concretised again, with other values, by       *)
(* lib/c14.py for execution on the real library.                           *)
(***************************************************************************)
EXTENDS HttpCodec, Json

CONSTANTS Quick   \* TRUE: only a third of the 720 orders of the required keys

VARIABLES
    phase,   \* "root" -> "group" -> "case"
    c,       \* the group key / the case
    ok       \* the laws hold for the case (evaluated in the action: TLC caches operator
             \* arguments there, not in invariants)
vars == <<phase, c, ok>>

----------------------------------------------------------------------------
(* deterministic values *)

BV(j, z) == (j * 37 + z * 101 + 13) % 256
RawSafe(b) == IF b \in {Pct, Amp, EqSgn, Plus} THEN 65 ELSE b
Bytes(n, z) == CASE z = 0 -> [i \in 1..n |-> 0]
                 [] z = 1 -> [i \in 1..n |-> 255]
                 [] OTHER -> [i \in 1..n |-> BV(i, z)]
(* counts in replies stay below 2^63 *)
Count8(z) == CASE z = 0 -> Zero8
               [] z = 1 -> <<127, 255, 255, 255, 255, 255, 255, 255>>
               [] OTHER -> [i \in 1..8 |-> IF i = 1 THEN BV(i, z) % 128 ELSE BV(i, z)]

----------------------------------------------------------------------------
(* identifier strings: a sequence of units, each raw or escaped, plus at    *)
(* most one broken escape inserted after `dpos` units                       *)

UnitKinds == {"raw", "escU", "escL", "escM"}

RenderUnit(kind, b) ==
    CASE kind = "raw"  -> <<RawSafe(b)>>
      [] kind = "escU" -> <<Pct, HexU(b \div 16), HexU(b % 16)>>
      [] kind = "escL" -> <<Pct, HexL(b \div 16), HexL(b % 16)>>
      [] kind = "escM" -> <<Pct, HexU(b \div 16), HexL(b % 16)>>
UnitByte(kind, b) == IF kind = "raw" THEN RawSafe(b) ELSE b

(* non-hexadecimal characters next to the three hexadecimal ranges *)
BadHexChars == {47, 58, 64, 71, 96, 103}

DefectToken(d, bad) ==
    CASE d = "none"   -> <<>>
      [] d = "trunc1" -> <<Pct>>
      [] d = "trunc2" -> <<Pct, 52>>
      [] d = "bad1"   -> <<Pct, bad, 48>>
      [] d = "bad2"   -> <<Pct, 65, bad>>

RECURSIVE RenderUnits(_, _, _, _)
RenderUnits(units, z, from, to) ==
    IF from > to THEN <<>>
    ELSE RenderUnit(units[from], BV(from, z)) \o RenderUnits(units, z, from + 1, to)

RenderId(sh, z, bad) ==
    RenderUnits(sh.units, z, 1, sh.dpos) \o DefectToken(sh.defect, bad)
    \o RenderUnits(sh.units, z, sh.dpos + 1, Len(sh.units))

IdBytes(sh, z) == [i \in 1..Len(sh.units) |-> UnitByte(sh.units[i], BV(i, z))]

AllOf(n, k) == [i \in 1..n |-> k]
Alt(n) == [i \in 1..n |-> IF i % 2 = 1 THEN "raw" ELSE "escL"]
One(n, k, p) == [i \in 1..n |-> IF i = p THEN k ELSE "raw"]
Patterns(n) == {AllOf(n, k) : k \in UnitKinds} \cup {Alt(n)}
               \cup {One(n, k, p) : k \in UnitKinds \ {"raw"}, p \in {1, (n + 1) \div 2, n} \cap 1..n}

(* identifiers whose TEXT is exactly tl characters long although they have fewer than tl units:     *)
(* m escapes (3 characters each) first or last, raw characters otherwise - a parser that looks at    *)
(* the length of the text (20: "already plain", 60: "fully escaped") instead of counting decoded     *)
(* bytes meets its boundary here                                                                     *)
TextLen(tl, k, ms) ==
    {[i \in 1..(tl - 2 * m) |-> IF i <= m THEN k ELSE "raw"] : m \in ms}
    \cup {[i \in 1..(tl - 2 * m) |-> IF i > tl - 3 * m THEN k ELSE "raw"] : m \in ms}

UrlShapes ==
    {[k |-> "url", units |-> u, defect |-> "none", dpos |-> 0] :
        u \in UNION {Patterns(n) : n \in 0..22}
              \cup UNION {TextLen(20, k, 1..6) : k \in {"escL", "escU"}}
              \cup TextLen(60, "escL", {1, 10, 19}) \cup {AllOf(60, "raw"), AllOf(40, "raw")}}
    \cup
    {[k |-> "url", units |-> u, defect |-> d, dpos |-> p] :
        u \in UNION {{AllOf(n, "raw"), AllOf(n, "escL"), Alt(n)} : n \in {0, 18, 19, 20, 21}},
        d \in {"bad1", "bad2"}, p \in 0..22}
    \cup
    {[k |-> "url", units |-> u, defect |-> d, dpos |-> 22] :
        u \in UNION {{AllOf(n, "raw"), AllOf(n, "escL"), Alt(n)} : n \in {0, 18, 19, 20, 21}},
        d \in {"trunc1", "trunc2"}}

(* dpos is cut to the number of units *)
NormUrl(sh) == [sh EXCEPT !.dpos = IF sh.dpos > Len(sh.units) THEN Len(sh.units) ELSE sh.dpos]
UrlShapesN == {NormUrl(sh) : sh \in {s \in UrlShapes :
                   s.defect \in {"none", "trunc1", "trunc2"}
                   \/ s.dpos \in {0, Len(s.units) \div 2, Len(s.units)}}}

UrlCases == {[sh |-> sh, z |-> z, bad |-> bad] :
               sh \in UrlShapesN, z \in {2, 3},
               bad \in BadHexChars}

(* one bad character is enough where there is no broken escape *)
UrlCasesN == {x \in UrlCases : x.sh.defect \in {"bad1", "bad2"} \/ x.bad = 103}

UrlLaw2(x, s, r) ==
    /\ IdDomain(s)
    /\ IF x.sh.defect = "none" /\ Len(x.sh.units) = 20
       THEN r = [ok |-> TRUE, v |-> IdBytes(x.sh, x.z)]
       ELSE r = Reject
    \* the writer's form decodes to the bytes written
    /\ (Len(x.sh.units) = 20) =>
          UrlDecode20(UrlEncode20(IdBytes(x.sh, x.z))) = [ok |-> TRUE, v |-> IdBytes(x.sh, x.z)]
UrlLaw1(x, s) == UrlLaw2(x, s, UrlDecode20(s))
UrlLaw(x) == UrlLaw1(x, RenderId(x.sh, x.z, x.bad))

----------------------------------------------------------------------------
(* query strings: orders of parameters *)

Req6 == <<"info_hash", "peer_id", "port", "uploaded", "downloaded", "left">>
Opt4 == <<"event", "numwant", "key", "compact">>
Unk2 == <<"unk1", "unk2">>

Rot(s, r) == [i \in 1..Len(s) |-> s[((i - 1 + r) % Len(s)) + 1]]
Rev(s) == [i \in 1..Len(s) |-> s[Len(s) + 1 - i]]
Without(s, x) == SelectSeq(s, LAMBDA y : y # x)
SubsetSeq(s, T) == SelectSeq(s, LAMBDA y : y \in T)

Events == {"started", "stopped", "completed", "empty"}

PermOrders == {[i \in 1..6 |-> Req6[p[i]]] : p \in Permutations(1..6)}
PermOrdersUsed == IF Quick THEN {o \in PermOrders : o[1] \in {"left", "peer_id"}} ELSE PermOrders

FullOrder == Req6 \o Opt4 \o Unk2
AnnounceOrders ==
    PermOrdersUsed
    \cup {Rot(FullOrder, r) : r \in 0..11} \cup {Rev(Rot(FullOrder, r)) : r \in 0..11}
    \* optional parameters present / absent, before, after, in the middle
    \cup UNION {{SubsetSeq(Opt4, T) \o Req6, Req6 \o SubsetSeq(Opt4, T),
                 SubSeq(Req6, 1, 3) \o SubsetSeq(Opt4, T) \o SubSeq(Req6, 4, 6)} : T \in SUBSET SeqRange(Opt4)}
    \* unknown keys first, last, both, in the middle
    \cup {<<"unk1">> \o Req6, Req6 \o <<"unk2">>, <<"unk2">> \o Req6 \o <<"unk1">>,
          SubSeq(Req6, 1, 2) \o Unk2 \o SubSeq(Req6, 3, 6)}
    \* a required parameter is missing
    \cup {Without(Req6, x) : x \in SeqRange(Req6)} \cup {Without(FullOrder, x) : x \in SeqRange(Req6)}

ScrapeOrders == {o \in UNION {[1..n -> {"info_hash", "unk1"}] : n \in 1..4} :
                    \E i \in 1..Len(o) : o[i] = "info_hash"}

QueryShapes ==
    {[k |-> "query", target |-> "announce", order |-> o, event |-> e] :
        o \in AnnounceOrders, e \in Events}
    \cup {[k |-> "query", target |-> "scrape", order |-> o, event |-> "empty"] : o \in ScrapeOrders}

(* the event value only matters where the parameter is present *)
QueryShapesN == {sh \in QueryShapes : "event" \in SeqRange(sh.order) \/ sh.event = "empty"}

IdForm(z) == CASE z % 3 = 0 -> AllOf(20, "escL") [] z % 3 = 1 -> Alt(20) [] OTHER -> AllOf(20, "escU")
IdShape(z) == [units |-> IdForm(z), defect |-> "none", dpos |-> 0]

KeyText == S(<<"a","b","4","_","z">>) \o <<Pct, 50, 48>>      \* "ab4_z%20" -> "ab4_z "
KeyBytes == S(<<"a","b","4","_","z"," ">>)

(* request denoted by a filling z; the i-th info_hash of a scrape uses z + i *)
AnnounceOf(sh, z) ==
    [kind |-> "announce", info_hash |-> IdBytes(IdShape(z), z), peer_id |-> IdBytes(IdShape(z + 1), z + 1),
     port |-> Bytes(2, z), uploaded |-> Bytes(8, z), downloaded |-> Bytes(8, z + 1), left |-> Bytes(8, z + 2),
     event |-> IF "event" \in SeqRange(sh.order) THEN sh.event ELSE "empty",
     numwant |-> IF "numwant" \in SeqRange(sh.order) THEN <<Bytes(8, z + 3)>> ELSE <<>>,
     key |-> IF "key" \in SeqRange(sh.order) THEN <<KeyBytes>> ELSE <<>>]

ParamText(name, sh, z, i) ==
    CASE name = "info_hash" ->
            IF sh.target = "announce" THEN <<K_info_hash, RenderId(IdShape(z), z, 103)>>
            ELSE <<K_info_hash, RenderId(IdShape(z + i), z + i, 103)>>
      [] name = "peer_id"    -> <<K_peer_id, RenderId(IdShape(z + 1), z + 1, 103)>>
      [] name = "port"       -> <<K_port, DecBytes(Bytes(2, z))>>
      [] name = "uploaded"   -> <<K_uploaded, DecBytes(Bytes(8, z))>>
      [] name = "downloaded" -> <<K_downloaded, DecBytes(Bytes(8, z + 1))>>
      [] name = "left"       -> <<K_left, DecBytes(Bytes(8, z + 2))>>
      [] name = "event"      -> <<K_event, EventValue(sh.event)>>
      [] name = "numwant"    -> <<K_numwant, DecBytes(Bytes(8, z + 3))>>
      [] name = "key"        -> <<K_key, KeyText>>
      [] name = "compact"    -> <<K_compact, <<49>> >>
      [] name = "unk1"       -> <<S(<<"s","u","p","p","o","r","t","c","r","y","p","t","o">>), <<49>> >>
      [] name = "unk2"       -> <<S(<<"x">>), <<>> >>

QueryText(sh, z) == WriteQuery([i \in 1..Len(sh.order) |-> ParamText(sh.order[i], sh, z, i)])

QueryCases == {[sh |-> sh, z |-> z] : sh \in QueryShapesN, z \in {0, 1, 2}}

InfoHashIdx(order) == SelectSeq([i \in 1..Len(order) |-> i], LAMBDA i : order[i] = "info_hash")
ScrapeOf(x, idx) == [kind |-> "scrape",
                     info_hashes |-> [j \in 1..Len(idx) |-> IdBytes(IdShape(x.z + idx[j]), x.z + idx[j])]]

QueryLaw2(x, q) ==
    IF x.sh.target = "announce"
    THEN /\ AnnounceDomain(q)
         /\ PathDomain(L_announce \o <<QMark>> \o q)
         /\ ParsePath(L_announce \o <<QMark>> \o q) =
              IF SeqRange(Req6) \subseteq SeqRange(x.sh.order)
              THEN [ok |-> TRUE, req |-> AnnounceOf(x.sh, x.z)]
              ELSE Reject
    ELSE /\ PathDomain(L_scrape \o <<QMark>> \o q)
         /\ ParsePath(L_scrape \o <<QMark>> \o q) =
              [ok |-> TRUE, req |-> ScrapeOf(x, InfoHashIdx(x.sh.order))]
QueryLaw(x) == QueryLaw2(x, QueryText(x.sh, x.z))

----------------------------------------------------------------------------
(* requests written by the reference writer parse back *)

NumwantKinds == {"absent", "zero", "small", "max"}
KeyKinds == {"absent", "empty", "short", "esc", "utf8", "len100"}

ReqShapes ==
    {[k |-> "req", target |-> "announce", event |-> e, numwant |-> n, key |-> ky, n |-> 0] :
        e \in Events, n \in NumwantKinds, ky \in KeyKinds}
    \cup {[k |-> "req", target |-> "scrape", event |-> "empty", numwant |-> "absent", key |-> "absent", n |-> n] :
        n \in {1, 2, 3, 10}}

KeyOf(kind) ==
    CASE kind = "absent" -> <<>>
      [] kind = "empty"  -> << <<>> >>
      [] kind = "short"  -> << S(<<"4","a","b","4","b","8","7","7">>) >>
      [] kind = "esc"    -> << <<97, 32, 38, 61, 37, 43, 47, 63, 35, 126>> >>       \* a &=%+/?#~
      [] kind = "utf8"   -> << <<104, 195, 169, 226, 130, 172, 240, 159, 146, 169>> >>
      [] kind = "len100" -> << [i \in 1..100 |-> 97 + (i % 26)] >>

ReqOf(sh, z) ==
    IF sh.target = "announce"
    THEN [kind |-> "announce", info_hash |-> Bytes(20, z), peer_id |-> Bytes(20, z + 1),
          port |-> Bytes(2, z), uploaded |-> Bytes(8, z), downloaded |-> Bytes(8, z + 1),
          left |-> Bytes(8, z + 2), event |-> sh.event,
          numwant |-> CASE sh.numwant = "absent" -> <<>>
                        [] sh.numwant = "zero" -> <<Zero8>>
                        [] sh.numwant = "small" -> << <<0, 0, 0, 0, 0, 0, 0, 50>> >>
                        [] sh.numwant = "max" -> << [i \in 1..8 |-> 255] >>,
          key |-> KeyOf(sh.key)]
    ELSE [kind |-> "scrape", info_hashes |-> [i \in 1..sh.n |-> Bytes(20, z + i)]]

ReqCases == {[sh |-> sh, z |-> z] : sh \in ReqShapes, z \in {0, 1, 2}}

ReqLaw2(r) ==
    /\ RequestDomain(r)
    /\ IF r.kind = "announce"
       THEN ParsePath(L_announce \o <<QMark>> \o WriteAnnounceQuery(r)) = [ok |-> TRUE, req |-> r]
       ELSE ParsePath(L_scrape \o <<QMark>> \o WriteScrapeQuery(r)) = [ok |-> TRUE, req |-> r]
ReqLaw(x) == ReqLaw2(ReqOf(x.sh, x.z))

----------------------------------------------------------------------------
(* replies: the reference bytes are canonical bencode and read back *)

WarnKinds == {"absent", "empty", "short", "utf8", "long"}

ReplyShapes ==
    {[k |-> "reply", kind |-> "announce", n4 |-> a, n6 |-> b, text |-> w, n |-> 0, order |-> "sorted"] :
        a \in 0..3, b \in 0..3, w \in WarnKinds}
    \cup {[k |-> "reply", kind |-> "scrape", n4 |-> 0, n6 |-> 0, text |-> "absent", n |-> n, order |-> o] :
        n \in {0, 1, 2, 3, 10}, o \in {"sorted", "reversed", "mixed"}}
    \cup {[k |-> "reply", kind |-> "failure", n4 |-> 0, n6 |-> 0, text |-> w, n |-> 0, order |-> "sorted"] :
        w \in WarnKinds \ {"absent"}}

TextOf(kind) ==
    CASE kind = "empty" -> <<>>
      [] kind = "short" -> S(<<"s","l","o","w"," ","d","o","w","n">>)
      [] kind = "utf8"  -> <<104, 195, 169, 226, 130, 172, 240, 159, 146, 169>>
      [] kind = "long"  -> [i \in 1..120 |-> 32 + ((i * 7) % 90)]

(* hashes with a common prefix so that the order is decided late *)
HashOf(i, z) == [j \in 1..20 |-> IF j < 19 THEN 200 ELSE IF j = 19 THEN (i * 77 + z) % 256 ELSE BV(i, z)]

Place(n, order, i) == CASE order = "sorted" -> i
                        [] order = "reversed" -> n + 1 - i
                        [] order = "mixed" -> ((i * 7) % n) + 1

ReplyOf(sh, z) ==
    CASE sh.kind = "announce" ->
            [kind |-> "announce", interval |-> Count8(z), complete |-> Count8(z + 1),
             incomplete |-> Count8(z + 2),
             peers |-> [i \in 1..sh.n4 |-> [ip |-> Bytes(4, z + i + 1), port |-> Bytes(2, z + i)]],
             peers6 |-> [i \in 1..sh.n6 |-> [ip |-> Bytes(16, z + i + 2), port |-> Bytes(2, z + i + 1)]],
             warning |-> IF sh.text = "absent" THEN <<>> ELSE <<TextOf(sh.text)>>]
      [] sh.kind = "scrape" ->
            [kind |-> "scrape",
             files |-> [i \in 1..sh.n |->
                          [h |-> HashOf(Place(sh.n, sh.order, i), z), complete |-> Count8(z + i),
                           incomplete |-> Count8(z + i + 1)]]]
      [] sh.kind = "failure" -> [kind |-> "failure", reason |-> TextOf(sh.text)]

ReplyCases == {[sh |-> sh, z |-> z] : sh \in ReplyShapes, z \in {0, 1, 2}}

StrictlySorted(ks) == \A i \in 1..(Len(ks) - 1) : LexLess(ks[i], ks[i + 1])

ReplyLaw3(r, p) ==
    /\ ReplyDomain(r)
    /\ p.ok                                   \* valid bencode, canonical, keys ascending
    /\ p.v.t = "dict" /\ StrictlySorted(Keys(p.v))
    /\ DecodeReply(p.v) = CanonReply(r)       \* and denotes the reply
    /\ r.kind = "announce" =>
         /\ Len(Get(p.v, B_peers).b) = 6 * Len(r.peers)
         /\ Len(Get(p.v, B_peers6).b) = 18 * Len(r.peers6)
         /\ Keys(p.v) = <<B_complete, B_incomplete, B_interval, B_peers, B_peers6>>
                        \o (IF r.warning = <<>> THEN <<>> ELSE <<B_warning>>)
    /\ r.kind = "scrape" =>
         /\ Keys(p.v) = <<B_files>>
         /\ StrictlySorted(Keys(Get(p.v, B_files)))
         /\ \A i \in 1..Len(Get(p.v, B_files).kv) :
              Keys(Get(p.v, B_files).kv[i][2]) = <<B_complete, B_downloaded, B_incomplete>>
ReplyLaw2(r) == ReplyLaw3(r, BParse(BencReply(r)))
ReplyLaw(x) == ReplyLaw2(ReplyOf(x.sh, x.z))

(* the validating reader does reject what is not canonical *)
ReaderRejects ==
    /\ ~BParse(S(<<"d","1"," ","b">>)).ok
    /\ LET good == BDict(<< <<S(<<"a">>), BInt(<<49>>)>>, <<S(<<"b">>), BInt(<<50>>)>> >>)
           swapped == <<100>> \o BStr(S(<<"b">>)) \o BInt(<<50>>) \o BStr(S(<<"a">>)) \o BInt(<<49>>) \o <<101>>
           dup == <<100>> \o BStr(S(<<"a">>)) \o BInt(<<50>>) \o BStr(S(<<"a">>)) \o BInt(<<49>>) \o <<101>>
       IN /\ BParse(good).ok
          /\ ~BParse(swapped).ok
          /\ ~BParse(dup).ok
          /\ ~BParse(good \o <<101>>).ok
          /\ ~BParse(SubSeq(good, 1, Len(good) - 1)).ok
          /\ ~BParse(BInt(<<48, 49>>)).ok
          /\ ~BParse(<<48, 49, Colon, 97>>).ok
          /\ BParse(BInt(<<48>>)).ok
    /\ DecBytes(<<1, 0>>) = <<50, 53, 54>>
    /\ DecBytes(<<255, 255, 255, 255, 255, 255, 255, 255>>)
         = S(<<"1","8","4","4","6","7","4","4","0","7","3","7","0","9","5","5","1","6","1","5">>)
    /\ DecToBytes(S(<<"1","8","4","4","6","7","4","4","0","7","3","7","0","9","5","5","1","6","1","5">>), 8)
         = [ok |-> TRUE, v |-> [i \in 1..8 |-> 255]]
    /\ DecToBytes(S(<<"1","8","4","4","6","7","4","4","0","7","3","7","0","9","5","5","1","6","1","6">>), 8) = Reject
    /\ DecToBytes(S(<<"6","5","5","3","6">>), 2) = Reject
    /\ DecToBytes(S(<<"6","5","5","3","5">>), 2) = [ok |-> TRUE, v |-> <<255, 255>>]
    /\ LexLess(<<1, 2>>, <<1, 2, 0>>) /\ ~LexLess(<<1, 2>>, <<1, 2>>) /\ LexLess(<<1, 255>>, <<2>>)

ASSUME ReaderRejects

(* negative control (HttpCodec_MC_Neg.cfg substitutes it for BDict): a writer *)
(* that keeps the order in which the pairs are listed                         *)
BDictUnsorted(pairs) == <<100>> \o FlatPairs(pairs, 1) \o <<101>>

----------------------------------------------------------------------------

Cases == UrlCasesN \cup QueryCases \cup ReqCases \cup ReplyCases

LawsOf(x) ==
    CASE x.sh.k = "url"   -> UrlLaw(x)
      [] x.sh.k = "query" -> QueryLaw(x)
      [] x.sh.k = "req"   -> ReqLaw(x)
      [] x.sh.k = "reply" -> ReplyLaw(x)

(* cases are spread over groups so that the workers share them *)
GroupKey(x) == IF x.sh.k = "query" THEN <<"query", x.z, x.sh.order[1]>> ELSE <<x.sh.k, x.z, "">>
GroupKeys == {GroupKey(x) : x \in Cases}

Init == phase = "root" /\ c = <<>> /\ ok = TRUE
Next ==
    \/ /\ phase = "root"
       /\ \E g \in GroupKeys : phase' = "group" /\ c' = g /\ ok' = TRUE
    \/ /\ phase = "group"
       /\ \E x \in Cases : /\ GroupKey(x) = c
                            /\ phase' = "case" /\ c' = x /\ ok' = LawsOf(x)
Spec == Init /\ [][Next]_vars

(* the laws hold for every case *)
Laws == ok

(* every shape is printed once (with the first filling) *)
FirstZ(x) == CASE x.sh.k = "url" -> 2 [] OTHER -> 0
Emit == (phase = "case" /\ c.z = FirstZ(c) /\ (c.sh.k = "url" => c.bad = 103))
            => PrintT(<<"CASE", ToJson(c.sh)>>)
=============================================================================
