SPECIFICATION Spec
CONSTANTS
  Threads <- MCThreads
  Catalogue <- MCCatalogue
  GuardEnabled = TRUE
  NoThread = 0
INVARIANTS Linearizable NoLostAnnounce NoOrphanWrite LockSanity
