\* Config Time (C10): deadlines 1..3, cleaning at 0..4, inline and heap representation
SPECIFICATION Spec
CONSTANTS
  Fams = {4}
  Hashes = {1}
  Keys = {k1, k2, k3}
  Pids = {1}
  Deadlines = {1, 2, 3}
  Nows = {0, 1, 2, 3, 4}
  NumWants <- TimeNumWants
  MaxResp = 3
  Cap = 2
  ScrapeLists <- TimeScrapeLists
  Events = {"started", "stopped"}
  Lefts = {0, 1}
SYMMETRY SymKeys
VIEW View
INVARIANTS TypeOK TallyFaithful
PROPERTIES RefinesReference
CHECK_DEADLOCK FALSE
