SPECIFICATION FairSpec
CONSTANTS
  Threads <- MCThreads
  Catalogue <- QuickCatalogue
  GuardEnabled = TRUE
  NoThread = 0
  RecursiveScrape = FALSE
PROPERTIES Termination
