SPECIFICATION FairSpec
CONSTANTS
  Conns = {c1}
  W = 2
  Hashes = {1, 2}
  Keys = {k1}
  MaxScrape = 2
  KeepAlive = TRUE
  ScrapeLists <- MCScrapeLists
  TruncateFirst = TRUE
  BlankFirst = TRUE
  MaxReq = 2
INVARIANTS WellFramed InOrder WorkersInvisible
PROPERTIES Isolation Answered
CHECK_DEADLOCK FALSE
