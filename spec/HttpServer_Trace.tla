--------------------------- MODULE HttpServer_Trace ---------------------------
(***************************************************************************)
(* Trace validation of a running HTTP tracker (black box) for C16 / C03:   *)
(* every well-formed request gets exactly one well-framed 200 reply whose  *)
(* body is what a single reference tracker answers at some instant between *)
(* the request's call and return (the linearization point is inferred by   *)
(* TLC), whatever the number of socket and swarm workers.                  *)
(* Events are logged by lib/http_e2e.py: `call` (with the outcome attached)*)
(* before the request is written, `ret` after the reply has been read.     *)
(***************************************************************************)
EXTENDS RefTracker, Json, IOUtils

Rec == ndJsonDeserialize(IOEnv.TRACE)

VARIABLES l, store, pending, cfg
vars == <<l, store, pending, cfg>>

Init == /\ l = 1 /\ store = <<>> /\ pending = <<>>
        /\ cfg = [max_scrape |-> 0, max_peers |-> 0]
        /\ TLCSet(2, 1)

E == Rec[l]
IsEvent(name) == l <= Len(Rec) /\ Rec[l].ev = name /\ l' = l + 1
FnPut(f, k, v) == [x \in DOMAIN f \cup {k} |-> IF x = k THEN v ELSE f[x]]
FnDel(f, k) == [x \in DOMAIN f \ {k} |-> f[x]]
FirstN(s, n) == SubSeq(s, 1, IF Len(s) <= n THEN Len(s) ELSE n)
FamOf(src) == IF src.class \in {"v4", "v4mapped"} THEN 4 ELSE 6

Reset == /\ IsEvent("reset")
         /\ store' = <<>> /\ pending' = <<>> /\ cfg' = E

Call == /\ IsEvent("call")
        /\ E.conn \notin DOMAIN pending
        /\ "reply" \in DOMAIN E
        /\ pending' = FnPut(pending, E.conn, [c |-> E, lin |-> FALSE])
        /\ UNCHANGED <<store, cfg>>

(* exactly one HTTP/1.1 200 response whose Content-Length equals the bytes that follow *)
GoodFrame(r) ==
    /\ r.outcome = "reply" /\ r.status = 200 /\ r.framed /\ r.extra = 0

Lin(conn) ==
    /\ conn \in DOMAIN pending /\ ~pending[conn].lin
    /\ LET c == pending[conn].c  r == c.reply IN
       CASE c.kind = "announce" ->
              LET t == <<FamOf(c.src), c.h>>
                  key == <<c.src.host, c.port>>
                  cnt == AnnounceCountsExcl(store, t, key)
                  status == Status(c.event, c.left)
                  plist == [i \in 1..Len(r.reply.peers) |-> <<r.reply.peers[i][1], r.reply.peers[i][2]>>]
              IN /\ GoodFrame(r)
                 /\ r.reply.kind = "announce" /\ r.reply.compact_ok
                 /\ r.reply.complete = cnt.seeders /\ r.reply.incomplete = cnt.leechers
                 /\ \A i \in 1..Len(r.reply.peers) : r.reply.peers[i][3] = t[1]
                 /\ PeerListOK(plist, Candidates(store, t, key), Limit(c.numwant, cfg.max_peers), 1)
                 /\ store' = AnnounceStore(store, t, key, status,
                                           [seeder |-> status = "seeding", deadline |-> 0, pid |-> 0])
         [] c.kind = "scrape" ->
              LET want == SeqRange(FirstN(c.hs, cfg.max_scrape))
                  files == r.reply.files
              IN /\ GoodFrame(r)
                 /\ r.reply.kind = "scrape"
                 /\ {files[i][1] : i \in 1..Len(files)} = want
                 /\ Len(files) = Cardinality(want)
                 /\ \A i \in 1..Len(files) :
                      LET k == ScrapeCounts(store, <<FamOf(c.src), files[i][1]>>)
                      IN files[i][2] = k.seeders /\ files[i][3] = k.leechers
                 /\ store' = store
         [] OTHER -> store' = store        \* malformed / oversized: affects only its own connection
    /\ pending' = [pending EXCEPT ![conn].lin = TRUE]
    /\ UNCHANGED <<l, cfg>>

Ret == /\ IsEvent("ret")
       /\ E.conn \in DOMAIN pending /\ pending[E.conn].lin
       /\ pending' = FnDel(pending, E.conn)
       /\ UNCHANGED <<store, cfg>>

(* summary of one client thread of the concurrency stress: every request was answered well-framed *)
Stress == /\ IsEvent("stress")
          /\ E.answered = E.requests
          /\ UNCHANGED <<store, pending, cfg>>

Next == Reset \/ Call \/ Ret \/ Stress \/ \E conn \in DOMAIN pending : Lin(conn)
Spec == Init /\ [][Next]_vars

Mark == TLCSet(2, IF l > TLCGet(2) THEN l ELSE TLCGet(2))
Accepted ==
    LET hw == TLCGet(2) IN
    IF hw = Len(Rec) + 1 THEN TRUE
    ELSE /\ PrintT(<<"TRACE_REJECTED", hw, ToJson(Rec[hw])>>)
         /\ FALSE
=============================================================================
