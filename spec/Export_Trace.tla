---------------------------- MODULE Export_Trace ----------------------------
(* One line per crash / reader experiment on the real export: whatever is at  *)
(* the configured path must be the previous complete export or the new one.   *)
EXTENDS Naturals, Sequences, FiniteSets, TLC, Json, IOUtils
Rec == ndJsonDeserialize(IOEnv.TRACE)
VARIABLE l
Init == l = 1
E == Rec[l]
AsSet(s) == {<<s[i][1], s[i][2], s[i][3], s[i][4]>> : i \in 1..Len(s)}
IsComplete(content, version) == Len(content) = Len(version) /\ AsSet(content) = AsSet(version)
Crash ==
    /\ l <= Len(Rec) /\ E.ev = "crash" /\ l' = l + 1
    /\ E.path_exists
    /\ IsComplete(E.content, E.old) \/ IsComplete(E.content, E.new)
Reader ==
    /\ l <= Len(Rec) /\ E.ev = "reader" /\ l' = l + 1
    /\ E.reads_other = 0 /\ E.reads_missing = 0
    /\ E.reads_old + E.reads_new > 0
Reset == l <= Len(Rec) /\ E.ev = "reset" /\ l' = l + 1
Next == Crash \/ Reader \/ Reset
Spec == Init /\ [][Next]_l
Remember == TLCSet(1, [l |-> l])
Accepted ==
    LET d == TLCGet("stats").diameter IN
    IF d - 1 = Len(Rec) THEN TRUE
    ELSE PrintT(<<"TRACE_REJECTED", d, ToJson(Rec[d])>>) /\ FALSE
=============================================================================
