SPECIFICATION Spec
CONSTANTS
  Quick = TRUE
  BDict <- BDictUnsorted
INVARIANTS
  Laws
CHECK_DEADLOCK FALSE
