SPECIFICATION Spec
CONSTANT EvCodes <- BadEvCodes
INVARIANT Law
CHECK_DEADLOCK FALSE
CONSTANT NPat = 2
