SPECIFICATION GSpec
CONSTANTS
  Slots = 2
  AcquireTid = 99
  MaxSends = 8
  GuardIndex = TRUE
  NFates = 4
CONSTRAINT Bound
INVARIANT Emit
VIEW GView
CHECK_DEADLOCK FALSE
