---------------------------- MODULE WsCodec_MC ----------------------------
(***************************************************************************)
(* TLC enumerates the case space of C15 - message shapes, the identifier   *)
(* decision table in every identifier slot, UTF-8 byte patterns, byte      *)
(* sequences - one case per initial state, and                             *)
(*   WsCodec_MC.cfg / _MCQ.cfg (Concrete = TRUE): checks the laws of the   *)
(*       reference codec on every case;                                    *)
(*   WsCodec_Gen.cfg / _GenQ.cfg (Concrete = FALSE): prints every case as  *)
(*       JSON with placeholder leaves for the executor.                    *)
(***************************************************************************)
EXTENDS WsCodec, TLC, Json

CONSTANT Full   \* TRUE: the whole product of announce shapes
                \* FALSE: shapes at distance <= 2 from all-present / all-absent / all-null

VARIABLE c

ClassOf(v) == IF v \in {"absent", "null"} THEN v ELSE "present"
Dist(s, st) == Cardinality({f \in DOMAIN s : ClassOf(s[f]) # st})
MCAnnShapes == IF Full THEN AnnShapes ELSE {s \in AnnShapes : \E st \in States3 : Dist(s, st) <= 2}

ByteSeqs == {[i \in 1..20 |-> (k + (i * j)) % 256] : k \in 0..255, j \in {0, 1, 7}}
Scalars == {0, 34, 92, 127, 128, 255, 256, 2047, 2048, 8232, 55295, 57344, 65533, 65535, 65536,
            128169, 1114111}
ScalarSeqs == {<<a>> : a \in Scalars} \cup {<<a, b>> : a \in Scalars, b \in Scalars}

Init ==
    \/ \E s \in MCAnnShapes : c = <<"ann", s>>
    \/ \E s \in ScrShapes : c = <<"scr", s>>
    \/ \E s \in OutShapes : c = <<"out", s>>
    \/ \E sl \in IdSlots, ic \in IdCases : c = <<"id", sl, ic>>
    \/ \E sl \in IdSlots : c = <<"slot", sl>>
    \/ \E p \in Utf8Patterns : c = <<"utf8", p>>
    \/ \E b \in ByteSeqs : c = <<"bytes", b>>
    \/ \E s \in ScalarSeqs : c = <<"scalars", s>>
Next == UNCHANGED c
Spec == Init /\ [][Next]_c

---------------------------------------------------------------------------
(* laws *)

ShapeLaw(dir, t, m) ==
    /\ ResEq(Res(Decode(dir, t)), <<"ok", m>>)            \* the tree means the message
    /\ Unambiguous(dir, t)
    /\ DirOf(m) = dir
    /\ ResEq(Res(Decode(dir, Encode(m))), <<"ok", m>>)    \* round trip
    /\ Unambiguous(dir, Encode(m))
    /\ IdsWritten(m, Encode(m))                           \* identifiers are where IdNodes looks
    /\ IdsWritten(m, t)

Bump(str) == [str EXCEPT ![20] = (str[20] + 1) % 256]

IdLaw(sl, ic) ==
    LET str == IdString(ic)
        t == SlotTree(sl, str)
        d == Decode(sl[1], t)
    IN /\ IdAccept(str) <=> IdExpected(ic)
       /\ (d # Fail) <=> IdExpected(ic)
       /\ Unambiguous(sl[1], t)
       /\ IdExpected(ic) =>
            /\ IdBytes(str) = str /\ IsBytes20(IdBytes(str))
            \* the identifier is part of the message: another one gives another message
            /\ ~ResEq(Res(d), Res(Decode(sl[1], SlotTree(sl, Bump(str)))))
            /\ ResEq(Res(Decode(sl[1], Encode(d[1]))), Res(d))

Law ==
    CASE c[1] = "ann" -> ShapeLaw("in", AnnTree(c[2], NoOv), AnnMsg(c[2]))
      [] c[1] = "scr" -> ShapeLaw("in", ScrTree(c[2], NoOv), ScrMsg(c[2]))
      [] c[1] = "out" -> ShapeLaw("out", OutTree(c[2], NoOv), OutMsg(c[2]))
      [] c[1] = "id" -> IdLaw(c[2], c[3])
      [] c[1] = "slot" -> Decode(c[2][1], SlotTree(c[2], ID(c[2][3]))) # Fail
      [] c[1] = "utf8" -> Utf8Valid(c[2][2]) <=> c[2][3]
      [] c[1] = "bytes" -> /\ IsBytes20(c[2])
                           /\ IdAccept(IdEncode(c[2]))
                           /\ IdBytes(IdEncode(c[2])) = c[2]
                           /\ Len(IdEncode(c[2])) = 20
      [] c[1] = "scalars" -> /\ \A i \in 1..Len(c[2]) : IsScalar(c[2][i])
                             /\ Utf8Valid(Utf8Enc(c[2]))

LawHolds == Concrete => Law

(* negative controls (WsCodec_MC_Neg*.cfg): the laws must reject these rules *)
PrefixIdAccept(s) == Len(s) >= 20 /\ \A i \in 1..20 : s[i] <= 255      \* reads 20 characters, ignores the rest
WrapIdAccept(s) == Len(s) = 20                                          \* would take characters modulo 256

---------------------------------------------------------------------------
(* generation *)

NoNull(s) == \A f \in DOMAIN s : s[f] # "null"

Emit ==
    CASE c[1] = "ann" ->
           /\ PrintT(<<"SHAPE", ToJson([dir |-> "in", tree |-> AnnTree(c[2], NoOv)])>>)
           /\ NoNull(c[2]) => PrintT(<<"MSG", ToJson([dir |-> "in", msg |-> AnnMsg(c[2])])>>)
      [] c[1] = "scr" ->
           /\ PrintT(<<"SHAPE", ToJson([dir |-> "in", tree |-> ScrTree(c[2], NoOv)])>>)
           /\ c[2] # "null" => PrintT(<<"MSG", ToJson([dir |-> "in", msg |-> ScrMsg(c[2])])>>)
      [] c[1] = "out" ->
           /\ PrintT(<<"SHAPE", ToJson([dir |-> "out", tree |-> OutTree(c[2], NoOv)])>>)
           /\ (c[2].action # "null" /\ c[2].ih # "null")
                => PrintT(<<"MSG", ToJson([dir |-> "out", msg |-> OutMsg(c[2])])>>)
      [] c[1] = "id" ->
           PrintT(<<"IDCASE", ToJson([dir |-> c[2][1], slot |-> <<c[2][2], c[2][3]>>, idcase |-> c[3],
                                      tree |-> SlotTree(c[2], IdString(c[3]))])>>)
      [] c[1] = "slot" ->    \* a tree with a hole (5000000) for identifier strings chosen by the orchestration
           PrintT(<<"SLOT", ToJson([dir |-> c[2][1], slot |-> <<c[2][2], c[2][3]>>,
                                    tree |-> SlotTree(c[2], <<5000000>>)])>>)
      [] c[1] = "utf8" ->
           PrintT(<<"UTF8", ToJson([name |-> c[2][1], bytes |-> c[2][2], valid |-> c[2][3]])>>)
      [] OTHER -> TRUE

Emitted == (~Concrete) => Emit
=============================================================================
