--------------------------- MODULE UdpConc_Trace ---------------------------
(***************************************************************************)
(* Lock-level (strict, implementation-shaped) validation of controlled      *)
(* executions of the real UDP swarm state against UdpConc - the very model  *)
(* on which TLC establishes linearizability and deadlock freedom (C04).     *)
(*                                                                         *)
(* The harness (udp_sched) runs the real TorrentMaps on real threads, one   *)
(* at a time, under the tracing RwLock wrapper, and logs in execution order *)
(*   reset  program of the run                                             *)
(*   call / ret   of every operation                                       *)
(*   acq    after every successful lock acquisition, inside the critical    *)
(*          section: thread, lock id, mode (Read, Write, UpgradableRead,    *)
(*          Upgrade)                                                       *)
(*   rel    just before every release                                      *)
(*   final  state dump at quiescence                                       *)
(* Lock ids: 0..31 are the shards (only the shard the program uses is      *)
(* logged), 32.. are the peer maps in creation order, so peer map lock id  *)
(* 31 + r is the model's object r.                                         *)
(*                                                                         *)
(* Every `acq` is one action of UdpConc (the action that performs that      *)
(* acquisition); an exclusive acquisition is preceded by the model's silent *)
(* "want" step (setting parking_lot's writer bit), which the wrapper cannot *)
(* observe.  Releases are folded into the acquiring action in UdpConc       *)
(* (Lipton reduction), so a `rel` is a stuttering step - but it must not    *)
(* come while the model still holds that lock (nesting discipline).         *)
(* Deviation named: the cleaning pass visits the torrents of a shard in the *)
(* hash map's iteration order, which the model leaves open (Cl1MapWantT).   *)
(*                                                                         *)
(* A rejection here is MODEL DRIFT (the code's lock discipline is no longer *)
(* the one whose deadlock freedom TLC established), never a verdict.        *)
(***************************************************************************)
EXTENDS UdpConc, Dump, Json, IOUtils

Rec == ndJsonDeserialize(IOEnv.TRACE)

VARIABLES l, held
tvars == <<vars, l, held>>

TThreads == {1, 2, 3}
TCatalogue == {}

E == Rec[l]
IsEvent(name) == l <= Len(Rec) /\ Rec[l].ev = name /\ l' = l + 1

Fresh(p) ==
    /\ progs' = p
    /\ slock' = [readers |-> [t \in Threads |-> 0], upg |-> NoThread, writer |-> NoThread]
    /\ smap' = <<>>
    /\ heap' = <<>>
    /\ nextref' = 1
    /\ pc' = [t \in Threads |-> [i |-> 1, ph |-> "start", j |-> 1]]
    /\ loc' = [t \in Threads |-> <<>>]
    /\ ref' = <<>>
    /\ linok' = TRUE
    /\ replies' = [t \in Threads |-> <<>>]
    /\ held' = [t \in Threads |-> {}]

TInit ==
    /\ l = 1
    /\ progs = [t \in Threads |-> <<>>]
    /\ slock = [readers |-> [t \in Threads |-> 0], upg |-> NoThread, writer |-> NoThread]
    /\ smap = <<>> /\ heap = <<>> /\ nextref = 1
    /\ pc = [t \in Threads |-> [i |-> 1, ph |-> "start", j |-> 1]]
    /\ loc = [t \in Threads |-> <<>>]
    /\ ref = <<>> /\ linok = TRUE
    /\ replies = [t \in Threads |-> <<>>]
    /\ held = [t \in Threads |-> {}]
    /\ TLCSet(2, 1)

ResetEv ==
    /\ IsEvent("reset")
    /\ Fresh([t \in Threads |-> E.program[ToString(t)]])

CallEv ==
    /\ IsEvent("call")
    /\ LET t == E.thr IN
       /\ ~Done(t) /\ pc[t].i = E.i /\ pc[t].ph = "start" /\ pc[t].j = 1
       /\ Op(t) = E.op
    /\ UNCHANGED <<vars, held>>

RetEv ==
    /\ IsEvent("ret")
    /\ LET t == E.thr  op == progs[t][E.i]  rs == replies[t] IN
       /\ pc[t].i = E.i + 1 /\ pc[t].ph = "start"
       /\ held[t] = {}
       /\ CASE op.kind = "announce" -> Len(rs) >= 1 /\ rs[Len(rs)] = E.reply
            [] op.kind = "scrape" -> /\ Len(rs) >= Len(op.hs)
                                     /\ SubSeq(rs, Len(rs) - Len(op.hs) + 1, Len(rs)) = E.reply
            [] OTHER -> TRUE
    /\ UNCHANGED <<vars, held>>

IsShard(k) == k < 32
ObjOf(k) == k - 31
Kind(t) == IF Done(t) THEN "none" ELSE Op(t).kind

(* the cleaning pass takes the torrents in the hash map's iteration order: the entry *)
(* of object r is moved to the front of the pass's work list                         *)
Cl1MapWantT(t, r) ==
    /\ ~Done(t) /\ Op(t).kind = "clean" /\ pc[t].ph = "maps" /\ loc[t] # <<>>
    /\ \E k \in 1..Len(loc[t]) :
          /\ loc[t][k][2] = r
          /\ loc' = [loc EXCEPT ![t] = <<loc[t][k]>> \o SubSeq(loc[t], 1, k - 1) \o SubSeq(loc[t], k + 1, Len(loc[t]))]
    /\ r \in DOMAIN heap /\ heap[r].writer = NoThread
    /\ heap' = [heap EXCEPT ![r].writer = t]
    /\ Phase(t, "mapw")
    /\ UNCHANGED <<progs, slock, smap, nextref, ref, linok, replies>>

(* the unobservable first half of an exclusive acquisition, taken only right before *)
(* the acquisition itself is logged                                                 *)
SilentWant ==
    /\ l <= Len(Rec) /\ Rec[l].ev = "acq" /\ Rec[l].mode \in {"Write", "Upgrade"}
    /\ LET t == Rec[l].thr IN
       \/ IsShard(Rec[l].lock) /\ Rec[l].mode = "Upgrade" /\ AnnUpgWant(t)
       \/ ~IsShard(Rec[l].lock) /\ Kind(t) = "announce" /\ AnnWriteWant(t)
       \/ ~IsShard(Rec[l].lock) /\ Kind(t) = "clean" /\ Cl1MapWantT(t, ObjOf(Rec[l].lock))
       \/ IsShard(Rec[l].lock) /\ Rec[l].mode = "Write" /\ Cl2Want(t)
    /\ UNCHANGED <<l, held>>

AcqEv ==
    /\ IsEvent("acq")
    /\ LET t == E.thr  m == E.mode  sh == IsShard(E.lock)  r == ObjOf(E.lock) IN
       /\ \/ sh /\ m = "UpgradableRead" /\ AnnUpRead(t)
          \/ sh /\ m = "Upgrade" /\ AnnUpgrade(t)
          \/ ~sh /\ m = "Write" /\ Kind(t) = "announce" /\ pc[t].ph = "write" /\ loc[t] = <<r>> /\ AnnWrite(t)
          \/ sh /\ m = "Read" /\ Kind(t) = "scrape" /\ ScrShard(t)
          \/ ~sh /\ m = "Read" /\ Kind(t) = "scrape" /\ pc[t].ph = "map" /\ smap[ScrHash(t)] = r /\ ScrMap(t)
          \/ sh /\ m = "Read" /\ Kind(t) = "clean" /\ Cl1Shard(t)
          \/ ~sh /\ m = "Write" /\ Kind(t) = "clean" /\ pc[t].ph = "mapw" /\ loc[t][1][2] = r /\ Cl1Map(t)
          \/ sh /\ m = "Write" /\ Kind(t) = "clean" /\ Cl2Shard(t)
          \* second cleaning phase: the nested read of a uniquely owned peer map (cannot block)
          \/ ~sh /\ m = "Read" /\ (\E k \in 0..31 : <<k, "Write">> \in held[t]) /\ UNCHANGED vars
       /\ held' = [held EXCEPT ![t] =
                     IF m = "Upgrade" THEN (@ \ {<<E.lock, "UpgradableRead">>}) \cup {<<E.lock, "Write">>}
                     ELSE @ \cup {<<E.lock, m>>}]

RelEv ==
    /\ IsEvent("rel")
    /\ LET t == E.thr IN
       /\ <<E.lock, E.mode>> \in held[t]
       \* the model (which releases early) must not still hold what the code gives up
       /\ (IsShard(E.lock) /\ E.mode = "Read") => slock.readers[t] = 0
       /\ (IsShard(E.lock) /\ E.mode = "UpgradableRead") => slock.upg # t
       /\ (IsShard(E.lock) /\ E.mode = "Write") => slock.writer # t
       /\ (~IsShard(E.lock) /\ E.mode = "Write" /\ ObjOf(E.lock) \in DOMAIN heap) => heap[ObjOf(E.lock)].writer # t
       /\ held' = [held EXCEPT ![t] = @ \ {<<E.lock, E.mode>>}]
    /\ UNCHANGED vars

StoreOfAbs ==
    [tt \in {<<4, h>> : h \in DOMAIN Abs} |->
        [k \in DOMAIN Abs[tt[2]] |-> [seeder |-> FALSE, deadline |-> Abs[tt[2]][k], pid |-> 1]]]

FinalEv ==
    /\ IsEvent("final")
    /\ AllDone
    /\ \A t \in Threads : held[t] = {}
    /\ DumpWellFormed(E.dump)
    /\ DumpAbs(E.dump) = StoreOfAbs
    \* implementation shape: the torrents present (empty ones included) and their Arc counts
    /\ DumpTorrents(E.dump) = {<<4, h>> : h \in DOMAIN smap}
    /\ \A i \in 1..Len(E.dump) : E.dump[i][5] = 1
    /\ \A r \in DOMAIN heap : heap[r].strong = 1
    /\ Abs = ref /\ linok
    /\ UNCHANGED <<vars, held>>

TNext == ResetEv \/ CallEv \/ RetEv \/ SilentWant \/ AcqEv \/ RelEv \/ FinalEv

TSpec == TInit /\ [][TNext]_tvars

Mark == TLCSet(2, IF l > TLCGet(2) THEN l ELSE TLCGet(2))

Accepted ==
    LET hw == TLCGet(2) IN
    IF hw = Len(Rec) + 1 THEN TRUE
    ELSE /\ PrintT(<<"TRACE_REJECTED", hw, ToJson(Rec[hw])>>)
         /\ FALSE
=============================================================================
