SPECIFICATION Spec
CONSTANTS
  Sources <- MCSources
  Hashes = {1, 2}
  Ports = {1}
  MaxScrape = 1
  Forbidden = {2}
VIEW SView
INVARIANT StoredKeysAreSources
PROPERTIES ReplyToSender NoReplyWithoutValidId OnlyConnectUnauthenticated ExactlyOneForWellFormed Port0Ignored StateOnlyByValidAnnounce FamilyOfSender
CHECK_DEADLOCK FALSE
