SPECIFICATION FairSpec
CONSTANTS
  Conns <- MCConns
  SwarmWorkers = {1, 2}
  Hashes = {1, 2}
  Pids = {1, 2}
  RouteByConsumer = TRUE
  MaxOps = 2
  QuiescentClose = TRUE
PROPERTIES ScrapeAnswered
CHECK_DEADLOCK FALSE
