INIT GenInit
NEXT GenNext
CONSTANT Thorough = FALSE
CHECK_DEADLOCK FALSE
CONSTANT NPat = 2
