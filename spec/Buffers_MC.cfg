SPECIFICATION Spec
INVARIANTS Emit EmitVerdict CommentsAgree
CHECK_DEADLOCK FALSE
