SPECIFICATION Spec
INVARIANTS Emit EmitVerdict CommentsAgree EmitExact ExactExists
CHECK_DEADLOCK FALSE
