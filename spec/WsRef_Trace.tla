---------------------------- MODULE WsRef_Trace ----------------------------
(***************************************************************************)
(* Trace validation of the real WebTorrent swarm storage against the       *)
(* reference semantics of C08 (bookkeeping, ownership) and C09 (offer /    *)
(* answer relay).  One line per client-level operation executed by         *)
(* harness ws_exec on aquatic_ws's TorrentMaps.                            *)
(***************************************************************************)
EXTENDS RefTracker, Json, IOUtils

Rec == ndJsonDeserialize(IOEnv.TRACE)

VARIABLES
    l,
    store,   \* <<fam, h>> -> pid -> [owner, seeder, deadline]
    pend,    \* <<t, offerer, answerer, oid>> -> deadline : forwarded, unanswered offers
    ann,     \* connection -> (h -> pid): socket-side bookkeeping
    cfg, list

vars == <<l, store, pend, ann, cfg, list>>

Init ==
    /\ l = 1 /\ store = <<>> /\ pend = <<>> /\ ann = <<>>
    /\ cfg = [max_offers |-> 0, max_scrape |-> 0, max_peer_age |-> 0, max_offer_age |-> 0, mode |-> "off"]
    /\ list = {}

E == Rec[l]
IsEvent(name) == l <= Len(Rec) /\ Rec[l].ev = name /\ l' = l + 1

FnPut(f, k, v) == [x \in DOMAIN f \cup {k} |-> IF x = k THEN v ELSE f[x]]
FnDel(f, k) == [x \in DOMAIN f \ {k} |-> f[x]]
Min3(a, b, c) == Min2(a, Min2(b, c))
FirstN(s, n) == SubSeq(s, 1, IF Len(s) <= n THEN Len(s) ELSE n)
Ann(c) == IF c \in DOMAIN ann THEN ann[c] ELSE <<>>

Allows(h) ==
    CASE cfg.mode = "off" -> TRUE
      [] cfg.mode = "allow" -> h \in list
      [] cfg.mode = "deny" -> h \notin list

Reset ==
    /\ IsEvent("reset")
    /\ store' = <<>> /\ pend' = <<>> /\ ann' = <<>> /\ list' = {}
    /\ cfg' = E

(* everything owned by connection c in family fam disappears *)
StoreWithout(c) ==
    LET keep(t) == {p \in DOMAIN store[t] : store[t][p].owner # c}
    IN [t \in {t \in DOMAIN store : keep(t) # {}} |-> Restrict(store[t], keep(t))]

PendAlive(s, pd) ==   \* offers die with the offering entry
    [k \in {k \in DOMAIN pd : k[1] \in DOMAIN s /\ k[2] \in DOMAIN s[k[1]]} |-> pd[k]]

(* closed_calls (the ConnectionClosed contents) are logged by the API-level executor only; *)
(* end-to-end traces of running trackers do not observe them                               *)
Calls(e) == e

CloseEffects(c, e) ==
    /\ ("closed_calls" \in DOMAIN e) =>
         /\ {<<x[1], x[2]>> : x \in SeqRange(e.closed_calls)} = {<<h, Ann(c)[h]>> : h \in DOMAIN Ann(c)}
         /\ Len(e.closed_calls) = Cardinality(DOMAIN Ann(c))
    /\ store' = StoreWithout(c)
    /\ pend' = PendAlive(StoreWithout(c), pend)
    /\ ann' = FnDel(ann, c)

Announce ==
    /\ IsEvent("announce")
    /\ LET c == <<E.c[1], E.c[2]>>
           t == <<E.fam, E.h>>
           status == Status(E.event, E.left)
           pm == Peers(store, t)
           out == E.out
       IN
       /\ ("gated" \in DOMAIN E /\ E.gated) => Allows(E.h)
       /\ \A j \in 1..Len(out) : ("payload_ok" \in DOMAIN out[j]) => out[j].payload_ok
       /\ IF E.h \in DOMAIN Ann(c) /\ Ann(c)[E.h] # E.pid
          THEN \* a second peer id for the torrent is refused; the connection ends
               /\ E.refused
               /\ Len(out) = 1 /\ out[1].kind = "error" /\ <<out[1].to[1], out[1].to[2]>> = c
               /\ CloseEffects(c, Calls(E))
          ELSE
          /\ ~E.refused
          /\ ann' = FnPut(ann, c, IF E.event = "stopped" THEN FnDel(Ann(c), E.h)
                                  ELSE FnPut(Ann(c), E.h, E.pid))
          /\ IF E.pid \in DOMAIN pm /\ pm[E.pid].owner # c
             THEN \* peer id owned by another connection: ignored, unanswered, no effect
                  /\ out = <<>> /\ store' = store /\ pend' = pend
             ELSE
             LET entry == [owner |-> c, seeder |-> status = "seeding",
                           deadline |-> E.now + cfg.max_peer_age]
                 newpm == IF status = "stopped" THEN Without(pm, E.pid) ELSE FnPut(pm, E.pid, entry)
                 news  == Put(store, t, newpm)
                 others == DOMAIN newpm \ {E.pid}
                 offs  == SelectSeq(out, LAMBDA m : m.kind = "offer")
                 answs == SelectSeq(out, LAMBDA m : m.kind = "answer")
                 errs  == SelectSeq(out, LAMBDA m : m.kind = "error")
                 want  == IF status = "stopped" THEN 0
                          ELSE Min3(Len(E.offers), cfg.max_offers, Cardinality(others))
                 \* receiver of an offer: the stored peer whose connection it is addressed to
                 RecvOf(m) == {p \in others : newpm[p].owner = <<m.to[1], m.to[2]>>}
                 recv(j) == CHOOSE p \in RecvOf(offs[j]) : TRUE
                 legit == /\ E.answer # <<>> /\ status # "stopped"
                          /\ E.answer[1] \in DOMAIN newpm
                          /\ <<t, E.answer[1], E.pid, E.answer[2]>> \in DOMAIN pend
                 p0 == PendAlive(news, pend)
                 RECURSIVE AddOffers(_, _)
                 AddOffers(pd, j) ==
                     IF j > Len(offs) THEN pd
                     ELSE AddOffers(FnPut(pd, <<t, E.pid, recv(j), offs[j].oid>>, E.now + cfg.max_offer_age), j + 1)
                 p1 == AddOffers(p0, 1)
                 p2 == IF legit THEN FnDel(p1, <<t, E.answer[1], E.pid, E.answer[2]>>) ELSE p1
                 resp == out[Len(out)]
             IN /\ Len(out) >= 1
                \* C08: exactly one reply, to the sender, counts include the sender
                /\ resp.kind = "announce" /\ <<resp.to[1], resp.to[2]>> = c /\ resp.h = E.h
                /\ resp.seeders = NumSeeders(newpm) /\ resp.leechers = NumLeechers(newpm)
                /\ \A j \in 1..(Len(out) - 1) : out[j].kind \in {"offer", "answer", "error"}
                \* C09 / C02: offers
                /\ Len(offs) = want
                /\ \A j \in 1..Len(offs) :
                     /\ offs[j].oid = E.offers[j] /\ offs[j].from = E.pid /\ offs[j].h = E.h
                     /\ Cardinality(RecvOf(offs[j])) = 1
                /\ \A j, k \in 1..Len(offs) : recv(j) = recv(k) => j = k
                \* C09: answers
                /\ Len(answs) = (IF legit THEN 1 ELSE 0)
                /\ legit => /\ <<answs[1].to[1], answs[1].to[2]>> = newpm[E.answer[1]].owner
                            /\ answs[1].from = E.pid /\ answs[1].oid = E.answer[2] /\ answs[1].h = E.h
                /\ \A j \in 1..Len(errs) : <<errs[j].to[1], errs[j].to[2]>> = c
                /\ Len(errs) <= 1
                /\ store' = news
                /\ pend' = p2
    /\ UNCHANGED <<cfg, list>>

Scrape ==
    /\ IsEvent("scrape")
    /\ LET c == <<E.c[1], E.c[2]>>
           asked == SeqRange(FirstN(E.hs, cfg.max_scrape))
       IN /\ Len(E.out) = 1 /\ <<E.out[1].to[1], E.out[1].to[2]>> = c
          \* a scrape with no hashes gets one reply too: an empty scrape reply or an error
          /\ E.out[1].kind = "scrape" \/ (E.hs = <<>> /\ E.out[1].kind = "error")
          /\ E.out[1].kind = "scrape" =>
             LET files == E.out[1].files IN
             \* every requested torrent with stored peers is listed with its counts;
             \* nothing else carries a non-zero count; only requested hashes appear
             /\ \A i, j \in 1..Len(files) : files[i][1] = files[j][1] => i = j
             /\ \A i \in 1..Len(files) :
                  /\ files[i][1] \in SeqRange(E.hs)
                  /\ LET cnt == ScrapeCounts(store, <<E.fam, files[i][1]>>)
                     IN files[i][2] = cnt.seeders /\ files[i][3] = cnt.leechers
             /\ \A h \in asked : (<<E.fam, h>> \in DOMAIN store) =>
                                   \E i \in 1..Len(files) : files[i][1] = h
    /\ UNCHANGED <<store, pend, ann, cfg, list>>

Close ==
    /\ IsEvent("close")
    /\ CloseEffects(<<E.c[1], E.c[2]>>, Calls(E))
    /\ UNCHANGED <<cfg, list>>

Clean ==
    /\ IsEvent("clean")
    /\ LET news == CleanStore(store, E.now, LAMBDA t : ~Allows(t[2]))
       IN /\ store' = news
          /\ pend' = [k \in {k \in DOMAIN PendAlive(news, pend) : pend[k] > E.now} |-> pend[k]]
    /\ UNCHANGED <<ann, cfg, list>>

(* update_access_list: with mode off the file is not read and success is reported *)
Reload ==
    /\ IsEvent("reload")
    /\ IF cfg.mode = "off" THEN E.ok /\ list' = list
       ELSE IF E.file.kind = "good"
       THEN E.ok /\ list' = SeqRange(E.file.hashes)
       ELSE ~E.ok /\ list' = list
    /\ UNCHANGED <<store, pend, ann, cfg>>

(* an announce the gate refused: only for forbidden hashes, and nothing changes *)
AnnounceRejected ==
    /\ IsEvent("announce_rejected")
    /\ ~Allows(E.t[2])
    /\ UNCHANGED <<store, pend, ann, cfg, list>>

Allowed ==
    /\ IsEvent("allowed")
    /\ E.ok = Allows(E.h)
    /\ UNCHANGED <<store, pend, ann, cfg, list>>

----------------------------------------------------------------------------
(* The stored state itself (verif_dump), where logged *)
DLive(d) == {i \in 1..Len(d) : Len(d[i][6]) > 0}
WsDumpAbs(d) ==
    [t \in {<<d[i][1], d[i][2]>> : i \in DLive(d)} |->
        LET i == CHOOSE i \in DLive(d) : <<d[i][1], d[i][2]>> = t
            ps == d[i][6]
        IN [p \in {ps[j][1] : j \in 1..Len(ps)} |->
              LET j == CHOOSE j \in 1..Len(ps) : ps[j][1] = p
              IN [owner |-> <<ps[j][5][1], ps[j][5][2]>>, seeder |-> ps[j][2], deadline |-> ps[j][3]]]]
WsDumpPend(d) ==
    UNION {UNION {{<<<<d[i][1], d[i][2]>>, d[i][6][j][1], x[1], x[2], x[3]>> : x \in SeqRange(d[i][6][j][6])}
                  : j \in 1..Len(d[i][6])} : i \in 1..Len(d)}
DumpOK ==
    ("dump" \in DOMAIN E) =>
        /\ \A i, j \in 1..Len(E.dump) : (E.dump[i][1] = E.dump[j][1] /\ E.dump[i][2] = E.dump[j][2]) => i = j
        /\ \A i \in 1..Len(E.dump) :
             /\ \A a, b \in 1..Len(E.dump[i][6]) : E.dump[i][6][a][1] = E.dump[i][6][b][1] => a = b
             /\ E.dump[i][4] = Cardinality({a \in 1..Len(E.dump[i][6]) : E.dump[i][6][a][2]})
        /\ WsDumpAbs(E.dump) = store'
        /\ WsDumpPend(E.dump) = {<<k[1], k[2], k[3], k[4], pend'[k]>> : k \in DOMAIN pend'}
        /\ E.ev = "clean" => {<<E.dump[i][1], E.dump[i][2]>> : i \in 1..Len(E.dump)} = DOMAIN store'

Next == (Reset \/ Announce \/ Scrape \/ Close \/ Clean \/ Reload \/ Allowed \/ AnnounceRejected) /\ DumpOK

Spec == Init /\ [][Next]_vars

Remember == TLCSet(1, [l |-> l, store |-> store, pend |-> pend, ann |-> ann, list |-> list])

Accepted ==
    LET d == TLCGet("stats").diameter IN
    IF d - 1 = Len(Rec) THEN TRUE
    ELSE /\ PrintT(<<"TRACE_REJECTED", d, ToJson(Rec[d])>>)
         /\ PrintT(<<"LAST_STATE", ToJson(TLCGet(1))>>)
         /\ FALSE
=============================================================================
