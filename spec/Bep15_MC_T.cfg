SPECIFICATION Spec
INVARIANT Law
INVARIANT EventTableLaw
CHECK_DEADLOCK FALSE
CONSTANT NPat = 3
