--------------------------- MODULE UdpServer_Trace ---------------------------
(***************************************************************************)
(* Trace validation of a running UDP tracker (black box, both backends)    *)
(* against UdpServer.tla's decision table and the reference tracker.       *)
(* The driver (lib/c06.py) sends datagrams of known class from sockets on  *)
(* several loopback addresses, one outstanding datagram per socket, and    *)
(* logs `send`, `recv` and `quiet` (no datagram arrived on these sockets   *)
(* during a quiet period) events.                                          *)
(***************************************************************************)
EXTENDS Naturals, Integers, Sequences, FiniteSets, TLC, Json, IOUtils, RefTracker

Rec == ndJsonDeserialize(IOEnv.TRACE)

Expect(class, conn, sport0, allowed) ==
    IF sport0 THEN "none"
    ELSE CASE class = "connect_ok" -> "connect"
           [] class \in {"announce_ok", "announce_ext"} ->
                  IF conn = "valid" THEN (IF allowed THEN "announce" ELSE "error") ELSE "none"
           [] class \in {"announce_port0", "scrape_empty", "scrape_ragged"} ->
                  IF conn = "valid" THEN "error" ELSE "none"
           [] class = "scrape_ok" -> IF conn = "valid" THEN "scrape" ELSE "none"
           [] OTHER -> "none"

VARIABLES l, store, pending, cfg
vars == <<l, store, pending, cfg>>

Init == l = 1 /\ store = <<>> /\ pending = <<>> /\ cfg = [max_scrape |-> 0, max_resp |-> 0, forbidden |-> <<>>]

E == Rec[l]
IsEvent(name) == l <= Len(Rec) /\ Rec[l].ev = name /\ l' = l + 1
FnPut(f, k, v) == [x \in DOMAIN f \cup {k} |-> IF x = k THEN v ELSE f[x]]
FnDel(f, k) == [x \in DOMAIN f \ {k} |-> f[x]]
FirstN(s, n) == SubSeq(s, 1, IF Len(s) <= n THEN Len(s) ELSE n)

FamOf(src) == IF src.class \in {"v4", "v4mapped"} THEN 4 ELSE 6
Allowed(h) == h \notin SeqRange(cfg.forbidden)
Exp(p) == Expect(p.class, p.conn, p.sport0, Allowed(p.h))

Reset ==
    /\ IsEvent("reset")
    /\ store' = <<>> /\ pending' = <<>> /\ cfg' = E

Send ==
    /\ IsEvent("send")
    /\ E.sock \notin DOMAIN pending        \* one outstanding datagram per socket
    /\ pending' = FnPut(pending, E.sock, E)
    /\ UNCHANGED <<store, cfg>>

Recv ==
    /\ IsEvent("recv")
    /\ E.sock \in DOMAIN pending           \* at most one reply, and only to the sender
    /\ LET p == pending[E.sock]
           t == <<FamOf(p.src), p.h>>
           key == <<p.src.host, p.port>>
       IN /\ E.kind = Exp(p)
          /\ E.txid = p.txid
          /\ CASE E.kind = "connect" -> /\ E.len = 16 /\ E.len <= p.len
                                        /\ store' = store
               [] E.kind = "announce" ->
                    LET cnt == AnnounceCountsExcl(store, t, key)
                        status == Status(p.event, p.left)
                    IN /\ ~E.ragged /\ E.fam = FamOf(p.src)
                       /\ E.seeders = cnt.seeders /\ E.leechers = cnt.leechers
                       /\ PeerListOK([i \in 1..Len(E.peers) |-> <<E.peers[i][1], E.peers[i][2]>>],
                                     Candidates(store, t, key), Limit(p.numwant, cfg.max_resp), 1)
                       /\ E.len = 20 + Len(E.peers) * (IF E.fam = 4 THEN 6 ELSE 18)
                       /\ store' = AnnounceStore(store, t, key, status,
                                                 [seeder |-> status = "seeding", deadline |-> 0, pid |-> 0])
               [] E.kind = "scrape" ->
                    LET want == FirstN(p.hs, cfg.max_scrape) IN
                    /\ ~E.ragged /\ Len(E.stats) = Len(want)
                    /\ \A i \in 1..Len(want) :
                         LET c == ScrapeCounts(store, <<FamOf(p.src), want[i]>>)
                         IN E.stats[i] = <<c.seeders, c.leechers>>
                    /\ store' = store
               [] E.kind = "error" -> store' = store
               [] OTHER -> FALSE
    /\ pending' = FnDel(pending, E.sock)
    /\ UNCHANGED cfg

(* nothing arrived on these sockets during the quiet period *)
Quiet ==
    /\ IsEvent("quiet")
    /\ \A s \in SeqRange(E.socks) : s \in DOMAIN pending => Exp(pending[s]) = "none"
    /\ pending' = [s \in DOMAIN pending \ SeqRange(E.socks) |-> pending[s]]
    /\ UNCHANGED <<store, cfg>>

Next == Reset \/ Send \/ Recv \/ Quiet
Spec == Init /\ [][Next]_vars

Remember == TLCSet(1, [l |-> l, pending |-> pending])
Accepted ==
    LET d == TLCGet("stats").diameter IN
    IF d - 1 = Len(Rec) THEN TRUE
    ELSE /\ PrintT(<<"TRACE_REJECTED", d, ToJson(Rec[d])>>)
         /\ PrintT(<<"LAST_STATE", ToJson(TLCGet(1))>>)
         /\ FALSE
=============================================================================
