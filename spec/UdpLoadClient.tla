--------------------------- MODULE UdpLoadClient ---------------------------
(***************************************************************************)
(* The client role of BEP 15 as played by the bundled UDP load tester      *)
(* (crates/udp_load_test/src/worker.rs), against a tracker behind a        *)
(* network that may lose, delay and duplicate datagrams.  Extension beyond *)
(* the listed properties.                                                  *)
(*                                                                         *)
(* A worker owns Slots sockets.  It first acquires one connection id per   *)
(* socket, all through socket 1, with connect requests whose transaction   *)
(* id is the marker AcquireTid (u32::MAX in the code), re-sending until a  *)
(* reply arrives; then it runs: connect requests with transaction id =     *)
(* slot number refresh the slot's id, announces and scrapes use the id of  *)
(* the peer's slot.  A connect reply received while running is stored at   *)
(* index `transaction id`.                                                 *)
(*                                                                         *)
(* GuardIndex = FALSE is the code as it is: the index is not checked, so a  *)
(* reply to an acquire request that arrives while running (a duplicate, or  *)
(* a reply to a re-sent request) indexes out of bounds and kills the        *)
(* worker thread.  GuardIndex = TRUE ignores such replies.                  *)
(***************************************************************************)
EXTENDS Naturals, Sequences, FiniteSets, TLC

CONSTANTS Slots, AcquireTid, MaxSends, GuardIndex

VARIABLES phase,    \* "acquire" | "run" | "crashed"
          ids,      \* sequence of connection ids held (one per slot once running)
          net,      \* set of replies in flight: [tid, cid, copy]
          issued,   \* connection ids the tracker has issued so far
          nsent,    \* requests sent so far (bounds the model)
          reqs      \* announce / scrape requests observed by the tracker: set of connection ids used
vars == <<phase, ids, net, issued, nsent, reqs>>

Init == phase = "acquire" /\ ids = <<>> /\ net = {} /\ issued = {} /\ nsent = 0 /\ reqs = {}

Fresh == Cardinality(issued) + 1

(* the tracker answers a connect request; the network delivers the reply once, twice or not at all *)
Connect(tid) ==
    /\ nsent < MaxSends /\ nsent' = nsent + 1
    /\ issued' = issued \cup {Fresh}
    /\ \E copies \in SUBSET {1, 2} :
          net' = net \cup {[tid |-> tid, cid |-> Fresh, copy |-> c] : c \in copies}

AcquireSend ==
    /\ phase = "acquire"
    /\ Connect(AcquireTid)
    /\ UNCHANGED <<phase, ids, reqs>>

AcquireRecv ==
    /\ phase = "acquire"
    /\ \E m \in net :
         /\ net' = net \ {m}
         /\ ids' = Append(ids, m.cid)
         /\ phase' = IF Len(ids) + 1 = Slots THEN "run" ELSE "acquire"
    /\ UNCHANGED <<issued, nsent, reqs>>

RunConnect ==
    /\ phase = "run"
    /\ \E s \in 0..(Slots - 1) : Connect(s)
    /\ UNCHANGED <<phase, ids, reqs>>

RunRequest ==
    /\ phase = "run" /\ nsent < MaxSends /\ nsent' = nsent + 1
    /\ \E s \in 1..Slots : reqs' = reqs \cup {ids[s]}
    /\ UNCHANGED <<phase, ids, net, issued>>

RunRecv ==
    /\ phase = "run"
    /\ \E m \in net :
         /\ net' = net \ {m}
         /\ IF m.tid \in 0..(Slots - 1)
            THEN ids' = [ids EXCEPT ![m.tid + 1] = m.cid] /\ UNCHANGED phase
            ELSE IF GuardIndex THEN UNCHANGED <<ids, phase>>
                 ELSE phase' = "crashed" /\ UNCHANGED ids       \* connection_ids[u32::MAX]
    /\ UNCHANGED <<issued, nsent, reqs>>

Next == AcquireSend \/ AcquireRecv \/ RunConnect \/ RunRequest \/ RunRecv
Spec == Init /\ [][Next]_vars

----------------------------------------------------------------------------
(* the client only ever presents connection ids the tracker gave it *)
UsesIssuedIds == reqs \subseteq issued
(* no reply sequence a tracker and a lossy, duplicating network can produce stops the worker *)
NeverCrashes == phase # "crashed"
=============================================================================
