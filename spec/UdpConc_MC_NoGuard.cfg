SPECIFICATION Spec
CONSTANTS
  Threads <- MCThreads
  Catalogue <- MCCatalogue
  GuardEnabled = FALSE
  NoThread = 0
  RecursiveScrape = FALSE
INVARIANTS Linearizable NoLostAnnounce NoOrphanWrite LockSanity
