SPECIFICATION Spec
CONSTANTS
  Threads <- MCThreads
  Catalogue <- MCCatalogue
  GuardEnabled = FALSE
  NoThread = 0
INVARIANTS Linearizable NoLostAnnounce NoOrphanWrite LockSanity
