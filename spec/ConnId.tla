------------------------------- MODULE ConnId -------------------------------
(***************************************************************************)
(* UDP connection ids (crates/udp/src/workers/socket/validator.rs) with an *)
(* ideal MAC: an id is <<t, tag>> where t is the validator's whole-second  *)
(* clock at issue time and tag = <<t, canonical ip>> for genuine ids.      *)
(*                                                                         *)
(* Times are BigNat pairs <<hi, lo>> in base 2^20 so that u32 values near  *)
(* 2^32 and the u64 sums of the code are representable with TLC's 32-bit   *)
(* integers.                                                               *)
(***************************************************************************)
EXTENDS Naturals, Integers, Sequences, FiniteSets

B == 1048576                      \* 2^20

Big(hi, lo) == <<hi, lo>>
BigOf(n) == <<n \div B, n % B>>   \* for n < 2^31
BAdd(a, b) == LET lo == a[2] + b[2] IN <<a[1] + b[1] + (lo \div B), lo % B>>
BLess(a, b) == a[1] < b[1] \/ (a[1] = b[1] /\ a[2] < b[2])
BLeq(a, b) == a = b \/ BLess(a, b)

FutureBound == BigOf(60)

(* the acceptance rule for an id issued at t, checked when the clock is c *)
TimeOK(t, c, maxAge) ==
    /\ BLess(c, BAdd(t, maxAge))          \* t + max_connection_age > c
    /\ BLeq(t, BAdd(c, FutureBound))      \* t <= c + 60

(* canonical source address: an IPv4-mapped IPv6 source is its IPv4 address *)
Canon(ip) == IF ip[1] = "map" THEN <<"v4", ip[2]>> ELSE ip

----------------------------------------------------------------------------
(* behavioural model for TLC with small times *)
CONSTANTS Ips, MaxAge, Clocks      \* MaxAge, Clocks: BigNat values

VARIABLES clock, issued, op
vars == <<clock, issued, op>>

Init == clock = BigOf(0) /\ issued = {} /\ op = [name |-> "init"]

Issue(ip) ==
    /\ issued' = issued \cup {[ip |-> Canon(ip), t |-> clock]}
    /\ op' = [name |-> "issue", ip |-> ip, id |-> [ip |-> Canon(ip), t |-> clock]]
    /\ UNCHANGED clock

SetClock(c) ==
    /\ clock' = c
    /\ op' = [name |-> "clock", t |-> c]
    /\ UNCHANGED issued

(* id: a genuine one, or a forgery carrying an arbitrary issue time *)
Check(ip, id, genuine) ==
    /\ op' = [name |-> "check", ip |-> ip, id |-> id, genuine |-> genuine,
              ok |-> genuine /\ id \in issued /\ id.ip = Canon(ip) /\ TimeOK(id.t, clock, MaxAge)]
    /\ UNCHANGED <<clock, issued>>

Next ==
    \/ \E ip \in Ips : Issue(ip)
    \/ \E c \in Clocks : SetClock(c)
    \/ \E ip \in Ips, id \in issued : Check(ip, id, TRUE)
    \/ \E ip \in Ips, t \in Clocks : Check(ip, [ip |-> Canon(ip), t |-> t], FALSE)

Spec == Init /\ [][Next]_vars

(* C05 as properties of every check step *)
AcceptIff ==
    [][op'.name = "check" =>
         (op'.ok <=> /\ op'.genuine
                     /\ \E i \in issued : /\ i = op'.id
                                          /\ i.ip = Canon(op'.ip)
                                          /\ BLess(clock, BAdd(i.t, MaxAge))
                                          /\ BLeq(i.t, BAdd(clock, FutureBound)))]_vars

ForeignRejected ==
    [][(op'.name = "check" /\ op'.id.ip # Canon(op'.ip)) => ~op'.ok]_vars

ForgedRejected == [][(op'.name = "check" /\ ~op'.genuine) => ~op'.ok]_vars

(* mapped and plain IPv4 sources are the same client *)
MappedIsV4 ==
    [][(op'.name = "check" /\ op'.genuine /\ op'.ip[1] = "map" /\ op'.id.ip = <<"v4", op'.ip[2]>>)
         => (op'.ok <=> TimeOK(op'.id.t, clock, MaxAge))]_vars

View == <<clock, issued>>
=============================================================================
