--------------------------- MODULE UdpRef_Trace ---------------------------
(***************************************************************************)
(* Trace validation of the real UDP swarm state against the reference      *)
(* tracker (deciding pass, DESIGN.md 3.5).  One trace line per public call *)
(* of aquatic_udp::swarm::TorrentMaps, logged by harness/src/bin/udp_exec. *)
(*                                                                         *)
(* Judged: reply counts, the peer list as far as C02 states it, scrape     *)
(* counts, cleaning totals, PeerAdded/PeerRemoved tally, the export file,  *)
(* access-list reload results and the gate decision.                       *)
(***************************************************************************)
EXTENDS RefTracker, Dump, Bags, Json, IOUtils

Rec == ndJsonDeserialize(IOEnv.TRACE)

(* Which aspects this validation run judges (set by the check through the  *)
(* environment): C01 judges replies and stored state, C20 additionally the *)
(* operator reports (tally, totals, export).                               *)
Judge(flag) == flag \in DOMAIN IOEnv /\ IOEnv[flag] = "1"
JReports == Judge("J_REPORTS")

VARIABLES
    l,       \* next line of Rec
    store,   \* reference store
    tally,   \* reference tally of the statistics worker (bag of peer ids)
    cfg,     \* configuration of the current run (the reset event)
    list     \* access list in force (set of hashes)

vars == <<l, store, tally, cfg, list>>

Init ==
    /\ l = 1
    /\ store = <<>>
    /\ tally = EmptyBag
    /\ cfg = [max_resp |-> 0, mode |-> "off"]
    /\ list = {}

E == Rec[l]
IsEvent(name) == l <= Len(Rec) /\ Rec[l].ev = name /\ l' = l + 1

Allows(h) ==
    CASE cfg.mode = "off" -> TRUE
      [] cfg.mode = "allow" -> h \in list
      [] cfg.mode = "deny" -> h \notin list

Reset ==
    /\ IsEvent("reset")
    /\ store' = <<>>
    /\ tally' = EmptyBag
    /\ cfg' = E
    /\ list' = {}

RECURSIVE SeqToBag(_)
SeqToBag(s) == IF s = <<>> THEN EmptyBag ELSE SetToBag({Head(s)}) (+) SeqToBag(Tail(s))

RECURSIVE ApplyMsgs(_, _)
ApplyMsgs(b, msgs) ==
    IF msgs = <<>> THEN b
    ELSE LET m == Head(msgs)
         IN ApplyMsgs(IF m[1] = "added" THEN b (+) SetToBag({m[2]})
                      ELSE IF BagIn(m[2], b) THEN b (-) SetToBag({m[2]}) ELSE b,
                      Tail(msgs))

(* the bag of peer ids over all stored entries *)
RECURSIVE PidBagOf(_, _)
PidBagOf(s, TK) ==
    IF TK = {} THEN EmptyBag
    ELSE LET x == CHOOSE x \in TK : TRUE
         IN SetToBag({s[x[1]][x[2]].pid}) (+) PidBagOf(s, TK \ {x})
StoredPidBag(s) == PidBagOf(s, {<<t, k>> \in UNION {{t} \X DOMAIN s[t] : t \in DOMAIN s} : TRUE})

PeerClients == JReports /\ (IF "peer_clients" \in DOMAIN cfg THEN cfg.peer_clients ELSE TRUE) /\ cfg.mode = "off"

Announce ==
    /\ IsEvent("announce")
    /\ ("gated" \in DOMAIN E /\ E.gated) => Allows(E.t[2])
    /\ LET t      == <<E.t[1], E.t[2]>>
           status == Status(E.event, E.left)
           entry  == [seeder |-> status = "seeding", deadline |-> E.deadline, pid |-> E.pid]
           cnt    == AnnounceCountsExcl(store, t, E.key)
           limit  == Limit(E.numwant, cfg.max_resp)
       IN /\ E.reply.fam = t[1]
          /\ E.reply.seeders = cnt.seeders
          /\ E.reply.leechers = cnt.leechers
          /\ PeerListOK(E.reply.peers, Candidates(store, t, E.key), limit, 1)
          /\ store' = AnnounceStore(store, t, E.key, status, entry)
          /\ tally' = IF PeerClients THEN ApplyMsgs(tally, E.msgs) ELSE tally
          \* C20: after every announce the tally equals the stored peers per id
          /\ PeerClients => tally' = StoredPidBag(store')
    /\ UNCHANGED <<cfg, list>>

Scrape ==
    /\ IsEvent("scrape")
    /\ Len(E.reply) = Len(E.hs)
    /\ \A i \in 1..Len(E.hs) :
         LET c == ScrapeCounts(store, <<E.fam, E.hs[i]>>)
         IN E.reply[i] = <<c.seeders, c.leechers>>
    /\ UNCHANGED <<store, tally, cfg, list>>

FamIdx(f) == IF f = 4 THEN 1 ELSE 2

Clean ==
    /\ IsEvent("clean")
    /\ LET forb(t) == ~Allows(t[2])
           new == CleanStore(store, E.now, forb)
           \* entries dropped because they expired (forbidden torrents' peers
           \* that expired are reported as well, the others are not)
           expired == {<<t, k>> \in UNION {{t} \X DOMAIN store[t] : t \in DOMAIN store} :
                          ~Valid(store[t][k].deadline, E.now)}
           cleanList == \A t \in DOMAIN store : ~forb(t)
       IN /\ store' = new
          /\ PeerClients => SeqToBag(E.removed) = PidBagOf(store, expired)
          /\ E.othermsgs = <<>>
          /\ tally' = IF PeerClients
                      THEN ApplyMsgs(tally, [i \in 1..Len(E.removed) |-> <<"removed", E.removed[i]>>])
                      ELSE tally
          \* C20 totals and export, stated for passes without access-list removals
          /\ (cleanList /\ JReports) =>
               /\ \A f \in {4, 6} :
                    /\ E.torrents[FamIdx(f)] = Cardinality({t \in DOMAIN new : t[1] = f})
                    /\ E.peers[FamIdx(f)] = TotalPeers(new, {t \in DOMAIN new : t[1] = f})
               /\ PeerClients => tally' = StoredPidBag(new)
               /\ E.export_on =>
                    /\ E.export_file = "present"
                    /\ ~E.tmp_left
                    /\ Len(E.export) = Cardinality(DOMAIN new)
                    /\ {<<x[1], x[2], x[3], x[4]>> : x \in SeqRange(E.export)}
                         = {<<t[1], t[2], NumSeeders(new[t]), NumLeechers(new[t])>> : t \in DOMAIN new}
          /\ (JReports /\ ~E.export_on) => E.export_file = "absent"
    /\ UNCHANGED <<cfg, list>>

(* Access list reload: a good file replaces the list, anything else leaves *)
(* the previous list in force and reports an error (C11).                  *)
(* update_access_list: with mode off the file is not read and success is reported *)
Reload ==
    /\ IsEvent("reload")
    /\ IF cfg.mode = "off" THEN E.ok /\ list' = list
       ELSE IF E.file.kind = "good"
       THEN E.ok /\ list' = SeqRange(E.file.hashes)
       ELSE ~E.ok /\ list' = list
    /\ UNCHANGED <<store, tally, cfg>>

(* an announce the gate refused: only for forbidden hashes, and nothing changes *)
AnnounceRejected ==
    /\ IsEvent("announce_rejected")
    /\ ~Allows(E.t[2])
    /\ UNCHANGED <<store, tally, cfg, list>>

Allowed ==
    /\ IsEvent("allowed")
    /\ E.ok = Allows(E.h)
    /\ UNCHANGED <<store, tally, cfg, list>>

(* Where the executor logged a state dump, the stored state itself must equal *)
(* the reference store (empty torrents ignored) after every step.            *)
DumpOK ==
    ("dump" \in DOMAIN E) => /\ DumpWellFormed(E.dump)
                              /\ DumpAbs(E.dump) = store'

Next == (Reset \/ Announce \/ Scrape \/ Clean \/ Reload \/ Allowed \/ AnnounceRejected) /\ DumpOK

Spec == Init /\ [][Next]_vars

(* diagnostics: remember the last state reached *)
Remember == TLCSet(1, [l |-> l, store |-> store, tally |-> tally, list |-> list])

Accepted ==
    LET d == TLCGet("stats").diameter IN
    IF d - 1 = Len(Rec) THEN TRUE
    ELSE /\ PrintT(<<"TRACE_REJECTED", d, ToJson(Rec[d])>>)
         /\ PrintT(<<"LAST_STATE", ToJson(TLCGet(1))>>)
         /\ FALSE
=============================================================================
