----------------------------- MODULE HttpServer -----------------------------
(***************************************************************************)
(* The HTTP tracker between the TCP stream and the swarm workers           *)
(* (crates/http/src/workers/socket/connection.rs, workers/swarm/mod.rs):   *)
(* request assembly across TCP segments, routing by info_hash[0] % swarm   *)
(* workers, scrape fan-out and merge, reply framing with a re-used header  *)
(* buffer whose Content-Length digit field is blanked and rewritten,       *)
(* keep-alive.  Property C16.                                              *)
(*                                                                         *)
(* Swarm storage is abstracted to hash -> set of peer keys (its own        *)
(* correctness is C07).  `ref` is a single reference tracker fed the same  *)
(* requests at their linearization points (the swarm worker's handling).   *)
(***************************************************************************)
EXTENDS Naturals, Integers, Sequences, FiniteSets, TLC

CONSTANTS
    Conns, W, Hashes, Keys, MaxScrape, KeepAlive,
    ScrapeLists,
    TruncateFirst,   \* TRUE: cut a scrape to MaxScrape hashes before partitioning it by worker
    BlankFirst,      \* TRUE: blank the digit field before writing the new length (negative control: FALSE)
    MaxReq           \* requests per connection (keeps the model finite without a state constraint)

VARIABLES phase, parts, cur, queue, store, ref, pend, hdr, sent, issued, expect
vars == <<phase, parts, cur, queue, store, ref, pend, hdr, sent, issued, expect>>

Workers == 0..(W - 1)
WorkerOf(h) == h % W
FirstN(s, n) == SubSeq(s, 1, IF Len(s) <= n THEN Len(s) ELSE n)
Rng(s) == {s[i] : i \in 1..Len(s)}
Sel(s, T(_)) == SelectSeq(s, T)

Requests ==
    {[kind |-> "announce", h |-> h, key |-> k, stop |-> st] : h \in Hashes, k \in Keys, st \in BOOLEAN}
    \cup {[kind |-> "scrape", hs |-> hs] : hs \in ScrapeLists}
    \cup {[kind |-> "bad"]}

Peers(s, h) == IF h \in DOMAIN s THEN s[h] ELSE {}
PutPeers(s, h, P) == [x \in DOMAIN s \cup {h} |-> IF x = h THEN P ELSE s[x]]

(* body length of a reply: chosen so that consecutive replies have different digit counts *)
BodyLen(r) == IF r.kind = "announce" THEN 7 + 100 * r.count
              ELSE IF r.kind = "scrape" THEN 9 + 45 * Cardinality(DOMAIN r.files) ELSE 30

(* decimal digits of n, as a sequence *)
RECURSIVE Digits(_)
Digits(n) == IF n < 10 THEN <<n>> ELSE Digits(n \div 10) \o <<n % 10>>

Blank == [i \in 1..8 |-> -1]      \* -1 stands for a space
WriteDigits(field, n) ==
    LET d == Digits(n) IN [i \in 1..8 |-> IF i <= Len(d) THEN d[i] ELSE field[i]]
(* what a client parses from the field: the leading digits up to the first space *)
RECURSIVE FieldValue(_, _, _)
FieldValue(f, i, acc) == IF i > 8 \/ f[i] = -1 THEN acc ELSE FieldValue(f, i + 1, acc * 10 + f[i])

Init ==
    /\ phase = [c \in Conns |-> "idle"]
    /\ parts = [c \in Conns |-> 0]
    /\ cur = [c \in Conns |-> [kind |-> "none"]]
    /\ queue = [w \in Workers |-> <<>>]
    /\ store = [w \in Workers |-> <<>>]
    /\ ref = <<>>
    /\ pend = [c \in Conns |-> [waiting |-> {}, files |-> <<>>, count |-> 0]]
    /\ hdr = [c \in Conns |-> Blank]
    /\ sent = [c \in Conns |-> <<>>]
    /\ issued = [c \in Conns |-> <<>>]
    /\ expect = [c \in Conns |-> [files |-> <<>>, count |-> 0]]

(* the client writes a request in n TCP segments, only after the previous reply has arrived *)
Send(c, req, n) ==
    /\ phase[c] = "idle" /\ Len(issued[c]) < MaxReq
    /\ phase' = [phase EXCEPT ![c] = "reading"]
    /\ parts' = [parts EXCEPT ![c] = n]
    /\ cur' = [cur EXCEPT ![c] = req]
    /\ issued' = [issued EXCEPT ![c] = Append(@, req)]
    /\ UNCHANGED <<queue, store, ref, pend, hdr, sent, expect>>

ScrapeParts(hs) ==
    LET base == IF TruncateFirst THEN FirstN(hs, MaxScrape) ELSE hs
    IN [w \in {WorkerOf(h) : h \in Rng(base)} |-> Sel(base, LAMBDA h : WorkerOf(h) = w)]

(* a segment arrives; the request is parsed once it is complete *)
Deliver(c) ==
    /\ phase[c] = "reading"
    /\ IF parts[c] > 1
       THEN /\ parts' = [parts EXCEPT ![c] = @ - 1]      \* MoreDataNeeded
            /\ UNCHANGED <<phase, queue, pend, expect>>
       ELSE /\ parts' = [parts EXCEPT ![c] = 0]
            /\ CASE cur[c].kind = "bad" ->
                      \* malformed / oversized: this connection is closed, nothing else happens
                      /\ phase' = [phase EXCEPT ![c] = "closed"]
                      /\ UNCHANGED <<queue, pend, expect>>
                 [] cur[c].kind = "announce" ->
                      /\ queue' = [queue EXCEPT ![WorkerOf(cur[c].h)] = Append(@, [c |-> c, req |-> cur[c]])]
                      /\ phase' = [phase EXCEPT ![c] = "waiting"]
                      /\ pend' = [pend EXCEPT ![c] = [waiting |-> {WorkerOf(cur[c].h)}, files |-> <<>>, count |-> 0]]
                      /\ expect' = [expect EXCEPT ![c] = [files |-> <<>>, count |-> 0]]
                 [] cur[c].kind = "scrape" ->
                      LET ps == ScrapeParts(cur[c].hs) IN
                      /\ queue' = [w \in Workers |->
                                     IF w \in DOMAIN ps
                                     THEN Append(queue[w], [c |-> c, req |-> [kind |-> "scrape", hs |-> ps[w]]])
                                     ELSE queue[w]]
                      /\ phase' = [phase EXCEPT ![c] = "waiting"]
                      /\ pend' = [pend EXCEPT ![c] = [waiting |-> DOMAIN ps, files |-> <<>>, count |-> 0]]
                      /\ expect' = [expect EXCEPT ![c] = [files |-> <<>>, count |-> 0]]
    /\ UNCHANGED <<cur, store, ref, hdr, sent, issued>>

Merge(f, g) == [x \in DOMAIN f \cup DOMAIN g |-> IF x \in DOMAIN g THEN g[x] ELSE f[x]]

(* a swarm worker handles the request at the head of its queue: linearization point *)
Work(w) ==
    /\ queue[w] # <<>>
    /\ LET m == Head(queue[w])  c == m.c  r == m.req IN
       /\ queue' = [queue EXCEPT ![w] = Tail(@)]
       /\ IF r.kind = "announce"
          THEN LET others == Peers(store[w], r.h) \ {r.key}
                   new == IF r.stop THEN others ELSE others \cup {r.key}
                   rothers == Peers(ref, r.h) \ {r.key}
                   rnew == IF r.stop THEN rothers ELSE rothers \cup {r.key}
               IN /\ store' = [store EXCEPT ![w] = PutPeers(@, r.h, new)]
                  /\ ref' = PutPeers(ref, r.h, rnew)
                  /\ pend' = [pend EXCEPT ![c] = [waiting |-> @.waiting \ {w}, files |-> <<>>,
                                                  count |-> Cardinality(others)]]
                  /\ expect' = [expect EXCEPT ![c] = [files |-> <<>>, count |-> Cardinality(rothers)]]
          ELSE LET hs == FirstN(r.hs, MaxScrape)       \* the swarm worker's own truncation
                   files == [h \in Rng(hs) |-> Cardinality(Peers(store[w], h))]
                   \* reference: counts for this worker's share of the first MaxScrape requested hashes
                   want == {h \in Rng(FirstN(cur[c].hs, MaxScrape)) : WorkerOf(h) = w}
                   rfiles == [h \in want |-> Cardinality(Peers(ref, h))]
               IN /\ pend' = [pend EXCEPT ![c] = [waiting |-> @.waiting \ {w},
                                                  files |-> Merge(@.files, files), count |-> 0]]
                  /\ expect' = [expect EXCEPT ![c] = [files |-> Merge(@.files, rfiles), count |-> 0]]
                  /\ UNCHANGED <<store, ref>>
    /\ UNCHANGED <<phase, parts, cur, hdr, sent, issued>>

(* all parts are back: frame and write the reply *)
Reply(c) ==
    /\ phase[c] = "waiting" /\ pend[c].waiting = {}
    /\ LET body == IF cur[c].kind = "announce"
                   THEN [kind |-> "announce", count |-> pend[c].count]
                   ELSE [kind |-> "scrape", files |-> pend[c].files]
           len  == BodyLen(body)
           field == WriteDigits(IF BlankFirst THEN Blank ELSE hdr[c], len + 2)
       IN /\ hdr' = [hdr EXCEPT ![c] = field]
          /\ sent' = [sent EXCEPT ![c] = Append(@, [req |-> cur[c], clen |-> FieldValue(field, 1, 0),
                                                    actual |-> len + 2, body |-> body,
                                                    expect |-> expect[c]])]
    /\ phase' = [phase EXCEPT ![c] = IF KeepAlive THEN "idle" ELSE "closed"]
    /\ UNCHANGED <<parts, cur, queue, store, ref, pend, issued, expect>>

Next ==
    \/ \E c \in Conns, req \in Requests, n \in 1..3 : Send(c, req, n)
    \/ \E c \in Conns : Deliver(c)
    \/ \E w \in Workers : Work(w)
    \/ \E c \in Conns : Reply(c)

Spec == Init /\ [][Next]_vars

----------------------------------------------------------------------------
(* C16 *)

(* Content-Length equals the number of bytes that follow *)
WellFramed == \A c \in Conns : \A i \in 1..Len(sent[c]) : sent[c][i].clen = sent[c][i].actual

(* replies come one per request, in request order; a bad request gets none *)
InOrder ==
    \A c \in Conns :
        LET good == Sel(issued[c], LAMBDA r : r.kind # "bad")
        IN /\ Len(sent[c]) <= Len(good)
           /\ \A i \in 1..Len(sent[c]) : sent[c][i].req = good[i]

(* the replies are those of a single reference tracker, whatever the number of workers *)
WorkersInvisible ==
    /\ \A c \in Conns : \A i \in 1..Len(sent[c]) :
         LET s == sent[c][i] IN
         IF s.req.kind = "announce" THEN s.body.count = s.expect.count
         ELSE /\ s.body.files = s.expect.files
              /\ DOMAIN s.body.files = Rng(FirstN(s.req.hs, MaxScrape))
    /\ \A h \in Hashes : Peers(store[WorkerOf(h)], h) = Peers(ref, h)
    /\ \A w \in Workers : \A h \in DOMAIN store[w] : WorkerOf(h) = w

(* a malformed request changes nothing but its own connection *)
Isolation ==
    [][\A c \in Conns :
         (phase[c] = "reading" /\ parts[c] = 1 /\ cur[c].kind = "bad" /\ phase'[c] = "closed")
            => (store' = store /\ ref' = ref /\ queue' = queue /\ sent' = sent
                /\ \A d \in Conns \ {c} : phase'[d] = phase[d])]_vars

(* every accepted request is eventually answered (checked under fairness) *)
Fairness == /\ \A c \in Conns : WF_vars(Deliver(c)) /\ WF_vars(Reply(c))
            /\ \A w \in Workers : WF_vars(Work(w))
FairSpec == Spec /\ Fairness
Answered == \A c \in Conns : (phase[c] = "waiting") ~> (phase[c] # "waiting")
=============================================================================
