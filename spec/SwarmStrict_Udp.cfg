SPECIFICATION Spec
CONSTANTS
  Cap = 2
  CleanShrinks = TRUE
INVARIANT Mark
POSTCONDITION Accepted
CHECK_DEADLOCK FALSE
