SPECIFICATION Spec
CONSTANTS N = 8  OffByOne = TRUE
INVARIANTS UHSound
CHECK_DEADLOCK FALSE
