\* Config B: two hashes in one family, two peer ids (scrape lists, per-family
\* totals, tally under peer-id change)
SPECIFICATION Spec
CONSTANTS
  Fams = {4}
  Hashes = {1, 2}
  Keys = {k1, k2}
  Pids = {1, 2}
  Deadlines = {1}
  Nows = {0, 1}
  NumWants <- MCNumWants
  MaxResp = 1
  Cap = 2
  ScrapeLists <- MCScrapeLists
  Events = {"started", "stopped"}
  Lefts = {0, 1}
SYMMETRY SymKeys
VIEW View
INVARIANTS TypeOK TallyFaithful SelectionInBounds
PROPERTIES RefinesReference
CHECK_DEADLOCK FALSE
