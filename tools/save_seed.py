#!/usr/bin/env python3
"""usage: tools/save_seed.py <seed dir> <name> <property> <caught-by json> <needs text>
Copies a confirmed seeded change into /verif/seeded/<name>/ with meta.json."""
import json, os, shutil, sys
sd, name, prop, caught, needs = sys.argv[1:6]
dst = os.path.join(os.path.dirname(os.path.dirname(os.path.abspath(__file__))), "seeded", name)
os.makedirs(dst, exist_ok=True)
for f in ("patch.diff", "demo.diff", "notes.md", "confirm.log"):
    p = os.path.join(sd, f)
    if os.path.exists(p):
        shutil.copy(p, os.path.join(dst, f))
conf = open(os.path.join(sd, "confirm.log")).read().split("\n") if os.path.exists(os.path.join(sd, "confirm.log")) else []
meta = {"property": prop, "needs_to_manifest": needs, "caught_by": json.loads(caught),
        "confirmed_by_lead": {"what_was_run": "tools/confirm_seed.sh in a scratch worktree: full workspace test suite with patch.diff "
                              "(must pass), demonstration with patch.diff + demo.diff (must fail), demonstration with demo.diff only (must pass)",
                              "outcome": [c for c in conf if c]},
        "origin": "independent sub-agent given only the property text and a scratch worktree"}
json.dump(meta, open(os.path.join(dst, "meta.json"), "w"), indent=1)
print("saved", dst)
