#!/bin/sh
# usage: tools/run_all.sh quick|thorough [ids...]  - runs checks sequentially, prints one line per check
tier=$1; shift
ids="$@"
[ -z "$ids" ] && ids="C01 C02 C03 C04 C05 C06 C07 C08 C09 C10 C11 C13 C14 C15 C16 C17 C18 C19 C20"
for id in $ids; do
  s=$(date +%s)
  ./check $id --tier $tier > work/run_$id.$tier.log 2>&1
  rc=$?
  e=$(date +%s)
  echo "$id $tier rc=$rc $((e-s))s $(grep -c '^VIOLATION' work/run_$id.$tier.log) violations $(grep -c '^KNOWN-FINDING' work/run_$id.$tier.log) known $(grep '^TOOL-ERROR' work/run_$id.$tier.log | cut -c1-200)"
done
