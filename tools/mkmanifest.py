#!/usr/bin/env python3
"""Regenerates /verif/MANIFEST.json from the table below (kept in one place so the
manifest is always schema-valid)."""
import json
import os
import subprocess

VERIF = os.path.dirname(os.path.dirname(os.path.abspath(__file__)))

TB = "TLC and the TLA+ standard/community modules; the harness's static id tables; the Rust harness only executes and records, the oracle is the TLA+ specification"

CHECKS = {
 "C01": dict(
  technique="TLA+ refinement model checking (TLC) + edge-cover replay and trace validation",
  level="model_checking", ref="5 C01",
  text="TLC checks exhaustively (small constants) that the implementation-shaped peer-map model (inline/heap representation, swap_remove order, cached seeder count) refines the reference tracker on every step; every transition of a generation model is then executed on the real TorrentMaps and every recorded reply of those runs and of random histories is validated by TLC against the reference tracker.",
  note="Exhaustive only within the MC constants (4-5 peer keys, 1-2 torrents); beyond them random histories over 12 keys x 4 hashes x 2 families. Counts above i32::MAX are out of reach. " + TB),
 "C02": dict(
  technique="TLC exhaustive evaluation of the transcribed selection arithmetic (all offset pairs) + grid replay on three trackers validated by TLC",
  level="model_checking", ref="5 C02",
  text="PeerSelect.tla transcribes extract_response_peers of the three trackers with the code's own range expressions; TLC checks soundness (distinct, in range, requester excluded, count bounds, no out-of-bounds slice, no usize underflow) for every swarm size and limit up to N, every requester position and every pair of random offsets, and must reject an off-by-one variant (negative control). On the real code every (others, limit) grid cell is built through public announces and queried from every position; TLC validates every returned list / set of offer receivers.",
  note="The exhaustive statement over all RNG outcomes is about the TLA+ transcription; on the real code RNG outcomes are sampled. " + TB),
 "C04": dict(
  technique="TLC model checking of a lock-granularity concurrent model (linearizability, deadlock freedom) + schedule replay on real threads + linearizability trace validation + lock-level trace validation against the same model",
  level="model_checking", ref="5 C04",
  text="UdpConc.tla models shard/peer-map RwLocks with parking_lot's writer preference (an exclusive acquisition sets the writer bit, then waits for the readers; no reader is admitted meanwhile), Arc counts, per-thread program counters and scrapes as sequences of per-torrent units; TLC explores every interleaving of 3-thread programs (linearization-point ghost state, NoLostAnnounce, NoOrphanWrite, deadlock check), must find the CHANGELOG race when the Arc guard is removed and must find a deadlock when a scrape read-locks its shards recursively. TLC-generated schedules are replayed on the real TorrentMaps by a cooperative scheduler built on a feature-gated tracing RwLock wrapper; real yield points are also explored depth-first, randomly and with free-running threads; TLC checks every execution for linearizability and quiescent state, and every controlled execution is additionally validated at lock granularity against UdpConc itself (UdpConc_Trace: each acquisition seen by the wrapper is the model action that performs it; a mismatch is reported as model drift, not as a verdict).",
  note="Interleavings inside a critical section and memory-model effects below lock granularity are out of scope; cleaning is a sequence of per-torrent atomic units. " + TB),
 "C05": dict(
  technique="TLC model checking of ConnId.tla + boundary-grid replay on the real ConnectionValidator validated by TLC",
  level="model_checking", ref="5 C05",
  text="ConnId.tla (ideal MAC, BigNat clock) is model-checked for AcceptIff / ForeignRejected / ForgedRejected / MappedIsV4; TLC evaluates the acceptance rule on a boundary grid (ages 0,1,2,120,2^32-1 x issue/check times one second around both comparisons, near 2^32) and every case is executed on a real ConnectionValidator with same/mapped/other addresses, all single-bit and sampled double-bit alterations, forged ids and ids of another instance; TLC validates each result.",
  note="Up to the 2^-32 MAC collision chance (one retry with fresh keys); clock set through the verif hook. " + TB),
 "C06": dict(
  technique="TLC decision-table model (UdpServer.tla) + black-box trace validation of running trackers on both backends",
  level="model_checking", ref="5 C06",
  text="UdpServer.tla states the datagram->reply contract; TLC checks its properties and prints the decision table (class x connection-id provenance x source port 0 x allowed); every row is concretised and sent to running mio and io_uring trackers from several loopback addresses (raw socket for port 0, second tracker process for foreign ids, max_connection_age=1 for stale ids); TLC validates each reply or its absence, transaction id, kind, family, scrape prefix, counts.",
  note="'No reply' = quiet period on a socket with one outstanding datagram; datagram classes fixed by construction. Known finding: io_uring drops scrapes of >= 24 hashes. " + TB),
 "C07": dict(
  technique="TLA+ refinement model checking (TLC) + edge-cover replay and trace validation",
  level="model_checking", ref="5 C07",
  text="HttpSwarm.tla (cap 4, no shrink on clean, sorted-map scrape of the first max_scrape hashes) refines the reference tracker on every step (TLC); model transitions are executed on the real storage through the verif re-export and all replies, scrape maps and the stored state after each step are validated by TLC; random histories likewise.",
  note="Quick tier covers a measured subset of the generation model's edges; clean() reads the mock clock. " + TB),
 "C08": dict(
  technique="TLA+ refinement + ownership action properties (TLC) + edge-cover replay and trace validation",
  level="model_checking", ref="5 C08",
  text="WsSwarm.tla models storage plus the socket-side announced_info_hashes bookkeeping with connections on different socket workers sharing slot keys; TLC checks RefinesReference, Ownership, ClosedLeavesNothing, PendingFaithful and rejects the pre-repair ownership rules (negative control); transitions and random histories run on the real storage, every out-message and the stored state validated by TLC.",
  note="Socket-side bookkeeping emulated by the executor and checked by the trace spec; real socket workers are C17. " + TB),
 "C09": dict(
  technique="TLA+ model checking with a pending-offer history variable (TLC) + trace validation of every out-message",
  level="model_checking", ref="5 C09",
  text="The pending-offer relation is kept independently as a history variable and must equal the entries' expectation maps (PendingFaithful); StepRefines states offer count/injectivity/addressing and forward-iff-pending for answers; offer/answer-biased histories on the real storage are validated message by message, including pending tables from verif_dump.",
  note="An offer's pending state belongs to the offering peer's stored entry. " + TB),
 "C10": dict(
  technique="TLC model checking of time-biased configs of the three storage models + trace validation with state dumps",
  level="model_checking", ref="5 C10",
  text="Cleaning steps are specified as: entry survives iff deadline > now (both representations, offers too); TLC checks it on UdpSwarm/HttpSwarm/WsSwarm time configs; time-biased histories run on the three real storages and the stored entries and pending offers are compared with the reference after every step.",
  note="API level: deadlines passed as ValidUntil (UDP/HTTP) or read from the mock clock (WS). " + TB),
 "C11": dict(
  technique="TLC model checking of AccessList.tla + edge-cover replay on update_access_list and the three storages",
  level="model_checking", ref="5 C11",
  text="AccessList.tla (file states good/bad-line-at-k/missing, reload = parse fully then swap, gate, clean) is checked for GateSound, ReloadAtomic, CleanEnforces in modes off/allow/deny; every transition is replayed with concrete files on the real update_access_list and each tracker's storage; TLC validates reload results, gate decisions and stored state.",
  note="API level: the socket workers' 3-line gate is emulated by the executors. " + TB),
 "C03": dict(
  technique="TLC-checked source/canonicalisation model + black-box trace validation of running trackers under all socket configurations; TLC-enumerated proxy header layouts",
  level="model_checking", ref="5 C03",
  text="UdpServer.tla keys stored peers by Canon(source) and never reads the request's ip field (StoredKeysAreSources, FamilyOfSender checked by TLC); running UDP trackers (mio and io_uring) under IPv4-only, IPv6-only, dual-stack, both, and plain+dual-stack sockets, and HTTP trackers (direct, dual-stack listener, behind a reverse proxy with TLC-enumerated header layouts) are driven from several loopback addresses with hostile in-request address fields; TLC validates every returned peer address, family and count against the reference keyed by the network source.",
  note="Only loopback addresses exist in the sandbox. WebTorrent part: see evidence coverage key ws. " + TB),
 "C13": dict(
  technique="TLA+ reference codec (Bep15.tla) evaluated by TLC over the structural input space + byte-for-byte trace validation",
  level="model_checking", ref="5 C13",
  text="Bep15.tla is a reference BEP 15 codec and parser decision table over byte sequences; TLC checks its internal laws (parse(encode(x)) = x, classification of every truncation length, action, event, magic, port, payload length, maxScrape x hash count) with negative controls, prints the cases, and validates the real write_bytes/parse_bytes results byte for byte and field by field.",
  note="TLC is used as an evaluator of a transcribed function with rich case analysis (little behaviour to explore); connect requests longer than 16 bytes and sendable/unsendable classification are not judged. " + TB),
 "C14": dict(
  technique="TLA+ reference codec (HttpCodec.tla: url-decoding state machine, query parser, independent bencode writer/reader) evaluated by TLC + trace validation",
  level="model_checking", ref="5 C14",
  text="HttpCodec.tla defines UrlDecode20, query parsing with the statement's domain predicates, canonical bencode writers and a validating bencode reader; TLC checks the codec's laws per case (with an unsorted-dictionary negative control), prints the shapes, and validates the real Request::write/parse_bytes, parse_http_get_path and Response::write_bytes/parse_bytes results byte for byte.",
  note="Ill-formed query strings (stray = or &, duplicated keys, code points > 255) are outside the judged domain; counts >= 2^63 and key parameters longer than the parser's limit are not generated. " + TB),
 "C15": dict(
  technique="TLA+ reference codec (WsCodec.tla: identifier rule, JSON trees, message shapes) evaluated by TLC + trace validation",
  level="model_checking", ref="5 C15",
  text="WsCodec.tla states the 20-byte identifier rule over code points, UTF-8 well-formedness, JSON trees and the message shapes; TLC checks the laws (with prefix-acceptance and wrap-around negative controls), prints the identifier decision table and shapes, and validates the real to_ws_message/from_ws_message results for text and binary frames.",
  note="Binary frames that are not well-formed UTF-8 must be rejected (reading of 'identical for text and binary frames'); protocol spelling is not judged, only identifier encoding and round-trip equality. " + TB),
 "C16": dict(
  technique="TLC model checking of HttpServer.tla (framing, routing, scrape merge) + linearizability trace validation of running trackers",
  level="model_checking", ref="5 C16",
  text="HttpServer.tla models request assembly across segments, routing by hash to swarm workers, scrape fan-out/merge, the re-used Content-Length digit field and keep-alive; TLC checks WellFramed, InOrder, WorkersInvisible, Isolation for 1-3 swarm workers and rejects the per-worker-truncation and stale-digit variants; running trackers (socket x swarm workers, keep-alive on/off) are driven by concurrent connections with requests split at byte offsets, and TLC infers a linearization that explains every reply. One configuration (three in the thorough tier) runs the same scenario over TLS.",
  note="Pipelining and TLS are outside the statement/exercise; multi-hash scrapes are issued at quiescence. " + TB),
 "C17": dict(
  technique="TLC model checking of WsServer.tla (meshes, routing by worker and slot key, close) and WsSwarm.tla + black-box trace validation of running trackers",
  level="model_checking", ref="5 C17",
  text="WsServer.tla models socket workers with colliding slot keys, swarm workers and the three meshes as independent FIFO queues; TLC checks DeliveredOnlyToAddressee and ClosedLeavesNothing (for closes with no announce in flight), rejects routing by slot key only, and exhibits the close-overtakes-announce race when closes are unrestricted. Running trackers (socket x swarm workers, dual-stack listener) are driven by several WebSocket clients one operation at a time; every frame received by any client is logged with the connection it arrived on and validated by TLC against the reference semantics of C08/C09 (addressing, replies, refusals, closed connections leave nothing). One configuration runs over TLS, and a connection closed by the tracker after a TLS certificate update (grace period) must leave no peers either.",
  note="Operations are sequential (settle window); the in-flight race is explored on the model only; which socket worker accepts a connection is not observed. Known finding: refusal error frame not delivered. " + TB),
 "C18": dict(
  technique="TLC evaluation of Buffers.tla (size functions against mirrored buffer constants, boundary search) + delivery/size binding on running trackers",
  level="model_checking", ref="5 C18",
  text="Buffers.tla computes BEP 15 and bencode/HTTP reply and request sizes against the fixed buffers and finds every boundary; TLC prints the grid (defaults, both sides of each boundary, extremes) and the verdict Fits; at each grid point a real tracker is configured, the worst-case swarm built and the worst-case request sent; TLC validates that delivery and reply size are exactly what the model computes. Accepted configurations whose worst-case request is not delivered are reported (all currently listed as known findings with their exact boundary). Exact-fit probes (the HTTP announce reply that fills the response buffer to the last byte, computed by Buffers_MC) and overfull probes (swarm or scrape larger than the limit under test) must be delivered too.",
  note="TLC evaluates a size model over a finite grid (no behaviour search). HTTP scrapes longer than the request buffer are outside the quantifier. " + TB),
 "C19": dict(
  technique="TLC model checking of Watchdog.tla + fault enumeration on real tracker processes validated by TLC",
  level="model_checking", ref="5 C19",
  text="Watchdog.tla models run()'s tail loop with a discrete clock (workers may die at any time, poll period 5) and TLC checks that a dead worker is noticed within the bound for every death time relative to the poll phase (a 12 s period is rejected). Each fault scenario starts a real tracker process with a fault armed at a named point of one worker kind (panic / return Err / return Ok, at start-up or after N hits, unbindable socket, built-in panic of the HTTP connection task) with 1-2 workers of the kind; fault and return timestamps come from the child's monotonic clock and TLC validates result = error within 10 s.",
  note="Prometheus worker not built into the harness; fault points are feature-gated hooks. " + TB),
 "C20": dict(
  technique="TLA+ model checking of tally/export invariants (TLC) + trace validation + crash-point enumeration against Export.tla",
  level="model_checking", ref="5 C20",
  text="TLC checks TallyFaithful / totals / export on the swarm model and PathAlwaysComplete on the export step model with a crash after every step; the real TorrentMaps is driven through edge-cover and random histories (peer-id change, stop, expiry) with statistics and exports on and TLC validates tally, totals and export file after every step; the export is crashed (process abort) at every step and the file at the configured path compared with the model's allowed states.",
  note="Tally is applied to the drained PeerAdded/PeerRemoved messages as workers/statistics/mod.rs does (transcribed in TLA+); no access-list change between announce and clean (the property's quantifier). " + TB),
}

NOT_APPLICABLE = {
 "C12": "panic-freedom / allocation bounds over all byte strings is a robustness property of pure parser functions with no state machine to specify; TLA+/TLC cannot enumerate byte strings up to 8 KiB (DESIGN.md section 6)",
}

PENDING = "check not built yet (construction in progress, see DESIGN.md section 10)"


def main():
    props = [json.loads(l)["id"] for l in open(os.path.join(VERIF, "properties.jsonl"))]
    try:
        commits = subprocess.run(["git", "-C", "/repo", "log", "--format=%h %s", "--grep=^verif hook"],
                                 stdout=subprocess.PIPE, text=True).stdout.strip().splitlines()
    except Exception:
        commits = []
    checks = []
    for p in props:
        if p in CHECKS:
            c = CHECKS[p]
            checks.append({
                "property_id": p,
                "quick_cmd": "./check %s --tier quick" % p,
                "thorough_cmd": "./check %s --tier thorough" % p,
                "evidence_file": "/verif/evidence/%s.json" % p,
                "replay_cmd_template": "./check %s --replay {path}" % p,
                "engine": "tlc",
                "level_claimed": {"category": c["level"], "text": c["text"], "design_ref": "DESIGN.md section " + c["ref"]},
                "level_note": c["note"],
                "technique": c["technique"],
            })
    na = []
    for p in props:
        if p in CHECKS:
            continue
        na.append({"property_id": p, "reason": NOT_APPLICABLE.get(p, PENDING)})
    m = {
        "version": 1,
        "setup_cmd": "cd /verif/harness && cargo build --offline 2>&1 | tail -3",
        "hooks": {
            "guard": "cargo feature `verif` (crates aquatic_common, aquatic_udp, aquatic_http, aquatic_ws)",
            "enable": "the harness crate /verif/harness depends on /repo/crates/* by path with features = [\"verif\"]; no workspace member of /repo enables the feature",
            "baseline_off_cmd": "cd /repo && cargo test --workspace --no-fail-fast --offline",
            "source_commits": [c.split()[0] for c in commits],
            "add_only": True,
        },
        "engines": [{"name": "tlc", "path": "/verif/check", "serves_properties": sorted(CHECKS),
                     "kind_free_text": "TLA+ specifications in /verif/spec checked with TLC; Rust harness in /verif/harness executes TLC-generated behaviours on the real code and records traces that TLC validates"}],
        "checks": checks,
        "notes": "Exit codes: 0 held, 1 VIOLATION line printed, 2 tool error. Genuine defects: known_findings.json.",
        "not_applicable": na,
    }
    with open(os.path.join(VERIF, "MANIFEST.json"), "w") as f:
        json.dump(m, f, indent=1)
    print("MANIFEST.json: %d checks, %d not_applicable" % (len(checks), len(na)))


if __name__ == "__main__":
    main()
