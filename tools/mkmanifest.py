#!/usr/bin/env python3
"""Regenerates /verif/MANIFEST.json from the table below (kept in one place so the
manifest is always schema-valid)."""
import json
import os
import subprocess

VERIF = os.path.dirname(os.path.dirname(os.path.abspath(__file__)))

TB = "TLC and the TLA+ standard/community modules; the harness's static id tables; the Rust harness only executes and records, the oracle is the TLA+ specification"

CHECKS = {
 "C01": dict(
  technique="TLA+ refinement model checking (TLC) + edge-cover replay and trace validation",
  level="model_checking", ref="5 C01",
  text="TLC checks exhaustively (small constants) that the implementation-shaped peer-map model (inline/heap representation, swap_remove order, cached seeder count) refines the reference tracker on every step; every transition of a generation model is then executed on the real TorrentMaps and every recorded reply of those runs and of random histories is validated by TLC against the reference tracker.",
  note="Exhaustive only within the MC constants (4-5 peer keys, 1-2 torrents); beyond them random histories over 12 keys x 4 hashes x 2 families. Counts above i32::MAX are out of reach. " + TB),
 "C20": dict(
  technique="TLA+ model checking of tally/export invariants (TLC) + trace validation + crash-point enumeration against Export.tla",
  level="model_checking", ref="5 C20",
  text="TLC checks TallyFaithful / totals / export on the swarm model and PathAlwaysComplete on the export step model with a crash after every step; the real TorrentMaps is driven through edge-cover and random histories (peer-id change, stop, expiry) with statistics and exports on and TLC validates tally, totals and export file after every step; the export is crashed (process abort) at every step and the file at the configured path compared with the model's allowed states.",
  note="Tally is applied to the drained PeerAdded/PeerRemoved messages as workers/statistics/mod.rs does (transcribed in TLA+); no access-list change between announce and clean (the property's quantifier). " + TB),
}

NOT_APPLICABLE = {
 "C12": "panic-freedom / allocation bounds over all byte strings is a robustness property of pure parser functions with no state machine to specify; TLA+/TLC cannot enumerate byte strings up to 8 KiB (DESIGN.md section 6)",
}

PENDING = "check not built yet (construction in progress, see DESIGN.md section 10)"


def main():
    props = [json.loads(l)["id"] for l in open(os.path.join(VERIF, "properties.jsonl"))]
    try:
        commits = subprocess.run(["git", "-C", "/repo", "log", "--format=%h %s", "--grep=^verif hook"],
                                 stdout=subprocess.PIPE, text=True).stdout.strip().splitlines()
    except Exception:
        commits = []
    checks = []
    for p in props:
        if p in CHECKS:
            c = CHECKS[p]
            checks.append({
                "property_id": p,
                "quick_cmd": "./check %s --tier quick" % p,
                "thorough_cmd": "./check %s --tier thorough" % p,
                "evidence_file": "/verif/evidence/%s.json" % p,
                "replay_cmd_template": "./check %s --replay {path}" % p,
                "engine": "tlc",
                "level_claimed": {"category": c["level"], "text": c["text"], "design_ref": "DESIGN.md section " + c["ref"]},
                "level_note": c["note"],
                "technique": c["technique"],
            })
    na = []
    for p in props:
        if p in CHECKS:
            continue
        na.append({"property_id": p, "reason": NOT_APPLICABLE.get(p, PENDING)})
    m = {
        "version": 1,
        "setup_cmd": "cd /verif/harness && cargo build --offline 2>&1 | tail -3",
        "hooks": {
            "guard": "cargo feature `verif` (crates aquatic_common, aquatic_udp, aquatic_http, aquatic_ws)",
            "enable": "the harness crate /verif/harness depends on /repo/crates/* by path with features = [\"verif\"]; no workspace member of /repo enables the feature",
            "baseline_off_cmd": "cd /repo && cargo test --workspace --no-fail-fast --offline",
            "source_commits": [c.split()[0] for c in commits],
            "add_only": True,
        },
        "engines": [{"name": "tlc", "path": "/verif/check", "serves_properties": sorted(CHECKS),
                     "kind_free_text": "TLA+ specifications in /verif/spec checked with TLC; Rust harness in /verif/harness executes TLC-generated behaviours on the real code and records traces that TLC validates"}],
        "checks": checks,
        "notes": "Exit codes: 0 held, 1 VIOLATION line printed, 2 tool error. Genuine defects: known_findings.json.",
        "not_applicable": na,
    }
    with open(os.path.join(VERIF, "MANIFEST.json"), "w") as f:
        json.dump(m, f, indent=1)
    print("MANIFEST.json: %d checks, %d not_applicable" % (len(checks), len(na)))


if __name__ == "__main__":
    main()
