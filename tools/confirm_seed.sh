#!/bin/sh
# usage: tools/confirm_seed.sh <worktree> <seed dir> <demo command...>
# confirms: (1) full suite passes with patch.diff, (2) demo fails with patch+demo, (3) demo passes with demo only
wt=$1; sd=$2; shift; shift
log=$sd/confirm.log
: > $log
cd $wt || exit 2
git checkout -q -- . && git clean -fdq -e target
git apply $sd/patch.diff || { echo "patch does not apply" >> $log; exit 1; }
cargo test --workspace --no-fail-fast --offline -j 8 > $sd/confirm_suite.log 2>&1
echo "suite_with_patch rc=$? passed=$(grep -c '^test .* ok$' $sd/confirm_suite.log) failed=$(grep -c '^test .* FAILED$' $sd/confirm_suite.log)" >> $log
git apply $sd/demo.diff || echo "demo does not apply on top of patch" >> $log
"$@" > $sd/confirm_demo_with.log 2>&1
echo "demo_with_patch rc=$?" >> $log
git checkout -q -- . && git clean -fdq -e target
git apply $sd/demo.diff
"$@" > $sd/confirm_demo_without.log 2>&1
echo "demo_without_patch rc=$?" >> $log
git checkout -q -- . && git clean -fdq -e target
cat $log
