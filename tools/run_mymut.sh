#!/bin/sh
# usage: tools/run_mymut.sh <dir with NAME.diff> "NAME IDS" ...   - applies each patch to /repo, runs the quick checks, restores
cd /verif
d=$1; shift
for spec in "$@"; do
  set -- $spec
  name=$1; shift
  printf "%s -> " "$name"; tools/try_seed.sh $d/$name.diff quick "$@" 2>&1 | cut -c1-260 | tr '\n' ' '; echo
done
