#!/bin/sh
# usage: tools/try_seed.sh <ABSOLUTE path of patch.diff> <tier> <ID> [<ID> ...]
# applies the patch to /repo, runs the given checks, restores /repo. Prints one line per check.
patch=$1; tier=$2; shift; shift
cd /repo || exit 2
if [ -n "$(git status --porcelain)" ]; then echo "REPO NOT CLEAN"; git status --short; exit 2; fi
git apply "$patch" || { echo "PATCH DOES NOT APPLY"; exit 2; }
cd /verif
# evidence files must only ever come from runs on the unchanged tree: save them, restore them afterwards
rm -rf work/evidence_saved && mkdir -p work && cp -r evidence work/evidence_saved
for id in "$@"; do
  s=$(date +%s)
  ./check $id --tier $tier > work/seed_$id.log 2>&1
  rc=$?
  e=$(date +%s)
  echo "$id rc=$rc $((e-s))s violations=$(grep -c '^VIOLATION' work/seed_$id.log) $(grep -m1 -A1 '^VIOLATION' work/seed_$id.log | tail -1 | cut -c1-220) $(grep '^TOOL-ERROR' work/seed_$id.log | cut -c1-200)"
done
cp work/evidence_saved/*.json evidence/ && rm -rf work/evidence_saved
cd /repo && git checkout -- . && git clean -fdq crates && git status --short
