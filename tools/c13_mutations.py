#!/usr/bin/env python3
"""Mutation experiment for C13 (not part of the check).

Builds a PRIVATE copy of /repo/crates/udp_protocol under /verif/work/mut13 (so /repo is never
edited), applies one named mutation to the copy, compiles harness/src/bin/udp_codec.rs against it
and runs lib/c13.py (quick tier) with that binary.  usage: tools/c13_mutations.py [name ...]
('none' = unmutated control).  Replay files of the experiment are deleted again.
"""

import shutil, os, re
ROOT='/verif/work/mut13'
def fresh_copy():
    shutil.rmtree(ROOT+'/udp_protocol', ignore_errors=True)
    shutil.copytree('/repo/crates/udp_protocol', ROOT+'/udp_protocol')
    open(ROOT+'/udp_protocol/Cargo.toml','w').write('''[package]
name = "aquatic_udp_protocol"
version = "0.9.0"
edition = "2021"

[dependencies]
aquatic_peer_id = { path = "/repo/crates/peer_id" }
byteorder = "1"
either = "1"
zerocopy = { version = "0.8", features = ["derive"] }
''')
def harness_src():
    s=open('/verif/harness/src/bin/udp_codec.rs').read()
    lib=open('/verif/harness/src/lib.rs').read()
    tr=open('/verif/harness/src/trace.rs').read()
    # helper functions only (no dump_json / ids, which need aquatic_common)
    helpers=lib[lib.index('/// Read behaviours'):lib.index('/// JSON projection of a state dump')]
    shim='mod vharness {\n    use serde_json::Value;\n    use std::io::BufRead;\n    pub mod trace {\n'+tr+'\n    }\n'+helpers+'\n}\n'
    s=s.replace('use vharness::trace::Tracer;\nuse vharness::*;','use vharness::trace::Tracer;\nuse vharness::*;\n'+shim)
    open(ROOT+'/h/src/main.rs','w').write(s)

def scratch_crate():
    os.makedirs(ROOT+'/h/src', exist_ok=True); os.makedirs(ROOT+'/h/.cargo', exist_ok=True)
    open(ROOT+'/h/Cargo.toml','w').write('''[package]
name = "mutharness"
version = "0.1.0"
edition = "2021"
publish = false

[workspace]

[[bin]]
name = "udp_codec"
path = "src/main.rs"

[dependencies]
aquatic_udp_protocol = { path = "../udp_protocol" }
serde = { version = "1", features = ["derive"] }
serde_json = "1"

[profile.dev]
opt-level = 1
debug = 1
overflow-checks = true
debug-assertions = true
''')
    open(ROOT+'/h/.cargo/config.toml','w').write('[net]\noffline = true\n\n[build]\ntarget-dir = "target"\n')
    shutil.copy('/verif/harness/Cargo.lock', ROOT+'/h/Cargo.lock')
    harness_src()

import subprocess, sys, re
REQ='/verif/work/mut13/udp_protocol/src/request.rs'
RSP='/verif/work/mut13/udp_protocol/src/response.rs'
def sub(path, old, new, count=1):
    s=open(path).read()
    assert old in s, (path, old)
    s=s.replace(old,new,count)
    open(path,'w').write(s)
M={
 'swap_left_uploaded_struct': lambda: sub(REQ,'''    pub bytes_left: NumberOfBytes,
    pub bytes_uploaded: NumberOfBytes,
    pub event''','''    pub bytes_uploaded: NumberOfBytes,
    pub bytes_left: NumberOfBytes,
    pub event'''),
 'swap_leechers_seeders_resp': lambda: sub(RSP,'''    pub leechers: NumberOfPeers,
    pub seeders: NumberOfPeers,
}''','''    pub seeders: NumberOfPeers,
    pub leechers: NumberOfPeers,
}'''),
 'accept_event_4': lambda: sub(REQ,'''    None = 0_i32.to_be(),
}''','''    None = 0_i32.to_be(),
    Paused = 4_i32.to_be(),
}'''),
 'scrape_payload_plus_1': lambda: sub(REQ,'''                let info_hashes = <[InfoHash]>::ref_from_bytes(remaining_bytes)''','''                let remaining_bytes = &remaining_bytes[..remaining_bytes.len() - (remaining_bytes.len() % 20 == 1) as usize];
                let info_hashes = <[InfoHash]>::ref_from_bytes(remaining_bytes)'''),
 'cut_max_plus_1': lambda: sub(REQ,'(max_scrape_torrents as usize).min(','(max_scrape_torrents as usize + 1).min('),
 'little_endian_events': lambda: (sub(REQ,'Started = 2_i32.to_be()','Started = 2_i32'),sub(REQ,'Stopped = 3_i32.to_be()','Stopped = 3_i32'),sub(REQ,'Completed = 1_i32.to_be()','Completed = 1_i32')),
 'accept_port_0': lambda: sub(REQ,'if request.port.0.get() == 0 {','if false {'),
 'swap_connect_resp_fields': lambda: sub(RSP,'''    pub transaction_id: TransactionId,
    pub connection_id: ConnectionId,
}''','''    pub connection_id: ConnectionId,
    pub transaction_id: TransactionId,
}'''),
 'swap_scrape_stats': lambda: sub(RSP,'''    pub seeders: NumberOfPeers,
    pub completed: NumberOfDownloads,
    pub leechers''','''    pub completed: NumberOfDownloads,
    pub seeders: NumberOfPeers,
    pub leechers'''),
 'accept_any_protocol_id': lambda: sub(REQ,'if protocol_identifier.get() == PROTOCOL_IDENTIFIER {','if true {'),
 'reject_extension_bytes': lambda: sub(REQ,'''let (request, _rest) = AnnounceRequest::try_read_from_prefix(bytes)''','''let request = AnnounceRequest::try_read_from_bytes(bytes)'''),
 'scrape_req_action_le': lambda: sub(REQ,'bytes.write_i32::<NetworkEndian>(2)?;','bytes.write_all(&2i32.to_le_bytes())?;'),
 'cut_off_by_one_low': lambda: sub(REQ,'(max_scrape_torrents as usize).min(info_hashes.len())','(max_scrape_torrents as usize).min(info_hashes.len()).max(1)'),
 'error_resp_action': lambda: sub(RSP,'bytes.write_i32::<NetworkEndian>(3)?;','bytes.write_i32::<NetworkEndian>(4)?;'),
 'stopped_event_only': lambda: (sub(REQ,'Started = 2_i32.to_be()','Started = 3_i32.to_be()'),sub(REQ,'Stopped = 3_i32.to_be()','Stopped = 2_i32.to_be()')),
}
import os
names = sys.argv[1:] or list(M)
scratch_crate()
DRV = r'''
import sys, os
sys.path.insert(0, "/verif/lib")
import vlib, c13
vlib._built = True                     # the binary under test is the privately built one
_h = vlib.hbin
vlib.hbin = lambda n: "/verif/work/mut13/h/target/debug/udp_codec" if n == "udp_codec" else _h(n)
ctx = vlib.Ctx("C13", "quick", 1)
vlib.EVIDENCE = "/verif/work/mut13/evidence"; os.makedirs(vlib.EVIDENCE, exist_ok=True)
try:
    c13.run(ctx)
except vlib.ToolError as e:
    print("TOOL-ERROR", e); sys.exit(2)
sys.exit(1 if ctx.violations else 0)
'''
for n in names:
    fresh_copy()
    if n != 'none':
        M[n]()
    b=subprocess.run(['cargo','build','--offline'],cwd='/verif/work/mut13/h',stdout=subprocess.PIPE,stderr=subprocess.STDOUT,text=True)
    if b.returncode!=0:
        print('MUTATION %-28s does not compile' % n); print(b.stdout[-1500:]); continue
    p=subprocess.run([sys.executable,'-c',DRV],cwd='/verif',stdout=subprocess.PIPE,stderr=subprocess.STDOUT,text=True)
    v=[l for l in p.stdout.splitlines() if l.startswith('VIOLATION') or l.startswith('TOOL-ERROR')]
    w=[l.strip()[:330] for l in p.stdout.splitlines() if 'trace rejected' in l]
    print('MUTATION %-28s exit=%d  %s' % (n, p.returncode, 'CAUGHT' if p.returncode==1 else ('CONTROL-OK' if n=='none' else 'MISSED') if p.returncode==0 else 'TOOLERR'), flush=True)
    print('   ', len([x for x in v if x.startswith('VIOLATION')]), 'violations;', (w[0] if w else (v[0][:300] if v else '')), flush=True)
    if p.returncode==2: print(p.stdout[-1500:])
    for l in v:
        if l.startswith('VIOLATION'):
            rp=l.split('replay=')[1].strip()
            if os.path.exists(rp): os.remove(rp)     # scratch experiment: leave no replay files behind
fresh_copy()
