"""Extension beyond the listed properties: start-up with `privileges.drop_privileges` (spec/PrivDrop.tla).

TLC computes, for each configuration (workers, sockets per worker, drop on/off), what an observer sees once
nothing moves any more - all workers serving or not, privileges dropped or not - and real tracker processes
(started as root) are compared with it: uid of the process after start-up, a request answered on every
enabled address family.  Informational: the outcome is recorded in the evidence of C19 and in DESIGN.md, it
is never a verdict on a listed property."""
import os
import pwd
import socket
import time

from vlib import *
from net import *
from udp_e2e import udp_config
from http_e2e import http_config, HttpConn, request_bytes, announce_path


_cache = {}


def model_terminal(ctx, workers, sockets, drop):
    key = (workers, sockets, drop)
    if key not in _cache:
        _cache[key] = _model_terminal(ctx, workers, sockets, drop)
    return _cache[key]


def _model_terminal(ctx, workers, sockets, drop):
    cfg = "PrivDrop_T_%d_%d_%s.cfg" % (workers, sockets, "drop" if drop else "keep")
    with open(os.path.join(SPEC, cfg), "w") as f:
        f.write("SPECIFICATION Spec\nCONSTANTS\n  Workers = {%s}\n  SocketsPerWorker = %d\n  Drop = %s\n"
                "INVARIANTS EmitTerminal DropOnlyAfterAllBound ServeOnlyAfterDrop\nCHECK_DEADLOCK FALSE\n"
                % (", ".join(str(i + 1) for i in range(workers)), sockets, "TRUE" if drop else "FALSE"))
    try:
        res = run_tlc(ctx, "PrivDrop", cfg, workers=1, timeout=300)
    finally:
        os.unlink(os.path.join(SPEC, cfg))
    require_mc_ok(ctx, res, "PrivDrop terminal states")
    terms = set()
    for x in printed_tuples(res["out"], "TERMINAL"):
        up, dropped, nbound = [p.strip() for p in x.split(",")]
        terms.add((up == "TRUE", dropped == "TRUE"))
    if not terms:
        raise ToolError("PrivDrop: no terminal state printed")
    return sorted(terms)


def observe(ctx, kind, cfg, name, probes):
    t = Tracker(ctx, kind, cfg, name)
    try:
        deadline = time.monotonic() + 4.0
        answered = {}
        while time.monotonic() < deadline and t.alive():
            for fam, probe in probes.items():
                if not answered.get(fam):
                    answered[fam] = probe()
            if all(answered.get(f) for f in probes):
                break
            time.sleep(0.2)
        uid = None
        t_uid = time.monotonic() + 2.5          # the drop follows the last worker's socket: give it a moment
        while t.alive():
            for line in open("/proc/%d/status" % t.proc.pid):
                if line.startswith("Uid:"):
                    uid = int(line.split()[2])      # effective uid
            if uid != 0 or time.monotonic() > t_uid:
                break
            time.sleep(0.1)
        return {"alive": t.alive(), "euid": uid, "answered": answered,
                "serving": t.alive() and all(answered.get(f) for f in probes), "stderr": t.stderr()[-200:]}
    finally:
        t.stop()


def udp_probe(ip, port):
    def f():
        s = socket.socket(socket.AF_INET6 if ":" in ip else socket.AF_INET, socket.SOCK_DGRAM)
        s.settimeout(0.3)
        try:
            s.sendto(connect_req(7), (ip, port))
            s.recvfrom(100)
            return True
        except OSError:
            return False
        finally:
            s.close()
    return f


def http_probe(ip, port):
    def f():
        try:
            c = HttpConn("::1" if ":" in ip else "127.0.0.2", (ip, port))
        except OSError:
            return False
        try:
            c.send_split(request_bytes(announce_path(1, 5000)), [])
            return c.read_reply(timeout=1.0).get("outcome") == "reply"
        except OSError:
            return False
        finally:
            c.close()
    return f


def startup_extension(ctx, quick):
    if os.geteuid() != 0:
        return {"skipped": "not running as root"}
    try:
        pwd.getpwnam("nobody")
    except KeyError:
        return {"skipped": "no user 'nobody'"}
    for c in ("PrivDrop_MC_One.cfg", "PrivDrop_MC_NoDrop.cfg"):
        require_mc_ok(ctx, run_tlc(ctx, "PrivDrop", c, workers=2, timeout=300), c)
    both = run_tlc(ctx, "PrivDrop", "PrivDrop_MC_Both.cfg", workers=2, timeout=300)
    model_deadlock = (not both["ok"]) and both.get("error") == "deadlock"
    chroot = ctx.path("chroot")
    os.makedirs(chroot, exist_ok=True)
    os.chmod(chroot, 0o755)
    priv = {"drop_privileges": True, "chroot_path": chroot, "user": "nobody", "group": "nogroup"}
    trials = [("udp", "mio", "v4", 2), ("udp", "mio", "both", 2), ("http", None, "both", 1)]
    if not quick:
        trials += [("udp", "mio", "v6", 1), ("udp", "mio", "both", 1), ("udp", "uring", "v4", 2),
                   ("udp", "uring", "both", 1), ("http", None, "v4", 2), ("http", None, "v6", 1), ("ws", None, "v4", 2)]
    rows = []
    for i, (tracker, backend, fams, workers) in enumerate(trials):
        nsock = 2 if fams == "both" else 1
        expected = model_terminal(ctx, workers, nsock, True)
        if tracker == "udp":
            port = free_port()
            cfg = udp_config(port, backend, mode="off", sockets=fams, workers=workers)
            probes = {}
            if fams in ("both", "v4"):
                probes["v4"] = udp_probe("127.0.0.1", port)
            if fams in ("both", "v6"):
                probes["v6"] = udp_probe("::1", port)
        elif tracker == "http":
            port = free_port(socket.SOCK_STREAM)
            cfg = http_config(port, socket_workers=workers)
            cfg["network"]["use_ipv4"] = fams in ("both", "v4")
            cfg["network"]["use_ipv6"] = fams in ("both", "v6")
            probes = {}
            if fams in ("both", "v4"):
                probes["v4"] = http_probe("127.0.0.1", port)
            if fams in ("both", "v6"):
                probes["v6"] = http_probe("::1", port)
        else:
            port = free_port(socket.SOCK_STREAM)
            cfg = {"socket_workers": workers, "swarm_workers": 1,
                   "network": {"address": "127.0.0.1:%d" % port, "enable_http_health_checks": False}}

            def ws_probe(port=port):
                try:
                    s = socket.create_connection(("127.0.0.1", port), timeout=0.5)
                    s.close()
                    return True
                except OSError:
                    return False
            probes = {"v4": ws_probe}
        cfg["privileges"] = priv
        obs = observe(ctx, tracker, cfg, "privdrop_%d" % i, probes)
        seen = (bool(obs["serving"]), obs["euid"] not in (None, 0))
        rows.append({"tracker": tracker, "backend": backend, "families": fams, "socket_workers": workers,
                     "model_terminal_states(up,dropped)": expected, "observed(up,dropped)": list(seen),
                     "conforms": tuple(seen) in [tuple(e) for e in expected],
                     "hangs_at_startup": not seen[0] and obs["alive"]})
    return {"model_deadlock_with_two_sockets_per_worker": model_deadlock, "trials": rows,
            "all_conform": all(r["conforms"] for r in rows),
            "finding": "with privileges.drop_privileges = true and two sockets per worker (UDP / HTTP tracker with "
                       "use_ipv4 and use_ipv6, the default) every socket worker blocks in the start-up barrier after "
                       "its first socket: the tracker never serves and keeps its privileges"
                       if any(r["hangs_at_startup"] for r in rows) else None}
