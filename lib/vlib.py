"""Common machinery for the /verif checks: TLC runner, trace validation,
harness build, evidence writer, known-findings matcher.

Only the Python standard library is used.
"""
import json
import os
import re
import shutil
import subprocess
import sys
import time

VERIF = os.path.dirname(os.path.dirname(os.path.abspath(__file__)))
SPEC = os.path.join(VERIF, "spec")
HARNESS = os.path.join(VERIF, "harness")
WORK = os.path.join(VERIF, "work")
EVIDENCE = os.path.join(VERIF, "evidence")
REPLAYS = os.path.join(VERIF, "replays")
TLA_JAR = "/opt/veriftools/tla/tla2tools.jar"
COMMUNITY = "/opt/veriftools/tla/CommunityModules-deps.jar"


class ToolError(Exception):
    """Something went wrong with the machinery itself (exit 2, never a violation)."""


def log(*a):
    print(*a, flush=True)


# ---------------------------------------------------------------------------
# context

class Ctx:
    def __init__(self, prop, tier, seed):
        self.prop = prop
        self.tier = tier
        self.seed = seed
        self.t0 = time.time()
        self.work = os.path.join(WORK, prop)
        shutil.rmtree(self.work, ignore_errors=True)
        os.makedirs(self.work, exist_ok=True)
        os.makedirs(EVIDENCE, exist_ok=True)
        self.coverage = {}
        self.assumptions = []
        self.violations = []      # list of dicts {what, replay}
        self.known_hits = []      # known findings re-observed
        self.stages = []
        self.level = "model_checking"
        self.samples = []
        self.states = 0
        self.transitions = 0
        self.traces_validated = 0
        self.model_drift = None

    def quick(self):
        return self.tier == "quick"

    def path(self, name):
        return os.path.join(self.work, name)

    def stage(self, name, **kw):
        kw["stage"] = name
        kw["t"] = round(time.time() - self.t0, 1)
        self.stages.append(kw)
        log("[%s] %s %s" % (self.prop, name, json.dumps({k: v for k, v in kw.items() if k not in ("stage",)})))

    def add_mc(self, res):
        self.states += res["distinct"]
        self.transitions += res["generated"]

    def add_sample(self, s, cap=4):
        if len(self.samples) < cap:
            self.samples.append(s)


# ---------------------------------------------------------------------------
# harness build

_built = False


def cargo_build(ctx=None):
    """Build the harness from /repo's current working tree (path deps)."""
    global _built
    if _built:
        return
    t = time.time()
    env = dict(os.environ)
    env["CARGO_NET_OFFLINE"] = "true"
    p = subprocess.run(["cargo", "build", "--offline"], cwd=HARNESS, env=env,
                       stdout=subprocess.PIPE, stderr=subprocess.STDOUT, text=True)
    if p.returncode != 0:
        tail = "\n".join(p.stdout.splitlines()[-60:])
        raise ToolError("cargo build of the harness failed:\n" + tail)
    _built = True
    if ctx:
        ctx.stage("build", wall_s=round(time.time() - t, 1))


def hbin(name):
    return os.path.join(HARNESS, "target", "debug", name)


def run_harness(ctx, name, args, timeout=600, env=None, check=True):
    cargo_build(ctx)
    e = dict(os.environ)
    e["VERIF_SEED"] = str(ctx.seed)
    e["RUST_BACKTRACE"] = "0"
    if env:
        e.update(env)
    try:
        p = subprocess.run([hbin(name)] + args, env=e, stdout=subprocess.PIPE,
                           stderr=subprocess.PIPE, text=True, timeout=timeout)
    except subprocess.TimeoutExpired:
        raise ToolError("harness %s timed out after %ds" % (name, timeout))
    if check and p.returncode != 0:
        raise ToolError("harness %s exited %d: %s" % (name, p.returncode, p.stderr[-2000:]))
    return p


# ---------------------------------------------------------------------------
# TLC

_num = r"([0-9,]+)"


def _int(s):
    return int(s.replace(",", ""))


def run_tlc(ctx, module, cfg, workers=8, timeout=600, java_opts=None, env=None,
            extra=None, name=None, coverage=False, heap="6g"):
    """Run TLC on spec/<module>.tla with spec/<cfg>.  Returns a dict with
    ok / generated / distinct / depth / error / out."""
    name = name or cfg.replace(".cfg", "")
    meta = ctx.path("tlc_" + name)
    shutil.rmtree(meta, ignore_errors=True)
    cmd = ["java", "-XX:+UseParallelGC", "-Xmx" + heap]
    if java_opts:
        cmd += java_opts
    cmd += ["-cp", TLA_JAR + ":" + COMMUNITY, "tlc2.TLC",
            "-workers", str(workers), "-metadir", meta, "-cleanup", "-noGenerateSpecTE",
            "-config", cfg]
    if coverage:
        cmd += ["-coverage", "1"]
    if extra:
        cmd += extra
    cmd += [module + ".tla"]
    e = dict(os.environ)
    if env:
        e.update(env)
    t = time.time()
    try:
        p = subprocess.run(cmd, cwd=SPEC, env=e, stdout=subprocess.PIPE,
                           stderr=subprocess.STDOUT, text=True, timeout=timeout)
    except subprocess.TimeoutExpired:
        shutil.rmtree(meta, ignore_errors=True)
        raise ToolError("TLC %s/%s timed out after %ds" % (module, cfg, timeout))
    out = p.stdout
    shutil.rmtree(meta, ignore_errors=True)
    res = {"module": module, "cfg": cfg, "rc": p.returncode, "out": out,
           "wall_s": round(time.time() - t, 1), "generated": 0, "distinct": 0, "depth": 0}
    m = re.search(_num + r" states generated, " + _num + r" distinct states found", out)
    if m:
        res["generated"] = _int(m.group(1))
        res["distinct"] = _int(m.group(2))
    m = re.search(r"depth of the complete state graph search is " + _num, out)
    if m:
        res["depth"] = _int(m.group(1))
    res["ok"] = ("Model checking completed. No error has been found." in out) or \
                ("Finished in" in out and "Error:" not in out and p.returncode == 0)
    err = None
    m = re.search(r"Error: Invariant (\S+) is violated", out)
    if m:
        err = "invariant " + m.group(1)
    m = re.search(r"Error: Action property (\S+) is violated", out) or \
        re.search(r"Error: Action property .* of module .* is violated", out)
    if m and not err:
        err = "action property " + (m.group(1) if m.groups() else "")
    if "Error: Deadlock reached" in out:
        err = "deadlock"
    if "Temporal properties were violated" in out:
        err = "temporal property"
    if not res["ok"] and not err:
        m = re.search(r"Error: (.*)", out)
        err = "tlc error: " + (m.group(1) if m else "rc=%d" % p.returncode)
    res["error"] = err
    return res


def tlc_is_spec_violation(res):
    e = res.get("error") or ""
    return e.startswith("invariant") or e.startswith("action property") or e == "deadlock" \
        or e == "temporal property"


def require_mc_ok(ctx, res, what):
    """A model-checking run on the *design* must pass; anything else is a tool error
    (a wrong model is never reported as a violation of the code)."""
    if not res["ok"]:
        tail = "\n".join(res["out"].splitlines()[-60:])
        raise ToolError("%s: TLC did not pass (%s)\n%s" % (what, res.get("error"), tail))
    ctx.add_mc(res)
    ctx.stage("mc:" + what, distinct=res["distinct"], generated=res["generated"],
              depth=res["depth"], wall_s=res["wall_s"])


def load_factor():
    """>= 1.0; grows with the machine's 1-minute load average relative to its cores.  Drivers multiply the
    periods they grant a running tracker for timer-driven work (cleaning, reload) by it, so that an
    overloaded machine does not turn a late timer into a wrong observation."""
    try:
        return max(1.0, min(4.0, os.getloadavg()[0] / max(1, os.cpu_count() or 1)))
    except OSError:
        return 1.0


def coverage_zero_actions(out, module):
    """Names of top-level actions of `module` with zero count in -coverage output."""
    zero = []
    for m in re.finditer(r"<(\w+) line \d+, col \d+ to line \d+, col \d+ of module (\w+)>: (\d+):(\d+)", out):
        if m.group(2) == module and int(m.group(4)) == 0:
            zero.append(m.group(1))
    return sorted(set(zero))


def printed_tuples(out, tag):
    """Lines printed by PrintT(<<tag, ...>>): returns the raw strings after the tag."""
    res = []
    pat = re.compile(r'^<<"' + re.escape(tag) + r'", (.*)>>$')
    for line in out.splitlines():
        m = pat.match(line.strip())
        if m:
            res.append(m.group(1))
    return res


def tla_unquote(s):
    """A TLA+ string literal as printed by TLC -> python str."""
    s = s.strip()
    assert s.startswith('"') and s.endswith('"'), s[:80]
    body = s[1:-1]
    return body.replace('\\"', '"').replace("\\\\", "\\")


# ---------------------------------------------------------------------------
# trace validation

TRACE_JAVA = ["-Xss1g", "-Dtlc2.tool.queue.IStateQueue=StateDeque"]


def validate_trace(ctx, module, cfg, trace_path, timeout=600, name=None, env=None):
    """Validate one ndjson trace file.  Returns dict(accepted, matched, total,
    event (first unmatched, parsed JSON or None), last_state)."""
    total = sum(1 for line in open(trace_path) if line.strip())
    if total == 0:
        return {"accepted": True, "matched": 0, "total": 0, "event": None, "last_state": None,
                "wall_s": 0.0}
    e = {"TRACE": os.path.abspath(trace_path)}
    if env:
        e.update(env)
    res = run_tlc(ctx, module, cfg, workers=1, timeout=timeout, java_opts=TRACE_JAVA,
                  env=e, name=name or ("val_" + os.path.basename(trace_path)), heap="4g")
    out = res["out"]
    rej = printed_tuples(out, "TRACE_REJECTED")
    if rej:
        m = re.match(r"(\d+), (.*)$", rej[0], re.S)
        idx = int(m.group(1))
        ev = None
        try:
            ev = json.loads(tla_unquote(m.group(2)))
        except Exception:
            ev = m.group(2)
        last = printed_tuples(out, "LAST_STATE")
        ls = None
        if last:
            try:
                ls = json.loads(tla_unquote(last[0]))
            except Exception:
                ls = last[0][:2000]
        return {"accepted": False, "matched": idx - 1, "total": total, "event": ev,
                "last_state": ls, "wall_s": res["wall_s"]}
    if res["ok"]:
        return {"accepted": True, "matched": total, "total": total, "event": None,
                "last_state": None, "wall_s": res["wall_s"]}
    # TLC could not even evaluate the specification on some event (a value of an unexpected shape, e.g. after
    # a panic in the code under test).  No behaviour of the specification explains that event: treat it as a
    # rejection at the deepest line reached, and say so.
    if "TLC threw an unexpected exception" in out or "evaluating the nested" in out:
        ls = [int(x) for x in re.findall(r"/\\ l = (\d+)", out)]
        if ls:
            idx = max(ls)
            lines = [x for x in open(trace_path) if x.strip()]
            ev = None
            if idx <= len(lines):
                try:
                    ev = json.loads(lines[idx - 1])
                except Exception:
                    ev = lines[idx - 1][:500]
            m = re.search(r"The exception was a [^\n]*\n: ([^\n]*)", out)
            return {"accepted": False, "matched": idx - 1, "total": total, "event": ev,
                    "last_state": {"tlc_exception": m.group(1)[:300] if m else "evaluation error"},
                    "wall_s": res["wall_s"]}
    tail = "\n".join(out.splitlines()[-60:])
    raise ToolError("trace validation %s/%s failed without a rejection line (%s):\n%s"
                    % (module, cfg, res.get("error"), tail))


def split_runs(trace_path):
    """Split an ndjson trace into runs at 'reset' events.  Returns list of lists of lines."""
    runs = []
    cur = None
    for line in open(trace_path):
        if not line.strip():
            continue
        if '"ev":"reset"' in line or '"ev": "reset"' in line or cur is None:
            cur = []
            runs.append(cur)
        cur.append(line if line.endswith("\n") else line + "\n")
    return runs


def validate_runs(ctx, module, cfg, trace_path, max_failures=6, timeout=600, label="val", env=None):
    """Validate a multi-run trace.  On rejection, records the failing run and continues
    with the runs after it.  Returns (n_runs_accepted, failures) where each failure is
    dict(run_index, lines, matched_in_run, event, last_state)."""
    runs = split_runs(trace_path)
    failures = []
    accepted = 0
    start = 0
    it = 0
    while start < len(runs):
        part = ctx.path("%s_part%d.ndjson" % (label, it))
        with open(part, "w") as f:
            for r in runs[start:]:
                f.writelines(r)
        res = validate_trace(ctx, module, cfg, part, timeout=timeout,
                             name="%s_%d" % (label, it), env=env)
        it += 1
        if res["accepted"]:
            accepted += len(runs) - start
            break
        # locate failing run
        n = res["matched"]
        idx = start
        while idx < len(runs) and n >= len(runs[idx]):
            n -= len(runs[idx])
            idx += 1
        accepted += idx - start
        failures.append({"run_index": idx, "lines": runs[idx] if idx < len(runs) else [],
                         "matched_in_run": n, "event": res["event"],
                         "last_state": res["last_state"]})
        start = idx + 1
        if len(failures) >= max_failures:
            break
    return accepted, failures, len(runs)


# ---------------------------------------------------------------------------
# known findings

def load_known():
    p = os.path.join(VERIF, "known_findings.json")
    if not os.path.exists(p):
        return {"findings": [], "fixed": []}
    return json.load(open(p))


def match_known(prop, signature):
    """signature: dict describing the violation.  A known finding matches if it is for the same
    property and every key of its 'match' dict equals the signature's value."""
    for f in load_known().get("findings", []):
        if f.get("property") != prop:
            continue
        m = f.get("match", {})
        if m and all(signature.get(k) == v for k, v in m.items()):
            return f
    return None


# ---------------------------------------------------------------------------
# violations, evidence, exit

def report_violation(ctx, what, replay_obj, signature=None):
    """Record a violation (or a known finding).  Writes a replay file."""
    signature = signature or {}
    kf = match_known(ctx.prop, signature)
    if kf:
        if kf["id"] not in [k["id"] for k in ctx.known_hits]:
            ctx.known_hits.append(kf)
            log("KNOWN-FINDING: property=%s %s" % (ctx.prop, kf["what"]))
        return False
    os.makedirs(REPLAYS, exist_ok=True)
    path = os.path.join(REPLAYS, "%s_%d_%d.json" % (ctx.prop, int(time.time()), len(ctx.violations)))
    with open(path, "w") as f:
        json.dump({"property": ctx.prop, "what": what, "signature": signature,
                   "seed": ctx.seed, "tier": ctx.tier, "replay": replay_obj}, f, indent=1)
    ctx.violations.append({"what": what, "replay": path})
    log("VIOLATION property=%s replay=%s" % (ctx.prop, path))
    log("  " + what)
    return True


def write_evidence(ctx, extra_cov=None):
    cov = dict(ctx.coverage)
    cov.setdefault("states", ctx.states)
    cov.setdefault("transitions", ctx.transitions)
    cov.setdefault("traces_validated_against_impl", ctx.traces_validated)
    cov["samples"] = ctx.samples if ctx.samples else ["(no sample recorded)"]
    cov["stages"] = ctx.stages
    if ctx.model_drift:
        cov["model_drift"] = ctx.model_drift
    if ctx.known_hits:
        cov["known_findings_reobserved"] = [k["id"] for k in ctx.known_hits]
    if extra_cov:
        cov.update(extra_cov)
    ev = {"property_id": ctx.prop, "tier": ctx.tier, "seed": ctx.seed, "level": ctx.level,
          "coverage": cov, "assumptions": ctx.assumptions,
          "wall_s": round(time.time() - ctx.t0, 1), "violations": len(ctx.violations)}
    with open(os.path.join(EVIDENCE, ctx.prop + ".json"), "w") as f:
        json.dump(ev, f, indent=1, default=str)


def first_lines(lines, n=12):
    return [json.loads(x) for x in lines[:n]]


def generic_replay(ctx, path):
    """./check <ID> --replay <file>: re-validates the recorded events of a replay file with TLC against the
    trace specification that rejected them (exit 1 + VIOLATION line if they are still rejected).  Replay files
    of storage-level checks also carry the behaviour (operation list) that was executed; when the file names
    the executor, the behaviour is re-executed on the current tree first."""
    rep = json.load(open(path))
    r = rep.get("replay", {})
    module, cfg = r.get("module"), r.get("cfg")
    if not module or "events" not in r:
        raise ToolError("replay file has no recorded trace to re-validate")
    tp = ctx.path("replay.ndjson")
    events = r["events"]
    exe = r.get("exe")
    if exe and r.get("behaviour"):
        bpath = ctx.path("replay_beh.jsonl")
        with open(bpath, "w") as f:
            f.write(json.dumps(r["behaviour"]) + "\n")
        run_harness(ctx, exe, [bpath, tp])
    else:
        with open(tp, "w") as f:
            for e in events:
                f.write(json.dumps(e, separators=(",", ":")) + "\n")
    res = validate_trace(ctx, module, cfg, tp, name="replay", env=r.get("env"))
    ctx.stage("replay", module=module, accepted=res["accepted"], matched=res["matched"], total=res["total"])
    ctx.coverage["rule"] = "re-validation of one replay file"
    ctx.samples = [events[-1]] if events else ["(empty)"]
    ctx.states = ctx.transitions = max(1, res["matched"])
    if not res["accepted"]:
        report_violation(ctx, "replayed trace is still rejected by %s at event %d: %s" %
                         (module, res["matched"] + 1, json.dumps(res["event"])[:300]),
                         r, rep.get("signature"))
    else:
        ctx.traces_validated += 1
