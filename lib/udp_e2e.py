"""Black-box driver for a running UDP tracker (C06, C03, C11 end to end)."""
import random
import struct
import time

from vlib import *
from net import *

V4_CLIENTS = ["127.0.0.2", "127.0.0.3", "127.0.0.4"]


def udp_config(port, backend, mode="deny", alist=None, max_age=3600, sockets="both", max_scrape=3,
               max_resp=5, workers=1):
    cfg = {
        "socket_workers": workers,
        "network": {
            "use_ipv4": sockets in ("both", "v4"),
            "use_ipv6": sockets in ("both", "v6", "dual"),
            "address_ipv4": "127.0.0.1:%d" % port,
            "address_ipv6": ("[::]:%d" % port) if sockets == "dual" else ("[::1]:%d" % port),
            "set_only_ipv6": sockets != "dual",
            "poll_timeout_ms": 1,
            "use_io_uring": backend == "uring",
        },
        "protocol": {"max_scrape_torrents": max_scrape, "max_response_peers": max_resp},
        "cleaning": {"torrent_cleaning_interval": 3600, "max_connection_age": max_age, "max_peer_age": 3600},
        "access_list": {"mode": mode, "path": alist or "/nonexistent"},
    }
    return cfg


class Driver:
    """Sends datagrams of known class and logs send / recv / quiet events."""

    def __init__(self, ctx, tracker_v4, tracker_v6, trace, rnd, dual=False):
        self.ctx = ctx
        self.srv4 = tracker_v4       # (ip, port) IPv4 clients talk to
        self.srv6 = tracker_v6
        self.trace = trace           # list of event dicts
        self.rnd = rnd
        self.dual = dual
        self.socks = {}              # name -> UdpClient
        self.idle = []               # sockets awaiting a quiet period
        self.txid = 1000
        self.nsock = 0

    def client(self, ip, name=None):
        srv = self.srv6 if ":" in ip else self.srv4
        c = UdpClient(ip, srv)
        self.nsock += 1
        name = name or "s%d" % self.nsock
        self.socks[name] = c
        return name

    def src_of(self, name):
        c = self.socks[name]
        if c.fam == 6:
            return {"class": "v6", "host": c.ip}
        return {"class": "v4mapped" if self.dual else "v4", "host": c.ip}

    def next_txid(self):
        self.txid += 1
        return self.txid

    def send(self, name, data, meta, expect_reply, wait=2.0):
        """meta: class, conn, h, port, ... ; returns decoded reply or None."""
        c = self.socks[name]
        ev = {"ev": "send", "sock": name, "src": self.src_of(name), "sport0": False, "len": len(data)}
        ev.update(meta)
        for k, d in (("h", 0), ("port", 0), ("hs", []), ("event", "none"), ("left", 1), ("numwant", -1)):
            ev.setdefault(k, d)
        self.trace.append(ev)
        c.send(data)
        if not expect_reply:
            self.idle.append(name)
            return None
        r = c.recv(wait)
        if r is None:
            self.idle.append(name)
            return None
        return self.log_recv(name, r[0])

    def log_recv(self, name, data):
        c = self.socks[name]
        d = decode_reply(data, c.fam)
        ev = {"ev": "recv", "sock": name}
        ev.update(d)
        ev.pop("message", None)
        ev.pop("conn_id", None)
        ev.setdefault("ragged", False)
        self.trace.append(ev)
        return d

    def quiet(self, seconds):
        """Wait; anything that arrives on an idle socket is logged as recv; then a quiet event."""
        t_end = time.monotonic() + seconds
        names = list(self.idle)
        while True:
            left = t_end - time.monotonic()
            if left <= 0:
                break
            socks = {self.socks[n].sock: n for n in names if self.socks[n] is not None}
            r, _, _ = select.select(list(socks.keys()), [], [], left)
            for s in r:
                try:
                    data, _ = s.recvfrom(65536)
                except OSError:
                    continue
                self.log_recv(socks[s], data)
        self.trace.append({"ev": "quiet", "socks": names})
        self.idle = []

    def send_port0(self, src_ip, data, meta):
        self.nsock += 1
        name = "raw%d" % self.nsock
        ev = {"ev": "send", "sock": name, "src": {"class": "v4", "host": src_ip}, "sport0": True, "len": len(data)}
        ev.update(meta)
        for k, d in (("h", 0), ("port", 0), ("hs", []), ("event", "none"), ("left", 1), ("numwant", -1)):
            ev.setdefault(k, d)
        self.trace.append(ev)
        send_raw_udp_port0(src_ip, self.srv4[0], self.srv4[1], data)
        # nothing can come back to port 0; the socket name stays pending until the next quiet
        self.socks[name] = None
        self.raw_pending = getattr(self, "raw_pending", []) + [name]

    def close(self):
        for c in self.socks.values():
            if c is not None:
                c.close()


def build(drv, cls, conn_id, txid, h, port, rnd, numwant=-1, event="started", left=1, hs=None, ipfield=0):
    """Concrete datagram of a structural class."""
    ih = info_hash(h)
    pid = peer_id(1)
    if cls == "connect_ok":
        return connect_req(txid) + (b"" if rnd.random() < 0.7 else bytes(rnd.randrange(256) for _ in range(rnd.randrange(1, 30))))
    if cls == "connect_badmagic":
        return connect_req(txid, magic=PROTOCOL_ID ^ (1 << rnd.randrange(63)))
    if cls == "connect_short":
        return connect_req(txid)[:rnd.randrange(12, 16)]
    if cls == "short12":
        return bytes(rnd.randrange(256) for _ in range(rnd.randrange(0, 12)))
    if cls == "badaction":
        return struct.pack(">qii", conn_id, rnd.choice((3, 4, 7, -1, 256, 1 << 24)), txid) + bytes(rnd.randrange(256) for _ in range(rnd.randrange(0, 90)))
    ann = announce_req(conn_id, txid, ih, pid, 0 if left == 0 else 12345, event, port, numwant=numwant, ip=ipfield)
    if cls == "announce_ok":
        return ann
    if cls == "announce_ext":
        return ann + bytes(rnd.randrange(256) for _ in range(rnd.randrange(1, 40)))
    if cls == "announce_short":
        return ann[:rnd.randrange(16, 98)]
    if cls == "announce_badevent":
        return announce_req(conn_id, txid, ih, pid, 1, "none", port, event_raw=rnd.choice((4, 5, 255, -1, 1 << 16)))
    if cls == "announce_port0":
        return announce_req(conn_id, txid, ih, pid, 1, event, 0)
    if cls == "scrape_ok":
        return scrape_req(conn_id, txid, [info_hash(x) for x in hs])
    if cls == "scrape_empty":
        return scrape_req(conn_id, txid, [])
    if cls == "scrape_ragged":
        return scrape_req(conn_id, txid, [info_hash(x) for x in (hs or [1])]) + bytes(rnd.randrange(256) for _ in range(rnd.randrange(1, 20)))
    raise ToolError("unknown class " + cls)


def ready_or_record(trace, tracker, server, ip, reset_event):
    """Readiness probe.  A tracker process that is alive but does not answer connect requests from `ip`
    for 15 s is not a tool problem: the unanswered connect is recorded (send + quiet) so that the
    specification rejects it.  Returns True if the tracker answered."""
    try:
        udp_wait_ready(server, ip=ip, tracker=tracker)
        return True
    except ToolError as e:
        if "did not answer" in str(e) and tracker.alive():
            trace.append(reset_event)
            fam_class = "v6" if ":" in ip else "v4"
            trace.append({"ev": "send", "sock": "probe", "src": {"class": fam_class, "host": ip}, "sport0": False,
                          "len": 16, "class": "connect_ok", "conn": "none", "txid": 12345, "h": 0, "port": 0,
                          "hs": [], "event": "none", "left": 1, "numwant": -1,
                          "note": "readiness probe: no answer from a running tracker for 15 s"})
            trace.append({"ev": "quiet", "socks": ["probe"]})
            return False
        raise
