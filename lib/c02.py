"""C02 - Peer lists are sound, bounded and never contain the requester (UDP, HTTP, WebTorrent)."""
import os
import random

from vlib import *
from storage import *
import udp_storage as U
import http_storage as H
import ws_storage as W


def grid_udp_http(tracker, seed, maxlen, repeats, first_run):
    """For every (others, limit) of the grid: a torrent with `others`+1 peers built through public
    announces, then re-announces from every position (the requester is removed before selection)."""
    rnd = random.Random(seed)
    out = []
    run = first_run
    for others in range(0, maxlen + 1):
        for limit in range(0, maxlen + 1):
            fam = rnd.choice((4, 6))
            keys = ["k%d" % i for i in range(others + 1)]
            rnd.shuffle(keys)
            ops = []
            for i, k in enumerate(keys):
                ops.append(ann(tracker, fam, k, "started", rnd.choice((0, 1)), -1))
            # limit through config max with numwant absent / <= 0 / larger, or through numwant
            mode = rnd.choice(("cfg", "numwant"))
            if mode == "cfg" or limit == 0:
                cfgmax = limit
                wants = [-1, 0, limit + 3, I32_MAX if tracker == "udp" else 1000000]
                if tracker == "udp":
                    wants.append(I32_MIN)
            else:
                cfgmax = limit + rnd.choice((0, 1, 5))
                wants = [limit]
            for rep in range(repeats):
                for k in keys + ["k%d" % (others + 5)]:      # every position + a peer not stored
                    ops.append(ann(tracker, fam, k, rnd.choice(("none", "completed")),
                                   rnd.choice((0, 1)), rnd.choice(wants)))
            # a stopped announce also gets a (bounded) list
            ops.append(ann(tracker, fam, keys[0], "stopped", 1, rnd.choice(wants)))
            cfg = ({"max_resp": cfgmax, "mode": "off", "dumps": False} if tracker == "udp"
                   else {"max_peers": cfgmax, "max_scrape": 5, "mode": "off", "dumps": False})
            out.append({"run": run, "cfg": cfg, "ops": ops, "grid": [others, limit]})
            run += 1
    return out


def ann(tracker, fam, key, event, left, numwant):
    op = {"op": "announce", "fam": fam, "h": 1, "key": key, "event": event, "left": left,
          "numwant": numwant, "deadline": 9}
    if tracker == "udp":
        op["pid"] = 1
    elif numwant < -1:
        op["numwant"] = -1
    return op


def grid_ws(seed, maxlen, repeats, first_run):
    rnd = random.Random(seed)
    out = []
    run = first_run
    for others in range(0, maxlen + 1):
        for limit in range(0, min(maxlen, 8) + 1):
            fam = rnd.choice((4, 6))
            n = others + 1
            ops = []
            order = list(range(1, n + 1))
            rnd.shuffle(order)
            for p in order:     # peer p on its own connection (worker p % 3 + 1, slot p)
                ops.append(wann(p, fam, "started", []))
            if rnd.random() < 0.5 or limit == 0:
                max_offers, noffers = limit, limit + rnd.choice((0, 1, 3))
            else:
                max_offers, noffers = limit + rnd.choice((0, 2)), limit
            for rep in range(repeats):
                for p in order:
                    ops.append(wann(p, fam, "none", [rnd.randrange(1, 4) for _ in range(noffers)]))
            ops.append(wann(order[0], fam, "stopped", [1] * noffers))
            cfg = {"max_offers": max_offers, "max_scrape": 5, "max_peer_age": 50, "max_offer_age": 50,
                   "mode": "off", "dumps": False}
            out.append({"run": run, "cfg": cfg, "ops": ops, "grid": [others, limit]})
            run += 1
    return out


def wann(p, fam, event, offers):
    return {"op": "announce", "c": [p % 3 + 1, p], "fam": fam, "h": 1, "pid": p, "event": event,
            "left": 1, "offers": offers, "answer": [], "now": 0}


def mutate_self(evs):
    """Put the requester into its own peer list."""
    for i in range(len(evs) - 1, -1, -1):
        e = evs[i]
        if e.get("ev") == "announce" and "key" in e:
            r = e["reply"]
            field = "peers" if "peers" in r else ("peers4" if e["t"][0] == 4 else "peers6")
            if r[field]:
                m = json.loads(json.dumps(evs))
                m[i]["reply"][field][0] = e["key"]
                return m, "requester substituted into its own peer list at event %d" % i
    return None


def mutate_dup(evs):
    for i in range(len(evs) - 1, -1, -1):
        e = evs[i]
        if e.get("ev") == "announce" and "key" in e:
            r = e["reply"]
            field = "peers" if "peers" in r else ("peers4" if e["t"][0] == 4 else "peers6")
            if len(r[field]) >= 2:
                m = json.loads(json.dumps(evs))
                m[i]["reply"][field][1] = r[field][0]
                return m, "duplicate peer in list at event %d" % i
    return None


def distinct_lists(tp):
    s = set()
    n = 0
    for line in open(tp):
        e = json.loads(line)
        if e.get("ev") == "announce":
            n += 1
            if "reply" in e:
                r = e["reply"]
                s.add(json.dumps([e.get("key"), r.get("peers"), r.get("peers4"), r.get("peers6")]))
            else:
                s.add(json.dumps([e.get("pid"), [m.get("to") for m in e.get("out", []) if m["kind"] == "offer"]]))
    return n, len(s)


def run(ctx):
    cfgs = ["PeerSelect_MC.cfg"] if ctx.quick() else ["PeerSelect_MC_T.cfg"]
    for c in cfgs:
        res = run_tlc(ctx, "PeerSelect_MC", c, workers=8, timeout=1200)
        require_mc_ok(ctx, res, c)
    res = run_tlc(ctx, "PeerSelect_MC", "PeerSelect_MC_Neg.cfg", workers=4, timeout=300)
    if res["ok"] or not tlc_is_spec_violation(res):
        raise ToolError("negative control failed: off-by-one selection range not rejected by TLC")
    ctx.stage("negative-control", cfg="PeerSelect_MC_Neg.cfg", error=res["error"])
    # unbounded supplement: the slice arithmetic for ALL sizes, proved with TLAPS
    import subprocess, re, shutil
    shutil.rmtree(os.path.join(SPEC, ".tlacache", "PeerSelectLemmas.tlaps"), ignore_errors=True)
    try:
        p = subprocess.run(["tlapm", "--threads", "4", "PeerSelectLemmas.tla"], cwd=SPEC, stdout=subprocess.PIPE,
                           stderr=subprocess.STDOUT, text=True, timeout=600)
    except subprocess.TimeoutExpired:
        raise ToolError("tlapm timed out")
    m = re.search(r"All (\d+) obligations proved", p.stdout)
    if not m:
        raise ToolError("TLAPS did not prove the selection lemmas:\n" + p.stdout[-800:])
    ctx.coverage["tlaps_obligations"] = int(m.group(1))
    ctx.coverage["tlaps_discharged"] = int(m.group(1))
    ctx.stage("tlaps", obligations=int(m.group(1)))
    cargo_build(ctx)
    maxlen, reps = (12, 4) if ctx.quick() else (16, 10)
    plan = [
        ("udp", "udp_exec", "UdpRef_Trace", grid_udp_http("udp", ctx.seed + 40, maxlen, reps, 10000), U.classify),
        ("http", "http_exec", "HttpRef_Trace", grid_udp_http("http", ctx.seed + 41, maxlen, reps, 20000), H.classify),
        ("ws", "ws_exec", "WsRef_Trace", grid_ws(ctx.seed + 42, maxlen, reps, 30000), W.classify),
    ]
    stats = {}
    for name, exe, mod, beh, classify in plan:
        tp = execute(ctx, exe, beh, name)
        acc, fails = validate_and_report(ctx, mod, mod + ".cfg", tp, name, classify, beh)
        n, d = distinct_lists(tp)
        stats[name] = {"grid_cells": len(beh), "announces": n, "distinct_replies": d}
        if not fails and name != "ws":
            binding_selftest(ctx, mod, mod + ".cfg", tp, mutate_self, label="selftest_self_" + name)
            binding_selftest(ctx, mod, mod + ".cfg", tp, mutate_dup, label="selftest_dup_" + name)
        if not fails and name == "ws":
            binding_selftest(ctx, mod, mod + ".cfg", tp, W.mutate_offer_target, label="selftest_ws")
        ctx.add_sample({"tracker": name, "grid": beh[len(beh) // 2]["grid"], "cfg": beh[len(beh) // 2]["cfg"],
                        "first_ops": beh[len(beh) // 2]["ops"][:4]})
    ctx.coverage.update({
        "grid": stats, "max_swarm": maxlen, "repeats": reps, "exhaustive": False,
        "rule": "TLC evaluates the transcribed selection arithmetic for every swarm size and limit up to N, "
                "every requester position and every pair of random offsets (exhaustive in the model); on the "
                "real code every (others, limit) cell of the grid is built through public announces and queried "
                "from every position, numwant in {absent, <=0, 0, limit, larger, extremes}; every returned "
                "list / set of offer receivers is validated by TLC against PeerListOK / the offer rules",
    })
    ctx.assumptions += [
        "the real RNG's outcomes are sampled (repeats per cell), not forced; the exhaustive statement over all "
        "offset pairs is about the TLA+ transcription of extract_response_peers",
    ]
