"""C20 - UDP operator reports are faithful; scrape export is replaced atomically."""
import os
import time

from vlib import *
from storage import *
import udp_storage as U

ENV = {"J_REPORTS": "1"}


def classify(ev, prefix, last_state):
    sig = {"tracker": "udp", "part": "reports"}
    if isinstance(ev, dict):
        sig["ev"] = ev.get("ev")
    return sig


def mutate_tally(evs):
    for i in range(len(evs) - 1, -1, -1):
        if evs[i].get("ev") == "announce" and evs[i]["msgs"] and evs[i]["msgs"][0][0] == "added":
            m = json.loads(json.dumps(evs))
            m[i]["msgs"] = []
            return m, "PeerAdded message dropped at event %d" % i
    return None


def mutate_export(evs):
    for i in range(len(evs) - 1, -1, -1):
        if evs[i].get("ev") == "clean" and evs[i]["export"]:
            m = json.loads(json.dumps(evs))
            m[i]["export"][0][2] += 1
            return m, "export line seeders+1 at event %d" % i
    return None


def rev_hash_hex(hx):
    b = bytes.fromhex(hx)
    return int.from_bytes(b[1:5], "big")


def read_export(path):
    if not os.path.exists(path):
        return False, []
    out = []
    for line in open(path).read().splitlines():
        p = line.split(" ")
        try:
            out.append([int(p[0]), rev_hash_hex(p[1]), int(p[2]), int(p[3])])
        except Exception:
            out.append([-1, -1, -1, -1])
    return True, out


def export_crashes(ctx):
    """(b) a process abort after every individual step of the second export; a concurrent reader."""
    import subprocess
    res = run_tlc(ctx, "Export", "Export_MC.cfg", workers=4, timeout=300, coverage=True)
    require_mc_ok(ctx, res, "Export (crash after every step)")
    cargo_build(ctx)
    n_old, n_new = 3, 5
    old = [[4, h, 1, 0] for h in range(1, n_old + 1)]
    new = [[4, h, 1, 1] for h in range(1, n_old + 1)] + [[4, h, 0, 1] for h in range(n_old + 1, n_new + 1)]
    steps = [("created", "udp.export.created:abort:1")]
    steps += [("line%d" % j, "udp.export.line:abort:%d" % (n_old + j - 1)) for j in range(1, n_new + 1)]
    steps += [("flushed", "udp.export.flushed:abort:1"), ("renamed", "udp.export.renamed:abort:1")]
    events = []
    for k, (step, fault) in enumerate(steps):
        d = ctx.path("export_%s" % step)
        os.makedirs(d, exist_ok=True)
        e = dict(os.environ)
        e["AQUATIC_VERIF_FAULTS"] = fault
        p = subprocess.run([hbin("udp_export"), d, str(n_old), str(n_new), "crash"], env=e,
                           stdout=subprocess.PIPE, stderr=subprocess.PIPE, text=True, timeout=60)
        if "FIRST-EXPORT-DONE" not in p.stdout or "VERIF-FAULT" not in p.stderr or "SECOND-EXPORT-DONE" in p.stdout:
            raise ToolError("crash experiment %s did not crash where intended: rc=%s out=%s err=%s" %
                            (step, p.returncode, p.stdout[-200:], p.stderr[-200:]))
        exists, content = read_export(os.path.join(d, "export.txt"))
        events.append({"ev": "reset", "run": k})
        events.append({"ev": "crash", "step": step, "path_exists": exists, "content": content, "old": old,
                       "new": new, "tmp_exists": os.path.exists(os.path.join(d, "export.tmp"))})
        # the tracker is restarted after the crash and exports a smaller swarm into the same directory:
        # leftovers of the interrupted export must not leak into the new file
        p2 = subprocess.run([hbin("udp_export"), d, "1", "0", "single"], stdout=subprocess.PIPE,
                            stderr=subprocess.PIPE, text=True, timeout=60)
        if "SINGLE-EXPORT-DONE" not in p2.stdout:
            raise ToolError("follow-up export failed: " + p2.stderr[-200:])
        exists2, content2 = read_export(os.path.join(d, "export.txt"))
        events.append({"ev": "reset", "run": 100 + k})
        events.append({"ev": "crash", "step": "export_after_crash_at_" + step, "path_exists": exists2,
                       "content": content2, "old": [[4, 1, 1, 0]], "new": [[4, 1, 1, 0]],
                       "tmp_exists": os.path.exists(os.path.join(d, "export.tmp"))})
    # reader during non-crashing exports of a large swarm
    d = ctx.path("export_reader")
    os.makedirs(d, exist_ok=True)
    big = (3000, 5000) if ctx.quick() else (20000, 30000)
    p = subprocess.run([hbin("udp_export"), d, str(big[0]), str(big[1]), "reader"], stdout=subprocess.PIPE,
                       stderr=subprocess.PIPE, text=True, timeout=300)
    rd = None
    for line in p.stdout.splitlines():
        if line.startswith("{"):
            rd = json.loads(line)
    if rd is None:
        raise ToolError("reader experiment produced no summary: " + p.stderr[-300:])
    events.append({"ev": "reset", "run": len(steps)})
    events.append(rd)
    tp = ctx.path("export.ndjson")
    with open(tp, "w") as f:
        for ev in events:
            f.write(json.dumps(ev, separators=(",", ":")) + "\n")
    acc, fails = validate_and_report(ctx, "Export_Trace", "Export_Trace.cfg", tp, "export",
                                     lambda ev, pre, st: {"tracker": "udp", "part": "export",
                                                          "step": ev.get("step") if isinstance(ev, dict) else None})
    if not ctx.violations:
        binding_selftest(ctx, "Export_Trace", "Export_Trace.cfg", tp, mutate_partial, label="selftest_export")
    ctx.coverage["export_crash_steps"] = [s for s, _ in steps]
    ctx.coverage["export_reader"] = rd
    ctx.add_sample(events[1])


SYSCALLS = ("openat,open,creat,write,pwrite64,writev,rename,renameat,renameat2,unlink,unlinkat,rmdir,fsync,fdatasync,"
            "close,ftruncate,truncate,link,linkat,symlink,symlinkat,fcntl,lseek,fallocate,chmod,fchmod")


def export_syscall_crashes(ctx):
    """(b') "a crash of the tracker at any point during an export": independent of the hook points, the
    process is killed (SIGKILL injected by strace) on entry to every single file-related system call of
    the second export - so also at steps a changed implementation adds between the hook points - and the
    file at the export path must be the complete old or the complete new one each time."""
    import shutil
    import subprocess
    if not shutil.which("strace"):
        ctx.coverage["export_syscall_kill_points"] = "skipped: strace not available"
        return
    cargo_build(ctx)
    n_old, n_new = 150, 250       # the second export needs two write() calls (BufWriter: 8 KiB)
    old = [[4, h, 1, 0] for h in range(1, n_old + 1)]
    new = [[4, h, 1, 1] for h in range(1, n_old + 1)] + [[4, h, 0, 1] for h in range(n_old + 1, n_new + 1)]
    d0 = ctx.path("export_sys_census")
    shutil.rmtree(d0, ignore_errors=True)
    os.makedirs(d0)
    tr = ctx.path("export_sys_census.strace")
    p = subprocess.run(["strace", "-f", "-o", tr, "-e", "trace=" + SYSCALLS, hbin("udp_export"), d0, str(n_old),
                        str(n_new), "crash"], stdout=subprocess.PIPE, stderr=subprocess.PIPE, text=True, timeout=120)
    if "SECOND-EXPORT-DONE" not in p.stdout:
        ctx.coverage["export_syscall_kill_points"] = "skipped: strace cannot trace here (%s)" % p.stderr[-120:]
        return
    ordinal = {}
    points = []
    inside = False
    for line in open(tr):
        m = re.match(r"\d+\s+(\w+)\(", line)
        if not m:
            continue
        name = m.group(1)
        ordinal[name] = ordinal.get(name, 0) + 1
        if "FIRST-EXPORT-DONE" in line:
            inside = True
            continue
        if "SECOND-EXPORT-DONE" in line:
            break
        if inside:
            points.append((name, ordinal[name]))
    if len(points) < 4:
        raise ToolError("system-call census of the export found only %s" % points)
    events = []
    used = []
    for k, (name, j) in enumerate(points):
        d = ctx.path("export_sys_%d" % k)
        shutil.rmtree(d, ignore_errors=True)
        os.makedirs(d)
        p = subprocess.run(["strace", "-f", "-o", "/dev/null", "-e", "trace=" + SYSCALLS,
                            "-e", "inject=%s:signal=SIGKILL:when=%d" % (name, j),
                            hbin("udp_export"), d, str(n_old), str(n_new), "crash"],
                           stdout=subprocess.PIPE, stderr=subprocess.PIPE, text=True, timeout=120)
        if "FIRST-EXPORT-DONE" not in p.stdout or "SECOND-EXPORT-DONE" in p.stdout:
            continue        # the kill did not land inside the second export (call numbering differed): no verdict
        step = "syscall %s #%d" % (name, j)
        used.append(step)
        exists, content = read_export(os.path.join(d, "export.txt"))
        events.append({"ev": "reset", "run": 300 + k})
        events.append({"ev": "crash", "step": step, "path_exists": exists, "content": content, "old": old,
                       "new": new, "tmp_exists": os.path.exists(os.path.join(d, "export.tmp"))})
        p2 = subprocess.run([hbin("udp_export"), d, "1", "0", "single"], stdout=subprocess.PIPE,
                            stderr=subprocess.PIPE, text=True, timeout=60)
        if "SINGLE-EXPORT-DONE" not in p2.stdout:
            raise ToolError("follow-up export failed: " + p2.stderr[-200:])
        exists2, content2 = read_export(os.path.join(d, "export.txt"))
        events.append({"ev": "reset", "run": 400 + k})
        events.append({"ev": "crash", "step": "export_after_kill_at_" + step, "path_exists": exists2,
                       "content": content2, "old": [[4, 1, 1, 0]], "new": [[4, 1, 1, 0]],
                       "tmp_exists": os.path.exists(os.path.join(d, "export.tmp"))})
        shutil.rmtree(d, ignore_errors=True)
    if len(used) < 4:
        raise ToolError("only %d of %d kill points landed inside the second export" % (len(used), len(points)))
    tp = ctx.path("export_sys.ndjson")
    with open(tp, "w") as f:
        for ev in events:
            f.write(json.dumps(ev, separators=(",", ":")) + "\n")
    validate_and_report(ctx, "Export_Trace", "Export_Trace.cfg", tp, "export_syscalls",
                        lambda ev, pre, st: {"tracker": "udp", "part": "export",
                                             "step": ev.get("step") if isinstance(ev, dict) else None})
    ctx.coverage["export_syscall_kill_points"] = used


def mutate_partial(evs):
    for i in range(len(evs)):
        if evs[i].get("ev") == "crash" and len(evs[i]["content"]) > 1:
            m = json.loads(json.dumps(evs))
            m[i]["content"] = m[i]["content"][:-1]
            return m, "last line of the file at the export path dropped (partial file) at event %d" % i
    return None



def stats_e2e(ctx):
    """(c) the real statistics worker: per-client table and totals of the HTML file of a running tracker."""
    import re
    from net import Tracker, free_port, udp_wait_ready, UdpClient, connect_req, announce_req, decode_reply, info_hash
    import udp_e2e
    port = free_port()
    html = ctx.path("stats.html")
    cfg = udp_e2e.udp_config(port, "mio", mode="off")
    cfg["cleaning"]["torrent_cleaning_interval"] = 1
    cfg["statistics"] = {"interval": 1, "peer_clients": True, "torrent_peer_histograms": True,
                         "write_html_to_file": True, "html_file_path": html}
    t = Tracker(ctx, "udp", cfg, "c20_stats")
    events = [{"ev": "reset", "run": 0}]

    def pid_bytes(p):
        prefix = b"-qB4250-" if p < 100 else b"-TR3000-"
        return prefix + ("%012d" % p).encode()

    def read_html():
        text = open(html).read()
        clients = []
        m = re.search(r"<tbody>(.*?)</tbody>\s*</table>\s*$", text[text.rfind("<thead>"):], re.S)
        body = text[text.rfind("<tbody>"):]
        for row in re.findall(r"<tr>\s*<td>([^<]*)</td>\s*<td>([^<]*)</td>\s*</tr>", body):
            clients.append([row[0].strip().split(" ")[0], int(row[1].strip().replace(",", ""))])
        nums = re.findall(r"<td>\s*([0-9,]+)\s*\*</td>", text)
        return clients, int(nums[0].replace(",", "")), int(nums[1].replace(",", ""))

    cl = None
    try:
        udp_wait_ready(("127.0.0.1", port), tracker=t)
        cl = UdpClient("127.0.0.2", ("127.0.0.1", port))
        cl.send(connect_req(1))
        cid = decode_reply(cl.recv(2.0)[0], 4)["conn_id"]
        tx = [100]

        def ann(h, aport, pid, event="started", left=1):
            tx[0] += 1
            cl.send(announce_req(cid, tx[0], info_hash(h), pid_bytes(pid), left, event, aport))
            r = cl.recv(2.0)
            if not r:
                raise ToolError("no announce reply")
            events.append({"ev": "announce", "h": h, "key": ["127.0.0.2", aport], "pid": pid, "event": event, "left": left})

        def snapshot():
            time.sleep(3.8)     # > cleaning interval + statistics interval, with margin
            clients, torrents, peers = read_html()
            events.append({"ev": "html", "clients": clients, "torrents4": torrents, "peers4": peers})

        ann(1, 7001, 1)
        ann(2, 7001, 1)           # the same peer id in two torrents: one distinct id
        ann(1, 7002, 101, left=0)
        snapshot()
        ann(1, 7001, 2)           # same address, new peer id (id 1 still stored in torrent 2)
        snapshot()
        ann(2, 7001, 1, event="stopped")
        ann(1, 7003, 102)
        snapshot()
        ann(1, 7002, 101, event="stopped")
        ann(1, 7003, 102, event="stopped")
        snapshot()
        if not t.alive():
            events.append({"ev": "tracker_died", "stderr": t.stderr()[-400:]})
    finally:
        if cl:
            cl.close()
        t.stop()
    tp = ctx.path("stats.ndjson")
    with open(tp, "w") as f:
        for ev in events:
            f.write(json.dumps(ev, separators=(",", ":")) + "\n")
    validate_and_report(ctx, "Stats_Trace", "Stats_Trace.cfg", tp, "stats",
                        lambda ev, pre, st: {"tracker": "udp", "part": "statistics_worker"})
    ctx.coverage["statistics_worker_snapshots"] = [e for e in events if e["ev"] == "html"]


def run(ctx):
    export_crashes(ctx)
    export_syscall_crashes(ctx)
    stats_e2e(ctx)
    # (a) reports: tally / totals / export on the model, then on the code
    for c in ["UdpSwarm_MC_B.cfg", "UdpSwarm_MC_C.cfg"]:
        res = run_tlc(ctx, "UdpSwarm_MC", c, workers=8, timeout=900)
        require_mc_ok(ctx, res, c)
    cargo_build(ctx)
    beh, gstats = gen_edge_cover(ctx, "UdpSwarm_Gen", "UdpSwarm_GenPid.cfg", U.arg_filter,
                                 U.to_exec_op, {"max_resp": 2, "mode": "off"})
    t1 = execute(ctx, "udp_exec", beh, "edgecover")
    acc1, f1 = validate_and_report(ctx, "UdpRef_Trace", "UdpRef_Trace.cfg", t1, "edgecover",
                                   classify, beh, env=ENV)
    nruns, nops = (20, 250) if ctx.quick() else (200, 400)
    rb = U.random_behaviours(ctx.seed + 20, nruns, nops, pid_bias=True, time_bias=True,
                             first_run=100000)
    t2 = execute(ctx, "udp_exec", rb, "random")
    acc2, f2 = validate_and_report(ctx, "UdpRef_Trace", "UdpRef_Trace.cfg", t2, "random",
                                   classify, rb, env=ENV)
    # the same with per-client statistics off (the default): totals and export must not depend on that option
    rb2 = U.random_behaviours(ctx.seed + 21, nruns // 2, nops, time_bias=True, first_run=200000)
    for b in rb2:
        b["cfg"]["peer_clients"] = False
    t3 = execute(ctx, "udp_exec", rb2, "random_noclients")
    validate_and_report(ctx, "UdpRef_Trace", "UdpRef_Trace.cfg", t3, "random_noclients", classify, rb2, env=ENV)
    if not f1:
        binding_selftest(ctx, "UdpRef_Trace", "UdpRef_Trace.cfg", t1, mutate_tally, env=ENV)
        binding_selftest(ctx, "UdpRef_Trace", "UdpRef_Trace.cfg", t1, mutate_export,
                         label="selftest2", env=ENV)
    ctx.coverage.update({
        "model_edges": gstats["model_edges"], "model_edges_covered": gstats["covered"], "edge_cover_ops": gstats["ops"],
        "random_runs": nruns, "random_ops": nruns * nops,
        "rule": "edge cover of the generation model with two peer ids (re-announce with a new id, stop, "
                "expiry) and random histories biased to peer-id changes; after every announce and every "
                "clean TLC compares the PeerAdded/PeerRemoved tally, the per-family totals and the export "
                "file with the reference store",
    })
    for b in (beh[:1] + rb[:1]):
        ctx.add_sample({"run": b["run"], "cfg": b["cfg"], "first_ops": b["ops"][:6]})
    ctx.assumptions += [
        "tally applied to the messages exactly as workers/statistics/mod.rs does (transcribed in TLA+)",
        "no access-list change between announce and clean (C20's quantifier)",
    ]
