"""C20 - UDP operator reports are faithful; scrape export is replaced atomically."""
from vlib import *
from storage import *
import udp_storage as U

ENV = {"J_REPORTS": "1"}


def classify(ev, prefix, last_state):
    sig = {"tracker": "udp", "part": "reports"}
    if isinstance(ev, dict):
        sig["ev"] = ev.get("ev")
    return sig


def mutate_tally(evs):
    for i in range(len(evs) - 1, -1, -1):
        if evs[i].get("ev") == "announce" and evs[i]["msgs"] and evs[i]["msgs"][0][0] == "added":
            m = json.loads(json.dumps(evs))
            m[i]["msgs"] = []
            return m, "PeerAdded message dropped at event %d" % i
    return None


def mutate_export(evs):
    for i in range(len(evs) - 1, -1, -1):
        if evs[i].get("ev") == "clean" and evs[i]["export"]:
            m = json.loads(json.dumps(evs))
            m[i]["export"][0][2] += 1
            return m, "export line seeders+1 at event %d" % i
    return None


def run(ctx):
    # (a) reports: tally / totals / export on the model, then on the code
    for c in ["UdpSwarm_MC_B.cfg", "UdpSwarm_MC_C.cfg"]:
        res = run_tlc(ctx, "UdpSwarm_MC", c, workers=8, timeout=900)
        require_mc_ok(ctx, res, c)
    cargo_build(ctx)
    beh, gstats = gen_edge_cover(ctx, "UdpSwarm_Gen", "UdpSwarm_GenPid.cfg", U.arg_filter,
                                 U.to_exec_op, {"max_resp": 2, "mode": "off"})
    t1 = execute(ctx, "udp_exec", beh, "edgecover")
    acc1, f1 = validate_and_report(ctx, "UdpRef_Trace", "UdpRef_Trace.cfg", t1, "edgecover",
                                   classify, beh, env=ENV)
    nruns, nops = (20, 250) if ctx.quick() else (200, 400)
    rb = U.random_behaviours(ctx.seed + 20, nruns, nops, pid_bias=True, time_bias=True,
                             first_run=100000)
    t2 = execute(ctx, "udp_exec", rb, "random")
    acc2, f2 = validate_and_report(ctx, "UdpRef_Trace", "UdpRef_Trace.cfg", t2, "random",
                                   classify, rb, env=ENV)
    if not f1:
        binding_selftest(ctx, "UdpRef_Trace", "UdpRef_Trace.cfg", t1, mutate_tally, env=ENV)
        binding_selftest(ctx, "UdpRef_Trace", "UdpRef_Trace.cfg", t1, mutate_export,
                         label="selftest2", env=ENV)
    ctx.coverage.update({
        "model_edges": gstats["model_edges"], "model_edges_covered": gstats["covered"], "edge_cover_ops": gstats["ops"],
        "random_runs": nruns, "random_ops": nruns * nops,
        "rule": "edge cover of the generation model with two peer ids (re-announce with a new id, stop, "
                "expiry) and random histories biased to peer-id changes; after every announce and every "
                "clean TLC compares the PeerAdded/PeerRemoved tally, the per-family totals and the export "
                "file with the reference store",
    })
    for b in (beh[:1] + rb[:1]):
        ctx.add_sample({"run": b["run"], "cfg": b["cfg"], "first_ops": b["ops"][:6]})
    ctx.assumptions += [
        "tally applied to the messages exactly as workers/statistics/mod.rs does (transcribed in TLA+)",
        "no access-list change between announce and clean (C20's quantifier)",
    ]
