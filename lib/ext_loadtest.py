"""Extension beyond the listed properties: the bundled UDP load tester as a BEP 15 client
(spec/UdpLoadClient.tla) behind a network that loses and duplicates connect replies.

TLC generates the network behaviours (copies delivered of each of the first four connect replies); a scripted
tracker applies them to the real load tester (harness binary udp_load) and records what it observes; TLC
validates the observations against the model of the code as it is.  Informational: recorded in the evidence
of C06 and in DESIGN.md, never a verdict on a listed property."""
import socket
import struct
import subprocess
import threading
import time

from vlib import *
from net import *

PROTOCOL_ID = 0x41727101980
ACQUIRE_TID = 0xFFFFFFFF


def one_run(ctx, run_id, fates, out):
    srv = socket.socket(socket.AF_INET, socket.SOCK_DGRAM)
    srv.bind(("127.0.0.1", 0))
    port = srv.getsockname()[1]
    srv.settimeout(0.1)
    cfgp = ctx.path("load_%d.json" % run_id)
    with open(cfgp, "w") as f:
        json.dump({"server_address": "127.0.0.1:%d" % port, "workers": 1, "duration": 0,
                   "network": {"sockets_per_worker": 2},
                   "requests": {"number_of_torrents": 4, "number_of_peers": 6, "scrape_max_torrents": 2}}, f)
    errp = ctx.path("load_%d.err" % run_id)
    p = subprocess.Popen([hbin("udp_load"), cfgp], stdout=subprocess.DEVNULL, stderr=open(errp, "w"))
    events = [{"ev": "reset", "run": run_id, "slots": 2, "fates": fates}]
    nconn = 0
    ncid = 0
    nreq = 0
    last_req = None
    t_cap = time.monotonic() + 14.0
    t_run = None          # when the first announce / scrape was seen (the running phase has begun)
    try:
        while time.monotonic() < t_cap and p.poll() is None and (t_run is None or time.monotonic() < t_run + 1.5):
            try:
                d, a = srv.recvfrom(4096)
            except socket.timeout:
                continue
            if len(d) < 16:
                continue
            last_req = time.monotonic()
            first8, act, tid = struct.unpack(">QII", d[:16])
            if first8 == PROTOCOL_ID and act == 0:
                copies = fates[nconn] if nconn < len(fates) else 1
                nconn += 1
                ncid += 1
                events.append({"ev": "connect", "tid": tid, "acquire": tid == ACQUIRE_TID, "cid": ncid, "copies": copies})
                for _ in range(copies):
                    srv.sendto(struct.pack(">IIQ", 0, tid, ncid), a)
            else:
                cid = first8
                nreq += 1
                if t_run is None:
                    t_run = time.monotonic()
                if nreq <= 40:
                    events.append({"ev": "request", "kind": {1: "announce", 2: "scrape"}.get(act, "other"), "cid": cid})
                if act == 1:
                    srv.sendto(struct.pack(">IIIII", 1, tid, 1800, 0, 0), a)
                elif act == 2:
                    srv.sendto(struct.pack(">II", 2, tid) + b"\0" * 12 * ((len(d) - 16) // 20), a)
        alive = p.poll() is None and last_req is not None and time.monotonic() - last_req < 0.7
        err = open(errp).read()
        if t_run is None and "panicked" not in err:
            events = []      # the running phase was never reached within the cap (overloaded machine): says nothing
            return
        events.append({"ev": "end", "worker_alive": bool(alive and "panicked" not in err),
                       "panic": ("index out of bounds" in err), "requests_seen": nreq})
    finally:
        p.kill()
        p.wait()
        srv.close()
        if events:
            out[run_id] = events


def loadtest_extension(ctx):
    ok = run_tlc(ctx, "UdpLoadClient", "UdpLoadClient_MC.cfg", workers=8, timeout=900)
    require_mc_ok(ctx, ok, "UdpLoadClient with the index guard")
    asis = run_tlc(ctx, "UdpLoadClient", "UdpLoadClient_MC_AsIs.cfg", workers=4, timeout=600)
    model_crash = (not asis["ok"]) and (asis.get("error") or "").startswith("invariant")
    gen = run_tlc(ctx, "UdpLoadClient_Gen", "UdpLoadClient_Gen.cfg", workers=1, timeout=600)
    fates = sorted(set(tuple(int(x) for x in re.findall(r"\d+", f)) for f in printed_tuples(gen["out"], "FATES")))
    if len(fates) < 50:
        raise ToolError("fate generation produced only %d behaviours" % len(fates))
    cargo_build(ctx)
    out = {}
    sem = threading.Semaphore(8)

    def work(i, f):
        with sem:
            one_run(ctx, i, list(f), out)

    ths = [threading.Thread(target=work, args=(i, f)) for i, f in enumerate(fates)]
    for t in ths:
        t.start()
    for t in ths:
        t.join(120)
    tp = ctx.path("loadtest.ndjson")
    with open(tp, "w") as fh:
        for i in sorted(out):
            for e in out[i]:
                fh.write(json.dumps(e, separators=(",", ":")) + "\n")
    acc, fails, nruns = validate_runs(ctx, "UdpLoadClient_Trace", "UdpLoadClient_Trace.cfg", tp, max_failures=3,
                                      label="loadtest")
    died = sum(1 for ev in out.values() if not ev[-1]["worker_alive"])
    return {"network_behaviours": len(fates), "runs": nruns, "runs_conforming_to_model_of_code_as_is": acc,
            "nonconforming": [{"run": f["run_index"], "event": f["event"]} for f in fails],
            "model_as_is_violates_NeverCrashes": model_crash,
            "runs_in_which_the_worker_thread_died": died,
            "finding": "a connect reply that arrives after the acquire phase with the acquire marker as transaction id "
                       "(a duplicate, or the reply to a re-sent request) is used as an index into connection_ids "
                       "(worker.rs: connection_ids[u32::MAX]): the load-test worker thread panics and the load test "
                       "silently stops sending" if died else None}
