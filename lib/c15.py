"""C15 - WebTorrent JSON codec round-trips; 20-byte ids are exact.

TLC checks the laws of the reference codec (spec/WsCodec.tla) on every message shape and on
the identifier decision table, prints the cases, this module gives the placeholder leaves
concrete values (identifiers covering every byte value, SDP text from a class set, 64-bit
numbers), harness ws_codec runs the real aquatic_ws_protocol on them, and TLC validates every
recorded result against the reference codec (spec/WsCodec_Trace.tla)."""
import random

from vlib import *
from storage import binding_selftest, count_events

TRACE_MOD, TRACE_CFG = "WsCodec_Trace", "WsCodec_Trace.cfg"
STYLES = ("raw", "short", "uesc", "mixed")
NUMBERS = ("0", "1", "7", "255", "65536", "2147483647", "2147483648", "4294967295", "4294967296",
           "9007199254740993", "9223372036854775807", "9223372036854775808", "18446744073709551615")


# ---------------------------------------------------------------------------
# concrete leaves

def _scalar(rnd, lo, hi):
    while True:
        c = rnd.randrange(lo, hi + 1)
        if not 0xD800 <= c <= 0xDFFF:
            return c


class Leaves:
    """Seeded source of identifiers, SDP strings and numbers; measures what it handed out."""

    def __init__(self, seed, big_budget):
        self.rnd = random.Random(seed)
        self.byte_seen = set()          # byte values used inside accepted identifiers
        self.pos_byte_seen = set()      # (position, value)
        self.sdp_classes = {}
        self.big_budget = big_budget
        self.nsdp = 0
        self.nid = 0
        self._stream = []
        self.sdp_gens = [
            ("typical", lambda r: [ord(c) for c in
                                   "v=0\r\no=- %d 2 IN IP4 127.0.0.1\r\ns=-\r\nt=0 0\r\na=group:BUNDLE 0\r\n"
                                   "a=ice-ufrag:%04x\r\na=fingerprint:sha-256 AB:CD\r\n" % (r.randrange(10 ** 12), r.randrange(65536))]),
            ("empty", lambda r: []),
            ("quotes", lambda r: [r.choice((34, 39, 96, 34, 34)) for _ in range(r.randrange(1, 40))]),
            ("backslashes", lambda r: [r.choice((92, 92, 34, 110, 117, 48, 47)) for _ in range(r.randrange(1, 40))]),
            ("json-like", lambda r: [ord(c) for c in r.choice((
                '"}],"offer_id":"', '\\u0041\\n', '{"type":"offer","sdp":"x"}', 'null', '\\', '"', '\\"', '\\\\"',
                '","info_hash":"aaaaaaaaaaaaaaaaaaaa', '/\\/', '\\ud83d\\ude00'))]),
            ("control", lambda r: r.sample(list(range(0, 32)) + [127], r.randrange(1, 33))),
            ("all-control", lambda r: list(range(0, 32)) + [127]),
            ("latin1", lambda r: [r.randrange(128, 256) for _ in range(r.randrange(1, 40))]),
            ("bmp-special", lambda r: [r.choice((0x2028, 0x2029, 0xFEFF, 0xFFFD, 0xFFFE, 0xFFFF, 0xD7FF, 0xE000,
                                                 0x100, 0x7FF, 0x800, 0x85, 0xA0)) for _ in range(r.randrange(1, 24))]),
            ("non-bmp", lambda r: [r.choice((0x10000, 0x1F600, 0x1F4A9, 0x10FFFF, 0xFFFFF, 0x100000, 0x2000B))
                                   for _ in range(r.randrange(1, 16))]),
            ("mixed", lambda r: [r.choice((34, 92, 10, 13, 0, 0x1F600, 0xE9, 0x20AC, 65, 47, 0x7F, 0x2028, 0x10FFFF, 32))
                                 for _ in range(r.randrange(1, 80))]),
            ("random", lambda r: [_scalar(r, 0, r.choice((0x7F, 0xFF, 0xFFFF, 0x10FFFF)))
                                  for _ in range(r.randrange(1, 120))]),
        ]

    # identifiers ---------------------------------------------------------
    def _next_bytes(self, n):
        while len(self._stream) < n:
            p = list(range(256))
            self.rnd.shuffle(p)
            self._stream += p
        out, self._stream = self._stream[:n], self._stream[n:]
        return out

    SPECIAL_IDS = ([0] * 20, [255] * 20, [127, 128] * 10, [34] * 20, [92] * 20, [34, 92] * 10,
                   list(range(0, 20)), list(range(12, 32)), list(range(0x7B, 0x7B + 20)),
                   list(range(236, 256)), [0xC3, 0xA9] * 10, [0xED, 0xA0, 0x80, 0xFF] * 5, [10, 13, 9, 8, 12] * 4,
                   [ord(c) for c in "-WW0102-" + "0123456789ab"], [0xE9] * 20, [0x80] * 20, [0xFF, 0] * 10)

    def ident(self):
        self.nid += 1
        if self.nid % 7 == 0:
            b = list(self.SPECIAL_IDS[(self.nid // 7) % len(self.SPECIAL_IDS)])
        else:
            b = self._next_bytes(20)
        for i, x in enumerate(b):
            self.byte_seen.add(x)
            self.pos_byte_seen.add((i, x))
        return b

    def fill(self):
        return self._next_bytes(1)[0]

    # text ----------------------------------------------------------------
    def text(self):
        self.nsdp += 1
        if self.big_budget > 0 and self.nsdp % 97 == 5:
            self.big_budget -= 1
            self.sdp_classes["10kB"] = self.sdp_classes.get("10kB", 0) + 1
            unit = self.sdp_gens[10][1](self.rnd) + self.sdp_gens[0][1](self.rnd)
            out = []
            while len(out) < 10240:
                out += unit
            return out[:10240]
        name, g = self.sdp_gens[self.nsdp % len(self.sdp_gens)]
        self.sdp_classes[name] = self.sdp_classes.get(name, 0) + 1
        return g(self.rnd)

    def number(self):
        return self.rnd.choice(NUMBERS)

    # substitution --------------------------------------------------------
    def fill_in(self, x, hole=None):
        if isinstance(x, list):
            if len(x) == 1 and isinstance(x[0], int) and not isinstance(x[0], bool):
                if 2000000 <= x[0] < 3000000:
                    return self.ident()
                if 3000000 <= x[0] < 4000000:
                    return self.text()
                if x[0] == 5000000:
                    return list(hole)
            return [self.fill() if (isinstance(y, int) and y == 4000000) else self.fill_in(y, hole) for y in x]
        if isinstance(x, dict):
            return {k: self.fill_in(v, hole) for k, v in x.items()}
        if isinstance(x, str) and x.startswith("#"):
            return self.number()
        return x


def shuffle_keys(tree, rnd):
    """Members of JSON objects in another order (the meaning of the tree does not change)."""
    if isinstance(tree, dict) and tree.get("t") in ("o", "m"):
        pairs = [[p[0], shuffle_keys(p[1], rnd)] for p in tree["v"]]
        rnd.shuffle(pairs)
        return {"t": tree["t"], "v": pairs}
    if isinstance(tree, dict) and tree.get("t") == "a":
        return {"t": "a", "v": [shuffle_keys(x, rnd) for x in tree["v"]]}
    return tree


# ---------------------------------------------------------------------------
# cases

def generate(ctx):
    cfg = "WsCodec_GenQ.cfg" if ctx.quick() else "WsCodec_Gen.cfg"
    res = run_tlc(ctx, "WsCodec_MC", cfg, workers=1, timeout=600, name="gen")
    if not res["ok"]:
        raise ToolError("generation run %s failed: %s\n%s" % (cfg, res["error"], "\n".join(res["out"].splitlines()[-40:])))
    out = {}
    for tag in ("SHAPE", "MSG", "IDCASE", "SLOT", "UTF8"):
        out[tag] = [json.loads(tla_unquote(x)) for x in printed_tuples(res["out"], tag)]
        if not out[tag]:
            raise ToolError("generation run printed no %s cases" % tag)
    ctx.stage("gen:" + cfg, **{k.lower(): len(v) for k, v in out.items()}, wall_s=res["wall_s"])
    return out


class Batch:
    """Cases grouped in runs (a reset line starts a run; runs are judged independently)."""

    def __init__(self, label):
        self.label = label
        self.lines = []
        self.n = 0
        self.cases = {}
        self.in_run = 0
        self.run_no = 0

    def reset(self, **kw):
        self.run_no += 1
        self.in_run = 0
        self.lines.append(dict(op="reset", run=self.run_no, label=self.label, **kw))

    def add(self, case, run_len=150):
        if not self.lines or self.in_run >= run_len:
            self.reset()
        self.n += 1
        self.in_run += 1
        case["n"] = self.n
        self.lines.append(case)
        self.cases[self.n] = case


def first_bad(cps):
    for i, c in enumerate(cps):
        if c > 255:
            return i + 1
    return 0


def id_tag(cps, **kw):
    d = {"len": len(cps), "first_bad": first_bad(cps)}
    d.update(kw)
    return d


def build_batches(ctx, gen, lv):
    rnd = random.Random(ctx.seed * 7919 + 15)
    quick = ctx.quick()
    # (a) round trips of messages
    rt = Batch("roundtrip")
    for rep in range(1 if quick else 12):
        for m in gen["MSG"]:
            rt.add({"op": "roundtrip", "dir": m["dir"], "msg": lv.fill_in(m["msg"])})
    # (b) hand-written JSON of every shape
    sh = Batch("shapes")
    for rep in range(1 if quick else 4):
        for i, s in enumerate(gen["SHAPE"]):
            tree = lv.fill_in(s["tree"])
            if rnd.random() < 0.3:
                tree = shuffle_keys(tree, rnd)
            sh.add({"op": "decode", "dir": s["dir"], "style": STYLES[(i + rep) % 4], "tree": tree}, run_len=250)
    # (c) the identifier decision table in every slot; one run per (direction, length)
    idt = Batch("idtable")
    styles = ("raw", "uesc") if quick else STYLES
    cases = sorted(gen["IDCASE"], key=lambda c: (c["dir"], c["idcase"]["len"]))
    key = None
    for c in cases:
        k = (c["dir"], c["idcase"]["len"])
        if k != key:
            idt.reset(dir=c["dir"], id_len=c["idcase"]["len"])
            key = k
        for st in styles:
            tree = lv.fill_in(c["tree"])
            idt.add({"op": "decode", "dir": c["dir"], "style": st, "tree": tree,
                     "tag": {"slot": c["slot"], "idcase": c["idcase"]}}, run_len=10 ** 9)
    # (d) identifier strings chosen here (length 0..40, characters of every class), judged by IdAccept
    rid = Batch("randomids")
    nrand = 1500 if quick else 60000
    slots = gen["SLOT"]
    for i in range(nrand):
        n = rnd.choice((20, 20, 20, 20, 19, 21, rnd.randrange(0, 41), rnd.randrange(0, 41)))
        hi = rnd.choice((255, 255, 255, 255, 255, 0x17F, 0xFFFF, 0x10FFFF))
        cps = [_scalar(rnd, 0, 255) for _ in range(n)]
        if hi > 255 and n > 0:
            for _ in range(rnd.choice((1, 1, 2, n))):
                cps[rnd.randrange(n)] = _scalar(rnd, 256, hi)
        if i % 256 < 64 and n == 20 and hi == 255:
            cps[rnd.randrange(20)] = (i * 4 + i // 256) % 256
        if first_bad(cps) == 0 and len(cps) == 20:
            for j, x in enumerate(cps):
                lv.byte_seen.add(x)
                lv.pos_byte_seen.add((j, x))
        s = slots[i % len(slots)]
        rid.add({"op": "decode", "dir": s["dir"], "style": STYLES[(i // len(slots)) % 4],
                 "tree": lv.fill_in(s["tree"], hole=cps), "tag": {"slot": s["slot"], "id": id_tag(cps)}}, run_len=100)
    # (e) binary frames that are not UTF-8
    u8 = Batch("utf8")
    ident = "aaaaaaaaaaaaaaaaaaaa"
    templates = [
        ("in", "scrape-id", '{"action":"scrape","info_hash":"%s@"}' % ident[:19]),
        ("in", "answer-sdp", '{"action":"announce","info_hash":"%s","peer_id":"%s","left":0,"answer":{"type":"answer",'
                             '"sdp":"x@y"},"to_peer_id":"%s","offer_id":"%s"}' % (ident, ident, ident, ident)),
        ("in", "offer-sdp-end", '{"action":"announce","info_hash":"%s","peer_id":"%s","left":1,"offers":[{"offer":'
                                '{"type":"offer","sdp":"x@"},"offer_id":"%s"}],"numwant":1}' % (ident, ident, ident)),
        ("out", "offer-sdp", '{"action":"announce","peer_id":"%s","info_hash":"%s","offer":{"type":"offer","sdp":"@y"},'
                             '"offer_id":"%s"}' % (ident, ident, ident)),
        ("out", "error-reason", '{"failure reason":"bad @ request","action":"scrape"}'),
        ("out", "files-key", '{"action":"scrape","files":{"%s@":{"complete":1,"incomplete":2,"downloaded":3}}}' % ident[:19]),
    ]
    for d, where, t in templates:
        u8.reset(where=where)
        pre, post = [list(x.encode("ascii")) for x in t.split("@")]
        for p in gen["UTF8"]:
            u8.add({"op": "rawbin", "dir": d, "bytes": pre + p["bytes"] + post, "name": p["name"], "where": where,
                    "tag": {"valid": p["valid"]}}, run_len=10 ** 9)
    return [rt, sh, idt, rid, u8]


# ---------------------------------------------------------------------------
# execution, validation, reporting

def classify(ev):
    sig = {"codec": "ws"}
    if not isinstance(ev, dict):
        return sig
    sig["ev"] = ev.get("ev")
    sig["dir"] = ev.get("dir")
    tag = ev.get("tag") or {}
    ident = tag.get("id")
    if "idcase" in tag:
        c = tag["idcase"]
        ident = {"len": c["len"], "first_bad": c["pos"]}
    if ev.get("ev") == "decode" and ident is not None:
        accepted = [ev.get("text", ["?"])[0], ev.get("bin", ["?"])[0]]
        if "ok" in accepted and ident["len"] > 20 and ident["first_bad"] in (0,) + tuple(range(21, 64)):
            sig["class"] = "overlong_id_accepted"
        elif "ok" in accepted and ident["first_bad"] != 0:
            sig["class"] = "wide_char_accepted"
        elif "ok" in accepted:
            sig["class"] = "short_id_accepted"
        else:
            sig["class"] = "valid_id_rejected_or_altered"
    elif ev.get("ev") == "roundtrip":
        sig["class"] = "roundtrip"
        sig["kind"] = (ev.get("msg") or {}).get("k")
    elif ev.get("ev") == "rawbin":
        sig["class"] = "non_utf8_binary_accepted"
    elif ev.get("ev") == "decode":
        sig["class"] = "shape"
    return sig


def summarize(ev):
    """A short, printable description of a rejected event."""
    d = {k: ev.get(k) for k in ("ev", "dir", "n", "style", "tag", "name", "where", "text_err", "bin_err", "frame") if k in ev}
    for k in ("text", "bin", "res"):
        if k in ev:
            d[k] = ev[k][0] if ev[k][0] != "ok" else ["ok", "..."]
    if "json" in ev:
        d["json"] = ev["json"]
    if ev.get("ev") == "roundtrip":
        d["kind"] = (ev.get("msg") or {}).get("k")
        d["text_equals_msg"] = ev.get("text") == ["ok", ev.get("msg")]
        d["bin_equals_msg"] = ev.get("bin") == ["ok", ev.get("msg")]
    return d


def run_batch(ctx, b, max_failures=8):
    cpath = ctx.path(b.label + "_cases.jsonl")
    tpath = ctx.path(b.label + "_trace.ndjson")
    with open(cpath, "w") as f:
        for c in b.lines:
            f.write(json.dumps(c) + "\n")
    run_harness(ctx, "ws_codec", [cpath, tpath], timeout=900)
    nev, npanic = count_events(tpath)
    if nev != len(b.lines):
        raise ToolError("%s: %d cases but %d trace lines" % (b.label, len(b.lines), nev))
    accepted, failures, nruns = validate_runs(ctx, TRACE_MOD, TRACE_CFG, tpath, max_failures=max_failures,
                                              label=b.label, timeout=900)
    ctx.traces_validated += accepted
    ctx.stage("validate:" + b.label, runs=nruns, accepted=accepted, rejected=len(failures), cases=b.n)
    for f in failures:
        k = f["matched_in_run"]
        if k >= len(f["lines"]):
            raise ToolError("%s: rejection outside the run" % b.label)
        ev = json.loads(f["lines"][k])
        case = b.cases.get(ev.get("n"))
        what = "%s case %s rejected by %s: %s" % (b.label, ev.get("n"), TRACE_MOD, json.dumps(summarize(ev))[:500])
        report_violation(ctx, what, {"module": TRACE_MOD, "cfg": TRACE_CFG, "case": case, "event": ev}, classify(ev))
    return tpath, failures


def _copy(evs):
    return json.loads(json.dumps(evs))


def mutate_roundtrip_byte(evs):
    for i, e in enumerate(evs):
        if e.get("ev") == "roundtrip" and e["bin"][0] == "ok" and e["msg"]["k"] in ("announce", "offer", "answer"):
            m = _copy(evs)
            m[i]["bin"][1]["pid"][19] ^= 1
            return m[:i + 1], "last byte of the peer id decoded from the binary frame flipped (case %d)" % e["n"]
    return None


def mutate_roundtrip_enc_id(evs):
    for i, e in enumerate(evs):
        if e.get("ev") == "roundtrip" and e["msg"]["k"] in ("announce", "ann_resp"):
            m = _copy(evs)
            for p_ in m[i]["enc"]["v"]:
                if p_[0] == "info_hash":
                    p_[1]["v"].append(65)
            return m[:i + 1], "a 21st character appended to the info hash in the recorded encoding (case %d)" % e["n"]
    return None


def mutate_accept_overlong(evs):
    ok = [e for e in evs if e.get("ev") == "decode" and e["text"][0] == "ok"]
    for i, e in enumerate(evs):
        if e.get("ev") == "decode" and e["text"] == ["err"] and ok:
            m = _copy(evs)
            m[i]["text"] = ok[0]["text"]
            m[i]["bin"] = ok[0]["bin"]
            return m[:i + 1], "a rejected identifier string recorded as accepted (case %d)" % e["n"]
    return None


def mutate_reject_valid(evs):
    for i, e in enumerate(evs):
        if e.get("ev") == "decode" and e["text"][0] == "ok":
            m = _copy(evs)
            m[i]["bin"] = ["err"]
            return m[:i + 1], "an accepted frame recorded as rejected for the binary path (case %d)" % e["n"]
    return None


def mutate_accept_bad_utf8(evs):
    for i, e in enumerate(evs):
        if e.get("ev") == "rawbin" and e["res"] == ["err"] and not e["tag"]["valid"]:
            m = _copy(evs)
            m[i]["res"] = ["ok", {"k": "scrape", "ihs": []}]
            return m[:i + 1], "an ill-formed binary frame recorded as accepted (case %d)" % e["n"]
    return None


def run(ctx):
    # 1. the design: laws of the reference codec on every case; negative controls
    mc = "WsCodec_MCQ.cfg" if ctx.quick() else "WsCodec_MC.cfg"
    res = run_tlc(ctx, "WsCodec_MC", mc, workers=8, timeout=900)
    require_mc_ok(ctx, res, mc)
    for neg in ("WsCodec_MC_Neg1.cfg", "WsCodec_MC_Neg2.cfg"):
        r = run_tlc(ctx, "WsCodec_MC", neg, workers=8, timeout=600)
        if r["ok"] or not tlc_is_spec_violation(r):
            raise ToolError("negative control %s was not rejected by the laws (%s)" % (neg, r.get("error")))
        ctx.stage("negative-control", cfg=neg, error=r["error"])
    cargo_build(ctx)
    # 2. cases from the specification, concrete leaves
    gen = generate(ctx)
    lv = Leaves(ctx.seed, big_budget=8 if ctx.quick() else 150)
    batches = build_batches(ctx, gen, lv)
    if len(lv.byte_seen) != 256:
        raise ToolError("identifiers cover only %d byte values" % len(lv.byte_seen))
    # 3./4. execute on the real codec, validate with TLC
    traces = {}
    nfail = 0
    for b in batches:
        traces[b.label], fails = run_batch(ctx, b, max_failures={"idtable": 14, "randomids": 3}.get(b.label, 6))
        nfail += len(fails)
        ctx.coverage["cases_" + b.label] = b.n
    # vacuity / sanity of the UTF-8 probes: the templates themselves must be acceptable
    ok_ctrl = bad = bad_rejected = 0
    for line in open(traces["utf8"]):
        e = json.loads(line)
        if e.get("ev") != "rawbin":
            continue
        if e["tag"]["valid"]:
            if e["where"] in ("answer-sdp", "offer-sdp-end", "offer-sdp", "error-reason"):
                if e["res"][0] != "ok":
                    raise ToolError("UTF-8 control %s in %s was not accepted: the template is wrong" % (e["name"], e["where"]))
                ok_ctrl += 1
        else:
            bad += 1
            bad_rejected += e["res"] == ["err"]
    if ok_ctrl == 0 or bad == 0:
        raise ToolError("vacuity: no UTF-8 controls / no ill-formed frames executed")
    # 5. binding self-tests
    if nfail == 0:
        binding_selftest(ctx, TRACE_MOD, TRACE_CFG, traces["roundtrip"], mutate_roundtrip_byte, label="selftest0")
        binding_selftest(ctx, TRACE_MOD, TRACE_CFG, traces["roundtrip"], mutate_roundtrip_enc_id, label="selftest1")
        binding_selftest(ctx, TRACE_MOD, TRACE_CFG, traces["idtable"], mutate_accept_overlong, label="selftest2")
        binding_selftest(ctx, TRACE_MOD, TRACE_CFG, traces["shapes"], mutate_reject_valid, label="selftest3")
        binding_selftest(ctx, TRACE_MOD, TRACE_CFG, traces["utf8"], mutate_accept_bad_utf8, label="selftest4")
    # 6. evidence
    acc = rej = 0
    for lab in ("idtable", "randomids"):
        for line in open(traces[lab]):
            if '"ev":"decode"' in line:
                if '"text":["ok"' in line:
                    acc += 1
                else:
                    rej += 1
    ctx.coverage.update({
        "rule": "TLC enumerates message shapes (kind x optional field present/absent/null x event x left x info-hash "
                "form), the identifier decision table (7 lengths x first offending position x 3 character classes) in "
                "every identifier slot of every message kind, and UTF-8 byte patterns; each case is run through the "
                "real to_ws_message / from_ws_message as text and as binary frame in 4 escaping styles, and every "
                "result is validated by TLC against the reference codec",
        "message_shapes": len(gen["SHAPE"]), "messages_round_tripped": batches[0].n,
        "id_table_cases": len(gen["IDCASE"]), "id_slots": len(gen["SLOT"]),
        "id_strings_accepted": acc, "id_strings_rejected": rej,
        "id_byte_values_covered": len(lv.byte_seen), "id_position_byte_pairs_covered": len(lv.pos_byte_seen),
        "sdp_classes": lv.sdp_classes, "utf8_ill_formed_frames": bad, "utf8_ill_formed_rejected": bad_rejected,
        "utf8_controls_accepted": ok_ctrl,
    })
    for lab in ("roundtrip", "shapes", "idtable", "utf8"):
        for line in open(traces[lab]):
            e = json.loads(line)
            if e.get("ev") != "reset" and e.get("json_len", 0) < 600 and e.get("n", 0) >= 3:
                ctx.add_sample(json.dumps(_short(e, 12))[:700])
                break
    ctx.assumptions += [
        "the executor's rendering of a tree as JSON text is cross-checked by reading it back with serde_json (a "
        "different parser from the simd-json parser under test); the produced JSON of to_ws_message is read with serde_json",
        "a binary frame whose payload is not well-formed UTF-8 carries no JSON text (RFC 8259 8.1) and must be rejected, "
        "as a text frame can never carry it; well-formed payloads are judged through the tree they were written from",
        "numbers are the usize values of the protocol written as decimal integers (no fractions, exponents, signs)",
        "lone surrogate escapes and duplicate object members are outside the statement and not generated",
        "TLC and the TLA+ standard/community modules are correct",
    ]


def _short(x, cap=24):
    if isinstance(x, list):
        if len(x) > cap:
            return [_short(y) for y in x[:cap]] + ["...(%d)" % len(x)]
        return [_short(y) for y in x]
    if isinstance(x, dict):
        return {k: _short(v) for k, v in x.items()}
    return x


def replay(ctx, path):
    """Re-run the case of a replay file on the current tree and judge it again."""
    r = json.load(open(path))
    case = r["replay"]["case"]
    b = Batch("replay")
    b.add(dict(case))
    cargo_build(ctx)
    _, fails = run_batch(ctx, b)
    if not fails:
        log("replay: the case is accepted on the current tree")
