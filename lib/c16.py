"""C16 - HTTP tracker: one well-framed reply per request; workers are invisible."""
import random
import threading

from vlib import *
from storage import *
from net import *
from http_e2e import *

CLIENT_IPS = ["127.0.0.2", "127.0.0.3", "127.0.0.4", "::1"]


def scenario(ctx, log, run_id, sw, ww, keep_alive, rnd, quick, max_scrape=3, every_offset=False, tls=False):
    import http_e2e
    port = free_port(socket.SOCK_STREAM)
    cert = make_cert(ctx, "c16_%d" % run_id) if tls else None
    cfg = http_config(port, socket_workers=sw, swarm_workers=ww, keep_alive=keep_alive, max_scrape=max_scrape,
                      max_peers=4, tls=cert)
    t = Tracker(ctx, "http", cfg, "c16_%d_%d_%s%s" % (sw, ww, "ka" if keep_alive else "noka", "_tls" if tls else ""))
    http_e2e.USE_TLS = tls
    try:
        tcp_wait_ready(("127.0.0.1", port), tracker=t)
        tcp_wait_ready(("::1", port), tracker=t)
        log.add({"ev": "reset", "run": run_id, "socket_workers": sw, "swarm_workers": ww, "keep_alive": keep_alive,
                 "max_scrape": max_scrape, "max_peers": 4})

        def server_for(ip):
            return ("::1", port) if ":" in ip else ("127.0.0.1", port)

        nreq = 6 if quick else 14
        errors = []

        def client(k, ip, seed):
            r = random.Random(seed)
            cname = "c%d_%d" % (run_id, k)
            conn = None
            gen = 0
            try:
                for i in range(nreq):
                    if conn is None:
                        gen += 1
                        conn = HttpConn(ip, server_for(ip))
                    kind = "announce" if r.random() < 0.85 else r.choice(("bad", "oversized"))
                    req = {"kind": kind, "h": r.choice((1, 2, 3)), "port": 5000 + k * 10 + r.randrange(3),
                           "event": r.choice(("started", "none", "completed", "stopped")), "left": r.choice((0, 1)),
                           "numwant": r.choice((None, 0, 1, 2, 50)), "ncuts": r.choice((0, 0, 1, 2, 3))}
                    if r.random() < 0.35:
                        # a segment boundary inside the final CRLFCRLF or right after the request line
                        req["tail_cut"] = r.choice((1, 2, 3, 4))
                    out = do_request(log, conn, "%s_g%d" % (cname, gen), i, req, r)
                    if kind != "announce" or out.get("outcome") != "reply" or not keep_alive or out.get("server_closed"):
                        conn.close()
                        conn = None
            except Exception as e:       # tool-level problem in the driver thread
                errors.append("%s: %r" % (cname, e))
            finally:
                if conn:
                    conn.close()

        threads = []
        for k, ip in enumerate(CLIENT_IPS):
            th = threading.Thread(target=client, args=(k, ip, rnd.randrange(1 << 30)))
            th.start()
            threads.append(th)
        for th in threads:
            th.join(60)
        if errors:
            raise ToolError("driver thread failed: " + "; ".join(errors)[:300])
        # quiescent scrapes: lists with repeats, longer than max_scrape, spanning workers
        sc = HttpConn("127.0.0.2", server_for("127.0.0.2"))
        sc6 = HttpConn("::1", server_for("::1"))
        j = 0
        for hs in ([1], [1, 2, 3], [3, 2, 1, 4], [2, 2, 1], [4, 1, 2, 3, 1], [5], [1, 3]):
            for c, nm in ((sc, "s4"), (sc6, "s6")):
                out = do_request(log, c, "%s_%d_%d" % (nm, run_id, j), j,
                                 {"kind": "scrape", "hs": hs, "ncuts": rnd.choice((0, 1, 2)),
                                  "tail_cut": (j % 4) + 1 if j % 2 == 0 else None}, rnd)
                j += 1
                if not keep_alive or out.get("outcome") != "reply":
                    c.close()
                    if nm == "s4":
                        sc = c = HttpConn("127.0.0.2", server_for("127.0.0.2"))
                    else:
                        sc6 = c = HttpConn("::1", server_for("::1"))
        if every_offset:
            # one announce and one scrape split at every single byte offset
            a = request_bytes(announce_path(2, 5999))
            for cut in range(1, len(a)):
                do_request(log, sc, "off_%d_%d" % (run_id, cut), cut,
                           {"kind": "announce", "h": 2, "port": 5999, "cuts": [cut]}, rnd)
            s = request_bytes(scrape_path([1, 2]))
            for cut in range(1, len(s), 3):
                do_request(log, sc, "offs_%d_%d" % (run_id, cut), cut, {"kind": "scrape", "hs": [1, 2], "cuts": [cut]}, rnd)
        sc.close()
        sc6.close()
        if not t.alive():
            # a tracker that exits while serving is data, not a tool problem: no specification action
            # matches this event, so the run is rejected
            log.add({"ev": "tracker_died", "stderr": t.stderr()[-600:], "stdout": t.stdout()[-300:]})
    finally:
        http_e2e.USE_TLS = False
        t.stop()


def stress_scenario(ctx, log, run_id, rnd, quick):
    """Many concurrent kept-alive connections over several socket workers and ONE swarm worker: every
    request must be answered by a well-framed 200 reply (per-thread summary events; reply contents are
    validated by the other scenarios)."""
    port = free_port(socket.SOCK_STREAM)
    t = Tracker(ctx, "http", http_config(port, 3, 1, True, max_scrape=5, max_peers=5), "c16_stress")
    nthreads, nreq = (10, 250) if quick else (16, 1500)
    try:
        tcp_wait_ready(("127.0.0.1", port), tracker=t)
        log.add({"ev": "reset", "run": run_id, "socket_workers": 3, "swarm_workers": 1, "keep_alive": True,
                 "max_scrape": 5, "max_peers": 5, "scenario": "stress"})
        res = {}

        def client(k):
            ok = 0
            first_bad = None
            try:
                c = HttpConn(CLIENT_IPS[k % 3], ("127.0.0.1", port))
                for i in range(nreq):
                    c.send_split(request_bytes(announce_path(20 + k, 5000 + i % 7, left=i % 2)), [])
                    out = c.read_reply(timeout=3.0)
                    if out.get("outcome") == "reply" and out.get("status") == 200 and out.get("framed") \
                            and out.get("extra") == 0 and out["reply"].get("kind") == "announce":
                        ok += 1
                    else:
                        first_bad = {k2: v for k2, v in out.items() if k2 != "reply"}
                        break
                c.close()
            except OSError as e:
                first_bad = {"error": str(e)[:80]}
            res[k] = (ok, first_bad)

        ths = [threading.Thread(target=client, args=(k,)) for k in range(nthreads)]
        for th in ths:
            th.start()
        for th in ths:
            th.join(120)
        for k in sorted(res):
            log.add({"ev": "stress", "thread": k, "requests": nreq, "answered": res[k][0],
                     "first_bad": res[k][1] if res[k][1] else {}})
        if not t.alive():
            log.add({"ev": "tracker_died", "stderr": t.stderr()[-600:], "stdout": t.stdout()[-300:]})
    finally:
        t.stop()


def busy_keepalive_scenario(ctx, log, run_id, rnd):
    """"... and the connection stays usable when keep-alive is on": with max_connection_idle = 2 s and a
    cleaning pass every second, a kept-alive connection that carries only scrapes and one that carries
    only announces, each sending a request every 0.3 s for about 6 s, must have every request answered.
    If the driver itself pauses for 0.8 s or more between a reply and the next request (overloaded
    machine) the attempt says nothing and is discarded."""
    for attempt in range(3):
        port = free_port(socket.SOCK_STREAM)
        cfg = http_config(port, 1, 2, True, max_scrape=5, max_peers=5)
        cfg["cleaning"]["max_connection_idle"] = 2
        cfg["cleaning"]["connection_cleaning_interval"] = 1
        t = Tracker(ctx, "http", cfg, "c16_busy")
        local = Log()
        slow = False
        try:
            tcp_wait_ready(("127.0.0.1", port), tracker=t)
            local.add({"ev": "reset", "run": run_id, "socket_workers": 1, "swarm_workers": 2, "keep_alive": True,
                       "max_scrape": 5, "max_peers": 5, "scenario": "busy_keepalive"})
            cs = HttpConn("127.0.0.2", ("127.0.0.1", port))
            ca = HttpConn("127.0.0.3", ("127.0.0.1", port))
            t0 = last = time.monotonic()
            i = 0
            while time.monotonic() - t0 < 6.2:
                for conn, nm, req in ((cs, "busy_s", {"kind": "scrape", "hs": [1, 2]}),
                                      (ca, "busy_a", {"kind": "announce", "h": 1 + i % 2, "port": 5400 + i % 3})):
                    if time.monotonic() - last >= 0.8:
                        slow = True
                    out = do_request(local, conn, "%s%d" % (nm, run_id), i, req, rnd)
                    last = time.monotonic()
                    i += 1
                time.sleep(0.3)
            cs.close()
            ca.close()
            if not t.alive():
                local.add({"ev": "tracker_died", "stderr": t.stderr()[-600:], "stdout": t.stdout()[-300:]})
        finally:
            t.stop()
        if not slow:
            for e in local.events:
                log.add(e)
            ctx.coverage["busy_keepalive"] = {"requests": i, "seconds": 6.2, "max_connection_idle": 2,
                                              "attempts": attempt + 1}
            return
    ctx.coverage["busy_keepalive"] = {"skipped": "driver paused >= 0.8 s between requests in 3 attempts (machine overloaded)"}


def digits_scenario(ctx, log, run_id, rnd):
    """Replies of 4-, 2- and 3-digit lengths in turn on one kept-alive connection (the Content-Length
    field of the re-used header buffer must be rewritten cleanly each time)."""
    port = free_port(socket.SOCK_STREAM)
    t = Tracker(ctx, "http", http_config(port, 1, 2, True, max_scrape=100, max_peers=50), "c16_digits")
    try:
        tcp_wait_ready(("127.0.0.1", port), tracker=t)
        log.add({"ev": "reset", "run": run_id, "socket_workers": 1, "swarm_workers": 2, "keep_alive": True,
                 "max_scrape": 100, "max_peers": 50, "scenario": "digits"})
        c = HttpConn("127.0.0.2", ("127.0.0.1", port))
        i = 0
        for p in range(12):
            do_request(log, c, "d%d" % run_id, i, {"kind": "announce", "h": 1, "port": 5200 + p, "numwant": 50}, rnd)
            i += 1
        for hs in (list(range(1, 21)), [1], list(range(1, 26)), [2], [1, 2, 3]):
            do_request(log, c, "d%d" % run_id, i, {"kind": "scrape", "hs": hs}, rnd)
            i += 1
            do_request(log, c, "d%d" % run_id, i, {"kind": "announce", "h": 2, "port": 5300 + i, "numwant": 1}, rnd)
            i += 1
        c.close()
    finally:
        t.stop()


def classify(ev, prefix, last_state):
    sig = {"tracker": "http", "part": "server"}
    for e in prefix[:1]:
        if isinstance(e, dict):
            sig["swarm_workers_gt1"] = e.get("swarm_workers", 1) > 1
    # the offending call is the last call of the rejected connection
    if isinstance(ev, dict) and ev.get("ev") == "ret":
        for e in reversed(prefix):
            if e.get("ev") == "call" and e.get("conn") == ev.get("conn"):
                sig["kind"] = e.get("kind")
                break
    return sig


def mutate_clen(evs):
    for i in range(len(evs) - 1, -1, -1):
        e = evs[i]
        if e.get("ev") == "call" and e.get("kind") == "announce" and e.get("reply", {}).get("outcome") == "reply":
            m = json.loads(json.dumps(evs))
            m[i]["reply"]["framed"] = False
            return m, "reply at event %d recorded as not framed by its Content-Length" % i
    return None


def mutate_scrape_extra(evs):
    for i in range(len(evs) - 1, -1, -1):
        e = evs[i]
        if e.get("ev") == "call" and e.get("kind") == "scrape" and e.get("reply", {}).get("reply", {}).get("files"):
            m = json.loads(json.dumps(evs))
            m[i]["reply"]["reply"]["files"].append([77, 0, 0])
            return m, "extra torrent added to a scrape reply at event %d" % i
    return None


def model_check(ctx):
    cfgs = ["HttpServer_MC_W2.cfg", "HttpServer_MC_W2noKA.cfg"] if ctx.quick() else \
        ["HttpServer_MC_W1.cfg", "HttpServer_MC_W2.cfg", "HttpServer_MC_W3.cfg", "HttpServer_MC_W2noKA.cfg",
         "HttpServer_MC_Live.cfg"]     # liveness under weak fairness: every accepted request is answered
    for c in cfgs:
        res = run_tlc(ctx, "HttpServer_MC", c, workers=8, timeout=1800)
        require_mc_ok(ctx, res, c)
    for c in ("HttpServer_MC_NegTrunc.cfg", "HttpServer_MC_NegBlank.cfg"):
        neg = run_tlc(ctx, "HttpServer_MC", c, workers=8, timeout=600)
        if neg["ok"] or not tlc_is_spec_violation(neg):
            raise ToolError("negative control %s was not rejected by TLC" % c)
        ctx.stage("negative-control", cfg=c, error=neg["error"])



def idle_extension(ctx):
    """Growth beyond the listed properties (ConnIdle.tla): idle connections are closed by the cleaning
    timer, active ones are not.  Informational: recorded in the evidence, never a verdict on C16."""
    res = run_tlc(ctx, "ConnIdle", "ConnIdle_MC.cfg", workers=4, timeout=300)
    require_mc_ok(ctx, res, "ConnIdle (extension)")
    port = free_port(socket.SOCK_STREAM)
    cfg = http_config(port, 1, 1, True)
    cfg["cleaning"]["max_connection_idle"] = 2
    cfg["cleaning"]["connection_cleaning_interval"] = 1
    t = Tracker(ctx, "http", cfg, "c16_idle")
    out = {}
    try:
        tcp_wait_ready(("127.0.0.1", port), tracker=t)
        a = HttpConn("127.0.0.2", ("127.0.0.1", port))
        b = HttpConn("127.0.0.3", ("127.0.0.1", port))
        a.send_split(request_bytes(announce_path(1, 5000)), [])
        a.read_reply()
        t_last = time.monotonic()
        failed = 0
        closed_after = None
        a.sock.settimeout(0.05)
        for i in range(14):
            b.send_split(request_bytes(announce_path(1, 5001)), [])
            if b.read_reply().get("outcome") != "reply":
                failed += 1
            if closed_after is None:
                try:
                    if a.sock.recv(10) == b"":
                        closed_after = time.monotonic() - t_last
                except socket.timeout:
                    pass
                except OSError:
                    closed_after = time.monotonic() - t_last
            time.sleep(0.5)
        out = {"idle_connection_closed_after_s": round(closed_after, 2) if closed_after is not None else None,
               "active_connection_requests": 14, "active_connection_failures": failed,
               "expected": "closed between max_idle-1 = 1 s and max_idle+interval+1 = 4 s (+slack); active one stays"}
        out["ok"] = closed_after is not None and 0.9 <= closed_after <= 5.5 and failed == 0
        a.close()
        b.close()
    finally:
        t.stop()
    ctx.coverage.setdefault("extensions", {})["ConnIdle"] = out
    log("EXTENSION ConnIdle (not a verdict on C16): %s" % out)


def run(ctx):
    rnd = random.Random(ctx.seed + 160)
    model_check(ctx)
    cargo_build(ctx)
    log = Log()
    combos = [(1, 1, True), (1, 3, False), (3, 1, True), (3, 3, True)] if ctx.quick() else \
        [(s, w, ka) for s in (1, 2, 3) for w in (1, 2, 3) for ka in (True, False)]
    for k, (sw, ww, ka) in enumerate(combos):
        scenario(ctx, log, k, sw, ww, ka, rnd, ctx.quick(), every_offset=(not ctx.quick() and k == len(combos) - 2))
    # the same contract over TLS (the statement does not exclude it): the connection code is generic over the
    # stream type, the TLS accept path and record-wise delivery of the request are exercised here only
    tls_combos = [(2, 2, True)] if ctx.quick() else [(2, 2, True), (1, 3, False), (3, 1, True)]
    for k, (sw, ww, ka) in enumerate(tls_combos):
        scenario(ctx, log, 70 + k, sw, ww, ka, rnd, ctx.quick(), tls=True)
    digits_scenario(ctx, log, 90, rnd)
    stress_scenario(ctx, log, 91, rnd, ctx.quick())
    busy_keepalive_scenario(ctx, log, 92, rnd)
    tp = ctx.path("http_server.ndjson")
    with open(tp, "w") as f:
        for e in log.events:
            f.write(json.dumps(e, separators=(",", ":")) + "\n")
    acc, fails = validate_and_report(ctx, "HttpServer_Trace", "HttpServer_Trace.cfg", tp, "server", classify,
                                     max_failures=12)
    if not ctx.violations:
        binding_selftest(ctx, "HttpServer_Trace", "HttpServer_Trace.cfg", tp, mutate_clen, label="selftest_clen")
        binding_selftest(ctx, "HttpServer_Trace", "HttpServer_Trace.cfg", tp, mutate_scrape_extra, label="selftest_scrape")
    calls = [e for e in log.events if e.get("ev") == "call"]
    ctx.coverage.update({
        "configurations": ["%dx%d %s" % (s, w, "keep-alive" if ka else "close") for s, w, ka in combos]
        + ["%dx%d %s TLS" % (s, w, "keep-alive" if ka else "close") for s, w, ka in tls_combos],
        "requests": len(calls),
        "requests_split_across_segments": sum(1 for e in calls if e.get("cuts")),
        "replies": sum(1 for e in calls if e.get("reply", {}).get("outcome") == "reply"),
        "rule": "running HTTP trackers for the socket x swarm worker configurations; 4 concurrent connections "
                "(127.0.0.2-4 and ::1) send announces for torrents mapping to different swarm workers, requests "
                "split at random byte offsets (every offset in the thorough tier), alternating body lengths on "
                "kept-alive connections, malformed and oversized requests on their own connections; quiescent "
                "scrapes with repeats and more hashes than max_scrape_torrents; TLC infers a linearization and "
                "validates framing (status, Content-Length = bytes following, nothing extra) and bodies",
    })
    ctx.add_sample(calls[:2])
    if not ctx.quick():
        idle_extension(ctx)
    ctx.assumptions += ["pipelined requests are outside the statement; TLS runs use a throw-away self-signed certificate that the client does not verify",
                        "multi-hash scrapes are issued at quiescence (the code does not make them atomic across torrents)"]


# ---------------------------------------------------------------------------
# HTTP part of C03 (called from c03.py through http_e2e.c03_part)

def c03_http(ctx):
    rnd = random.Random(ctx.seed + 161)
    log = Log()
    # (a) direct TCP sources, plain and through a dual-stack listener
    for run_id, dual in ((500, False), (501, True)):
        port = free_port(socket.SOCK_STREAM)
        t = Tracker(ctx, "http", http_config(port, 1, 2, True, max_scrape=5, max_peers=10, dual=dual),
                    "c03_http_%s" % ("dual" if dual else "plain"))
        try:
            tcp_wait_ready(("127.0.0.1", port), tracker=t)
            log.add({"ev": "reset", "run": run_id, "max_scrape": 5, "max_peers": 10, "dual": dual})
            conns = {}
            for ip in ["127.0.0.2", "127.0.0.3"] + (["::1"]):
                conns[ip] = HttpConn(ip, ("::1", port) if ":" in ip else ("127.0.0.1", port))
            i = 0
            for rep in range(3):
                for ip, c in conns.items():
                    # query parameters named ip / ipv4 / ipv6 must not influence anything
                    path = announce_path(1, 6000 + rep) + rnd.choice(("", "&ip=8.8.8.8", "&ipv4=9.9.9.9&ip=%3A%3A1", "&ipv6=%3A%3A2"))
                    data = request_bytes(path)
                    ev = {"ev": "call", "conn": "a" + ip, "i": i, "kind": "announce", "src": src_desc(ip, mapped=dual),
                          "h": 1, "port": 6000 + rep, "event": "started", "left": 1, "numwant": -1, "hs": [], "cuts": [],
                          "len": len(data)}
                    idx = log.add(ev)
                    c.send_split(data, [])
                    log.set(idx, "reply", c.read_reply())
                    log.add({"ev": "ret", "conn": "a" + ip, "i": i})
                    i += 1
                for ip, c in conns.items():
                    do_request(log, c, "s" + ip, i, {"kind": "scrape", "hs": [1]}, rnd, mapped=dual)
                    i += 1
            for c in conns.values():
                c.close()
        finally:
            t.stop()
    # (b) behind a reverse proxy: the last address of the last occurrence of the configured header
    res = run_tlc(ctx, "ProxyHeader_MC", "ProxyHeader_MC.cfg", workers=4, timeout=300)
    require_mc_ok(ctx, res, "ProxyHeader layouts")
    layouts = [json.loads(tla_unquote(x)) for x in printed_tuples(res["out"], "LAYOUT")]
    if len(layouts) < 20:
        raise ToolError("proxy header layout generation failed")
    port = free_port(socket.SOCK_STREAM)
    t = Tracker(ctx, "http", http_config(port, 1, 1, True, max_scrape=5, max_peers=50, proxy=True, header="X-Real"),
                "c03_http_proxy")
    try:
        tcp_wait_ready(("127.0.0.1", port), tracker=t)
        log.add({"ev": "reset", "run": 502, "max_scrape": 5, "max_peers": 50, "proxy": True})
        c = HttpConn("127.0.0.2", ("127.0.0.1", port))
        addrs = {1: "10.1.1.1", 2: "10.2.2.2", 3: "10.3.3.3", 4: "fd00::4", 5: "::ffff:10.5.5.5"}
        if ctx.quick():
            rnd.shuffle(layouts)
            layouts = layouts[:60]
        for i, lay in enumerate(layouts):
            headers = []
            for hd in lay["headers"]:
                name = "X-Real" if hd["ours"] else "X-Other"
                vals = [addrs[a] for a in hd["values"]]
                sep = rnd.choice((",", ", ", " , ", ",\t"))
                headers.append("%s:%s%s%s" % (name, rnd.choice(("", " ", "  ")), sep.join(vals), rnd.choice(("", " "))))
            exp = addrs[lay["expect"]]
            srcd = {"class": "v4", "host": exp[7:]} if exp.startswith("::ffff:") else src_desc(exp)
            path = announce_path(1, 7000 + i % 5)
            data = request_bytes(path, headers)
            ev = {"ev": "call", "conn": "p", "i": i, "kind": "announce", "src": srcd, "h": 1, "port": 7000 + i % 5,
                  "event": "started", "left": 1, "numwant": -1, "hs": [], "cuts": [], "len": len(data),
                  "layout": lay}
            idx = log.add(ev)
            c.send_split(data, [])
            log.set(idx, "reply", c.read_reply())
            log.add({"ev": "ret", "conn": "p", "i": i})
        c.close()
        if not t.alive():
            raise ToolError("HTTP tracker (proxy mode) died: " + t.stderr()[-300:])
    finally:
        t.stop()
    tp = ctx.path("c03_http.ndjson")
    with open(tp, "w") as f:
        for e in log.events:
            f.write(json.dumps(e, separators=(",", ":")) + "\n")
    acc, fails = validate_and_report(ctx, "HttpServer_Trace", "HttpServer_Trace.cfg", tp, "http",
                                     lambda ev, p, s: {"tracker": "http", "part": "addresses"})
    ctx.coverage["http"] = {"direct_and_dual_stack_runs": 2, "proxy_header_layouts": len(layouts)}
