"""C04 - UDP shared swarm state is linearizable and deadlock-free."""
import random

from vlib import *
from storage import *


def real_hash(h):
    """The model has one shard; model torrent h is real torrent 1 + 16 (h - 1): same shard (info_hash[0] % 16)."""
    return 1 + 16 * (h - 1)


def conv_op(o):
    o = dict(o)
    if "key" in o:
        o["key"] = "k%d" % o["key"]
    if "h" in o:
        o["h"] = real_hash(o["h"])
    if "hs" in o:
        o["hs"] = [real_hash(h) for h in o["hs"]]
    return o


def conv_prog(progs):
    return {str(i + 1): [conv_op(o) for o in p] for i, p in enumerate(progs)}


def classify(ev, prefix, last_state):
    sig = {"tracker": "udp", "part": "concurrency"}
    if isinstance(ev, dict):
        sig["ev"] = ev.get("ev")
    return sig


def mutate_reply(evs):
    for i in range(len(evs) - 1, -1, -1):
        e = evs[i]
        if e.get("ev") == "call" and e["op"]["kind"] == "scrape":
            m = json.loads(json.dumps(evs))
            m[i]["reply"][-1] += 5
            return m, "scrape reply+5 at event %d" % i
    return None


def mutate_final(evs):
    """Add a peer nobody announced to the quiescent state."""
    for i in range(len(evs) - 1, -1, -1):
        e = evs[i]
        if e.get("ev") == "final":
            m = json.loads(json.dumps(evs))
            if m[i]["dump"]:
                m[i]["dump"][0][5].append(["k9", False, 5, 1])
            else:
                m[i]["dump"].append([4, 1, "small", -1, 1, [["k9", False, 5, 1]]])
            return m, "a peer nobody announced added to the final dump at event %d" % i
    return None


def run(ctx):
    quick = ctx.quick()
    # 1. the design: every interleaving of the catalogue's programs
    res = run_tlc(ctx, "UdpConc_MC", "UdpConc_MC_Q.cfg" if quick else "UdpConc_MC.cfg", workers=8,
                  timeout=1800, coverage=True, extra=["-deadlock"] if False else None)
    require_mc_ok(ctx, res, "UdpConc (linearizable, no lost announce, deadlock-free)")
    # ScrLockAll / ScrReadAll belong to the negative control (RecursiveScrape = TRUE) only
    zero = [a for a in coverage_zero_actions(res["out"], "UdpConc") if a not in ("ScrLockAll", "ScrReadAll")]
    if zero:
        raise ToolError("vacuity: actions never taken: %s" % zero)
    neg = run_tlc(ctx, "UdpConc_MC", "UdpConc_MC_NoGuard.cfg", workers=8, timeout=600)
    if neg["ok"] or not tlc_is_spec_violation(neg):
        raise ToolError("negative control failed: model without the Arc guard was not rejected")
    ctx.stage("negative-control", cfg="UdpConc_MC_NoGuard.cfg", error=neg["error"])
    neg2 = run_tlc(ctx, "UdpConc_MC", "UdpConc_MC_NegRecursive.cfg", workers=4, timeout=600)
    if neg2["ok"] or neg2.get("error") != "deadlock":
        raise ToolError("negative control failed: recursive shard read locking was not found to deadlock")
    ctx.stage("negative-control", cfg="UdpConc_MC_NegRecursive.cfg", error="deadlock (task-fair RwLock, recursive read)")
    if not quick:
        live = run_tlc(ctx, "UdpConc_MC", "UdpConc_MC_Live.cfg", workers=4, timeout=1200)
        require_mc_ok(ctx, live, "UdpConc termination under weak fairness")
    # 2. schedules from the model
    g1 = run_tlc(ctx, "UdpConc_Gen", "UdpConc_Gen.cfg", workers=1, timeout=900, name="gen_bfs")
    nsim = 300 if quick else 1500
    g2 = run_tlc(ctx, "UdpConc_Gen", "UdpConc_Sim.cfg", workers=1, timeout=900, name="gen_sim",
                 extra=["-simulate", "num=%d" % nsim, "-depth", "60", "-seed", str(ctx.seed)])
    scheds = []
    for g in (g1, g2):
        for x in printed_tuples(g["out"], "SCHED"):
            scheds.append(json.loads(tla_unquote(x)))
    if len(scheds) < 100:
        raise ToolError("schedule generation produced only %d schedules" % len(scheds))
    progs = {}
    jobs = []
    for i, s in enumerate(scheds):
        p = conv_prog(s["progs"])
        progs[json.dumps(p, sort_keys=True)] = p
        jobs.append({"run": i, "program": p, "strategy": {"kind": "schedule", "order": s["hist"]}})
    # 3. exploration of the real yield points: DFS, random schedules, real parallel threads
    plist = list(progs.values())
    rnd = random.Random(ctx.seed + 4)
    rnd.shuffle(plist)
    nprog = 12 if quick else len(plist)
    for j, p in enumerate(plist[:nprog]):
        jobs.append({"run": 100000 + 3 * j, "program": p, "strategy": {"kind": "dfs", "max_runs": 60 if quick else 150}})
        jobs.append({"run": 100001 + 3 * j, "program": p, "strategy": {"kind": "random", "runs": 60 if quick else 150}})
        jobs.append({"run": 100002 + 3 * j, "program": p, "strategy": {"kind": "free", "runs": 40 if quick else 100}})
    cargo_build(ctx)
    jpath = ctx.path("jobs.jsonl")
    tpath = ctx.path("sched_trace.ndjson")
    write_behaviours(jpath, jobs)
    p = run_harness(ctx, "udp_sched", [jpath, tpath], timeout=1800)
    ctx.stage("exec", note=p.stderr.strip().splitlines()[-1] if p.stderr.strip() else "")
    kinds = {}
    ndead = npanic = 0
    for line in open(tpath):
        if '"ev":"reset"' in line:
            k = json.loads(line)["kind"]
            kinds[k] = kinds.get(k, 0) + 1
        elif '"ev":"deadlock"' in line:
            ndead += 1
        elif '"ev":"panic"' in line:
            npanic += 1
    acc, fails = validate_and_report(ctx, "UdpLin_Trace", "UdpLin_Trace.cfg", tpath, "sched", classify)
    if not fails:
        binding_selftest(ctx, "UdpLin_Trace", "UdpLin_Trace.cfg", tpath, mutate_reply, label="selftest_reply")
        binding_selftest(ctx, "UdpLin_Trace", "UdpLin_Trace.cfg", tpath, mutate_final, label="selftest_final")
    ctx.coverage.update({
        "model_schedules_replayed": len(scheds), "distinct_programs": len(progs),
        "executions_by_kind": kinds, "deadlock_events": ndead, "panic_events": npanic,
        "rule": "TLC explores every interleaving (lock-acquisition granularity) of the catalogue's 3-thread "
                "programs on the model; one schedule per distinct quiescent model state plus simulated "
                "schedules are replayed on the real TorrentMaps by a cooperative scheduler built on the tracing "
                "RwLock wrapper; the real yield points are additionally explored depth-first and randomly, and "
                "the programs are run on free-running threads; every execution is checked for linearizability "
                "(TLC infers the linearization points) and its quiescent state against the reference store",
    })
    ctx.add_sample({"program": jobs[0]["program"], "schedule": jobs[0]["strategy"]["order"]})
    ctx.assumptions += [
        "interleavings inside a critical section are not explored (they are protected by the lock the wrapper observes)",
        "a cleaning pass is a sequence of per-torrent atomic units (DESIGN.md section 5 C04)",
        "memory-model effects below lock granularity are out of scope",
    ]
