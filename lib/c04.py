"""C04 - UDP shared swarm state is linearizable and deadlock-free."""
import random

from vlib import *
from storage import *


def real_hash(h):
    """The model has one shard; model torrent h is real torrent 1 + 16 (h - 1): same shard (info_hash[0] % 16)."""
    return 1 + 16 * (h - 1)


def conv_op(o):
    o = dict(o)
    if "key" in o:
        o["key"] = "k%d" % o["key"]
    if "h" in o:
        o["h"] = real_hash(o["h"])
    if "hs" in o:
        o["hs"] = [real_hash(h) for h in o["hs"]]
    return o


def conv_prog(progs):
    return {str(i + 1): [conv_op(o) for o in p] for i, p in enumerate(progs)}


def classify(ev, prefix, last_state):
    sig = {"tracker": "udp", "part": "concurrency"}
    if isinstance(ev, dict):
        sig["ev"] = ev.get("ev")
    return sig


def mutate_reply(evs):
    for i in range(len(evs) - 1, -1, -1):
        e = evs[i]
        if e.get("ev") == "call" and e["op"]["kind"] == "scrape":
            m = json.loads(json.dumps(evs))
            m[i]["reply"][-1] += 5
            return m, "scrape reply+5 at event %d" % i
    return None


def mutate_final(evs):
    """Add a peer nobody announced to the quiescent state."""
    for i in range(len(evs) - 1, -1, -1):
        e = evs[i]
        if e.get("ev") == "final":
            m = json.loads(json.dumps(evs))
            if m[i]["dump"]:
                m[i]["dump"][0][5].append(["k9", False, 5, 1])
            else:
                m[i]["dump"].append([4, 1, "small", -1, 1, [["k9", False, 5, 1]]])
            return m, "a peer nobody announced added to the final dump at event %d" % i
    return None


def lock_level_pass(ctx, full, nlock):
    """Strict pass: every controlled execution (model schedules, DFS, random) validated at lock granularity
    against UdpConc itself - each acquisition the wrapper saw is the UdpConc action that performs it.  This is
    what carries the model's deadlock-freedom over to the code's lock discipline.  Rejection = model drift."""
    runs = split_runs(full)
    ctl = [r for r in runs if '"kind":"free"' not in r[0]]
    if not ctx.quick():
        sel = ctl
    else:
        # quick: every replayed model schedule and a share of the DFS / random executions
        sel = [r for r in ctl if '"kind":"schedule"' in r[0]]
        rest = [r for r in ctl if '"kind":"schedule"' not in r[0]]
        sel += rest[::4]
    lpath = ctx.path("lock_trace.ndjson")
    nev = 0
    with open(lpath, "w") as f:
        for r in sel:
            f.writelines(r)
            nev += len(r)
    res = validate_trace(ctx, "UdpConc_Trace", "UdpConc_Trace.cfg", lpath, name="lock_level", timeout=1500)
    info = {"runs": len(sel), "events": nev, "lock_events_recorded": nlock, "accepted": res["accepted"]}
    ctx.coverage.setdefault("strict_pass", {})["lock_level"] = info
    if res["accepted"]:
        ctx.stage("strict:lock_level", **info)
        # binding self-test of the strict pass: drop one acquisition event - must be rejected
        evs = [json.loads(x) for x in sel[0]]
        idx = [i for i, e in enumerate(evs) if e.get("ev") == "acq"]
        if idx:
            mut = evs[:idx[len(idx) // 2]] + evs[idx[len(idx) // 2] + 1:]
            mp = ctx.path("lock_selftest.ndjson")
            with open(mp, "w") as f:
                for e in mut:
                    f.write(json.dumps(e) + "\n")
            r2 = validate_trace(ctx, "UdpConc_Trace", "UdpConc_Trace.cfg", mp, name="lock_selftest")
            if r2["accepted"]:
                raise ToolError("binding self-test: a lock trace with one acquisition removed was ACCEPTED by UdpConc_Trace")
            ctx.stage("selftest", mutation="one acq event removed from a lock-level trace", rejected_at=r2["matched"] + 1)
        return True
    ctx.model_drift = {"label": "lock_level", "first_mismatch_index": res["matched"] + 1,
                       "event": json.dumps(res["event"])[:600], "last_state": res["last_state"]}
    log("MODEL-DRIFT (no verdict): the code's lock sequence no longer matches UdpConc at event %d: %s"
        % (res["matched"] + 1, json.dumps(res["event"])[:300]))
    return False


def run(ctx):
    quick = ctx.quick()
    # 1. the design: every interleaving of the catalogue's programs
    res = run_tlc(ctx, "UdpConc_MC", "UdpConc_MC_Q.cfg" if quick else "UdpConc_MC.cfg", workers=8,
                  timeout=1800, coverage=True, extra=["-deadlock"] if False else None)
    require_mc_ok(ctx, res, "UdpConc (linearizable, no lost announce, deadlock-free)")
    # ScrLockAll / ScrReadAll belong to the negative control (RecursiveScrape = TRUE) only
    zero = [a for a in coverage_zero_actions(res["out"], "UdpConc") if a not in ("ScrLockAll", "ScrReadAll")]
    if zero:
        raise ToolError("vacuity: actions never taken: %s" % zero)
    neg = run_tlc(ctx, "UdpConc_MC", "UdpConc_MC_NoGuard.cfg", workers=8, timeout=600)
    if neg["ok"] or not tlc_is_spec_violation(neg):
        raise ToolError("negative control failed: model without the Arc guard was not rejected")
    ctx.stage("negative-control", cfg="UdpConc_MC_NoGuard.cfg", error=neg["error"])
    neg2 = run_tlc(ctx, "UdpConc_MC", "UdpConc_MC_NegRecursive.cfg", workers=4, timeout=600)
    if neg2["ok"] or neg2.get("error") != "deadlock":
        raise ToolError("negative control failed: recursive shard read locking was not found to deadlock")
    ctx.stage("negative-control", cfg="UdpConc_MC_NegRecursive.cfg", error="deadlock (task-fair RwLock, recursive read)")
    if not quick:
        live = run_tlc(ctx, "UdpConc_MC", "UdpConc_MC_Live.cfg", workers=4, timeout=1200)
        require_mc_ok(ctx, live, "UdpConc termination under weak fairness")
    # 2. schedules from the model
    g1 = run_tlc(ctx, "UdpConc_Gen", "UdpConc_Gen.cfg", workers=1, timeout=900, name="gen_bfs")
    nsim = 300 if quick else 1500
    g2 = run_tlc(ctx, "UdpConc_Gen", "UdpConc_Sim.cfg", workers=1, timeout=900, name="gen_sim",
                 extra=["-simulate", "num=%d" % nsim, "-depth", "60", "-seed", str(ctx.seed)])
    scheds = []
    for g in (g1, g2):
        for x in printed_tuples(g["out"], "SCHED"):
            scheds.append(json.loads(tla_unquote(x)))
    if len(scheds) < 100:
        raise ToolError("schedule generation produced only %d schedules" % len(scheds))
    progs = {}
    jobs = []
    for i, s in enumerate(scheds):
        p = conv_prog(s["progs"])
        progs[json.dumps(p, sort_keys=True)] = p
        jobs.append({"run": i, "program": p, "strategy": {"kind": "schedule", "order": s["hist"]}})
    # 3. exploration of the real yield points: DFS, random schedules, real parallel threads
    plist = list(progs.values())
    rnd = random.Random(ctx.seed + 4)
    rnd.shuffle(plist)
    nprog = 12 if quick else len(plist)
    for j, p in enumerate(plist[:nprog]):
        jobs.append({"run": 100000 + 3 * j, "program": p, "strategy": {"kind": "dfs", "max_runs": 60 if quick else 150}})
        jobs.append({"run": 100001 + 3 * j, "program": p, "strategy": {"kind": "random", "runs": 60 if quick else 150}})
        jobs.append({"run": 100002 + 3 * j, "program": p, "strategy": {"kind": "free", "runs": 40 if quick else 100}})
    cargo_build(ctx)
    jpath = ctx.path("jobs.jsonl")
    tpath = ctx.path("sched_trace.ndjson")
    write_behaviours(jpath, jobs)
    p = run_harness(ctx, "udp_sched", [jpath, tpath], timeout=1800)
    ctx.stage("exec", note=p.stderr.strip().splitlines()[-1] if p.stderr.strip() else "")
    # the executor logs lock events (acq / rel) as well: the op-level (deciding) pass sees calls, returns and
    # the quiescent state only; the lock-level (strict) pass below sees everything
    full = tpath
    tpath = ctx.path("sched_trace_ops.ndjson")
    nlock = 0
    with open(tpath, "w") as f:
        for line in open(full):
            if '"ev":"acq"' in line or '"ev":"rel"' in line:
                nlock += 1
                continue
            f.write(line)
    kinds = {}
    ndead = npanic = 0
    for line in open(tpath):
        if '"ev":"reset"' in line:
            k = json.loads(line)["kind"]
            kinds[k] = kinds.get(k, 0) + 1
        elif '"ev":"deadlock"' in line:
            ndead += 1
        elif '"ev":"panic"' in line:
            npanic += 1
    acc, fails = validate_and_report(ctx, "UdpLin_Trace", "UdpLin_Trace.cfg", tpath, "sched", classify)
    if not fails:
        binding_selftest(ctx, "UdpLin_Trace", "UdpLin_Trace.cfg", tpath, mutate_reply, label="selftest_reply")
        binding_selftest(ctx, "UdpLin_Trace", "UdpLin_Trace.cfg", tpath, mutate_final, label="selftest_final")
    if not fails:
        lock_level_pass(ctx, full, nlock)
    ctx.coverage.update({
        "model_schedules_replayed": len(scheds), "distinct_programs": len(progs),
        "executions_by_kind": kinds, "deadlock_events": ndead, "panic_events": npanic,
        "rule": "TLC explores every interleaving (lock-acquisition granularity) of the catalogue's 3-thread "
                "programs on the model; one schedule per distinct quiescent model state plus simulated "
                "schedules are replayed on the real TorrentMaps by a cooperative scheduler built on the tracing "
                "RwLock wrapper; the real yield points are additionally explored depth-first and randomly, and "
                "the programs are run on free-running threads; every execution is checked for linearizability "
                "(TLC infers the linearization points) and its quiescent state against the reference store",
    })
    ctx.add_sample({"program": jobs[0]["program"], "schedule": jobs[0]["strategy"]["order"]})
    ctx.assumptions += [
        "interleavings inside a critical section are not explored (they are protected by the lock the wrapper observes)",
        "a cleaning pass is a sequence of per-torrent atomic units (DESIGN.md section 5 C04)",
        "memory-model effects below lock granularity are out of scope",
    ]
