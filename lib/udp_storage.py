"""UDP swarm storage: behaviours, random driver, classification."""
import random

from vlib import *
from storage import *

ANN_ARGS = ("name", "t", "key", "event", "left", "numwant", "deadline", "pid")


def arg_filter(op):
    n = op["name"]
    if n == "announce":
        return {k: op[k] for k in ANN_ARGS}
    if n == "scrape":
        return {"name": n, "fam": op["fam"], "hs": op["hs"]}
    if n == "clean":
        return {"name": n, "now": op["now"]}
    raise ToolError("unknown model op " + n)


def to_exec_op(a):
    n = a["name"]
    if n == "announce":
        return {"op": "announce", "fam": a["t"][0], "h": a["t"][1], "key": a["key"],
                "event": a["event"], "left": a["left"], "numwant": a["numwant"],
                "deadline": a["deadline"], "pid": a["pid"]}
    if n == "scrape":
        return {"op": "scrape", "fam": a["fam"], "hs": a["hs"]}
    if n == "clean":
        return {"op": "clean", "now": a["now"], "export": True}
    raise ToolError("unknown op " + n)


def random_behaviours(seed, nruns, nops, nkeys=12, hashes=(1, 2, 17, 300), pids=(1, 2, 3, 4),
                      max_resps=(0, 1, 2, 3, 5, 30), time_bias=False, pid_bias=False, first_run=0):
    rnd = random.Random(seed)
    out = []
    for r in range(nruns):
        max_resp = rnd.choice(max_resps)
        hot = (rnd.choice((4, 6)), rnd.choice(hashes))
        ops = []
        clock = 0
        for _ in range(nops):
            x = rnd.random()
            if x < 0.72:
                t = hot if rnd.random() < 0.6 else (rnd.choice((4, 6)), rnd.choice(hashes))
                left = rnd.choice((-1, 0, 0, 1, 1))
                op = {"op": "announce", "fam": t[0], "h": t[1],
                      "key": "k%d" % rnd.randrange(nkeys if rnd.random() < 0.8 else 4),
                      "event": rnd.choice(("none", "started", "completed", "stopped", "none", "started")),
                      "left": left,
                      "numwant": rnd.choice((I32_MIN, -1, 0, 1, 2, 3, 4, 50, I32_MAX)),
                      "deadline": (clock + rnd.choice((1, 2, 3))) if time_bias else rnd.randrange(1, 7),
                      "pid": rnd.choice(pids) if (pid_bias or rnd.random() < 0.3) else 1}
                if left != 0 and rnd.random() < 0.3:
                    op["leftval"] = "max" if left > 0 else "min"
                ops.append(op)
            elif x < 0.87:
                n = rnd.choice((1, 1, 2, 3, 5))
                ops.append({"op": "scrape", "fam": rnd.choice((4, 6)),
                            "hs": [rnd.choice(hashes + (999,)) for _ in range(n)]})
            else:
                if time_bias:
                    clock += rnd.choice((0, 1, 1, 2))
                    now = clock
                else:
                    now = rnd.randrange(0, 8)
                ops.append({"op": "clean", "now": now, "export": rnd.random() < 0.8})
        out.append({"run": first_run + r,
                    "cfg": {"max_resp": max_resp, "mode": "off",
                            # the storage takes different paths with per-client statistics off (the default)
                            "peer_clients": True if pid_bias else rnd.random() < 0.5},
                    "ops": ops})
    return out


def classify(ev, prefix, last_state):
    """Signature of a rejected event for known-findings matching."""
    sig = {"tracker": "udp"}
    if isinstance(ev, dict):
        sig["ev"] = ev.get("ev")
    return sig


def mutate_counts(evs):
    """Self-test mutation: bump the seeder count of the last announce reply."""
    for i in range(len(evs) - 1, -1, -1):
        if evs[i].get("ev") == "announce":
            m = [dict(e) for e in evs]
            m[i] = json.loads(json.dumps(evs[i]))
            m[i]["reply"]["seeders"] += 1
            return m, "announce reply seeders+1 at event %d" % i
    return None
