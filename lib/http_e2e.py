"""Black-box driver for a running HTTP tracker (C16, C03-http, C18-http)."""
import random
import socket
import threading
import time
import urllib.parse

from vlib import *
from net import *


USE_TLS = False          # HttpConn wraps its socket in TLS (certificate not verified) while this is set


def make_cert(ctx, name, cn="localhost"):
    """A throw-away self-signed certificate + PKCS#8 key (openssl). -> (cert path, key path, sha256 of the DER cert)"""
    import hashlib
    import ssl
    cert = ctx.path(name + "_cert.pem")
    key = ctx.path(name + "_key.pem")
    p = subprocess.run(["openssl", "req", "-x509", "-newkey", "rsa:2048", "-nodes", "-keyout", key, "-out", cert,
                        "-subj", "/CN=" + cn, "-days", "2"], capture_output=True, text=True)
    if p.returncode != 0:
        raise ToolError("openssl could not create a certificate: " + p.stderr[-300:])
    der = ssl.PEM_cert_to_DER_cert(open(cert).read())
    return cert, key, hashlib.sha256(der).hexdigest()


def tls_wrap(sock, server_hostname=None):
    import ssl
    c = ssl.SSLContext(ssl.PROTOCOL_TLS_CLIENT)
    c.check_hostname = False
    c.verify_mode = ssl.CERT_NONE
    return c.wrap_socket(sock, server_hostname=server_hostname)


def http_config(port, socket_workers=1, swarm_workers=1, keep_alive=True, max_scrape=100, max_peers=50,
                proxy=False, header="X-Forwarded-For", mode="off", alist=None, dual=False, tls=None):
    cfg = _http_config(port, socket_workers, swarm_workers, keep_alive, max_scrape, max_peers, proxy, header, mode,
                       alist, dual)
    if tls:
        cfg["network"].update({"enable_tls": True, "tls_certificate_path": tls[0], "tls_private_key_path": tls[1]})
    return cfg


def _http_config(port, socket_workers, swarm_workers, keep_alive, max_scrape, max_peers, proxy, header, mode, alist,
                 dual):
    return {
        "socket_workers": socket_workers,
        "swarm_workers": swarm_workers,
        "network": {
            "use_ipv4": not dual, "use_ipv6": True,
            "address_ipv4": "127.0.0.1:%d" % port,
            "address_ipv6": ("[::]:%d" % port) if dual else ("[::1]:%d" % port),
            "set_only_ipv6": not dual,
            "keep_alive": keep_alive,
            "runs_behind_reverse_proxy": proxy,
            "reverse_proxy_ip_header_name": header,
        },
        "protocol": {"max_scrape_torrents": max_scrape, "max_peers": max_peers},
        "cleaning": {"torrent_cleaning_interval": 3600, "connection_cleaning_interval": 3600,
                     "max_peer_age": 3600, "max_connection_idle": 3600},
        "access_list": {"mode": mode, "path": alist or "/nonexistent"},
    }


def pct(b):
    return "".join("%%%02x" % x for x in b)


def announce_path(h, port, event="started", left=1, numwant=None, pid=1, raw_hash=None):
    q = "info_hash=%s&peer_id=%s&port=%d&uploaded=0&downloaded=0&left=%d&compact=1" % (
        pct(raw_hash if raw_hash is not None else info_hash(h)), pct(peer_id(pid)), port, left)
    if event != "none":
        q += "&event=" + event
    if numwant is not None:
        q += "&numwant=%d" % numwant
    return "/announce?" + q


def scrape_path(hs):
    return "/scrape?" + "&".join("info_hash=" + pct(info_hash(h)) for h in hs)


def request_bytes(path, headers=()):
    lines = ["GET %s HTTP/1.1" % path, "Host: localhost"] + list(headers)
    return ("\r\n".join(lines) + "\r\n\r\n").encode("latin-1")


# --- bencode (the harness's own decoder) -----------------------------------

def bdecode(data, i=0):
    c = data[i:i + 1]
    if c == b"i":
        j = data.index(b"e", i)
        return int(data[i + 1:j]), j + 1
    if c == b"l":
        i += 1
        out = []
        while data[i:i + 1] != b"e":
            v, i = bdecode(data, i)
            out.append(v)
        return out, i + 1
    if c == b"d":
        i += 1
        out = {}
        while data[i:i + 1] != b"e":
            k, i = bdecode(data, i)
            v, i = bdecode(data, i)
            out[k] = v
        return out, i + 1
    j = data.index(b":", i)
    n = int(data[i:j])
    return data[j + 1:j + 1 + n], j + 1 + n


def rev_hash(b):
    h = int.from_bytes(b[1:5], "big")
    return h if info_hash(h) == bytes(b) else -1


def parse_reply(body):
    """Body (without the final CRLF) -> abstract reply dict."""
    try:
        d, end = bdecode(body)
    except Exception:
        return {"kind": "undecodable"}
    if end != len(body) or not isinstance(d, dict):
        return {"kind": "undecodable"}
    if b"failure reason" in d:
        return {"kind": "failure"}
    if b"files" in d:
        files = sorted([rev_hash(k), v.get(b"complete", -1), v.get(b"incomplete", -1)] for k, v in d[b"files"].items())
        return {"kind": "scrape", "files": files}
    if b"complete" in d:
        peers = []
        p4 = d.get(b"peers", b"")
        p6 = d.get(b"peers6", b"")
        ok = len(p4) % 6 == 0 and len(p6) % 18 == 0
        for i in range(0, len(p4) - 5, 6):
            peers.append([socket.inet_ntop(socket.AF_INET, p4[i:i + 4]), int.from_bytes(p4[i + 4:i + 6], "big"), 4])
        for i in range(0, len(p6) - 17, 18):
            peers.append([socket.inet_ntop(socket.AF_INET6, p6[i:i + 16]), int.from_bytes(p6[i + 16:i + 18], "big"), 6])
        return {"kind": "announce", "complete": d[b"complete"], "incomplete": d[b"incomplete"],
                "peers": peers, "compact_ok": ok}
    return {"kind": "undecodable"}


class HttpConn:
    def __init__(self, src_ip, server, quiet=0.02):
        self.fam = socket.AF_INET6 if ":" in src_ip else socket.AF_INET
        self.sock = socket.socket(self.fam, socket.SOCK_STREAM)
        self.sock.setsockopt(socket.IPPROTO_TCP, socket.TCP_NODELAY, 1)
        self.sock.bind((src_ip, 0))
        self.sock.settimeout(5.0 * load_factor())
        self.sock.connect(server)
        if USE_TLS:
            # every sendall() below becomes its own TLS record, so request segmentation is preserved
            self.sock = tls_wrap(self.sock)
            self.sock.settimeout(5.0 * load_factor())
        self.src_ip = src_ip
        self.quiet = quiet
        self.buf = b""

    def send_split(self, data, cuts):
        pos = 0
        for c in sorted(set(cuts)) + [len(data)]:
            if c <= pos or c > len(data):
                continue
            self.sock.sendall(data[pos:c])
            pos = c
            if pos < len(data):
                time.sleep(0.004)

    def read_reply(self, timeout=5.0):
        """-> dict(outcome, status, content_length, framed, extra, reply)"""
        t_end = time.monotonic() + timeout
        self.sock.settimeout(0.2)
        closed = False

        def more():
            nonlocal closed
            try:
                chunk = self.sock.recv(65536)
            except socket.timeout:
                return False
            except OSError:
                closed = True
                return False
            if not chunk:
                closed = True
                return False
            self.buf += chunk
            return True

        while b"\r\n\r\n" not in self.buf:
            if closed or time.monotonic() > t_end:
                return {"outcome": "closed" if closed else "timeout", "partial": len(self.buf)}
            more()
        head, rest = self.buf.split(b"\r\n\r\n", 1)
        lines = head.split(b"\r\n")
        status = -1
        try:
            status = int(lines[0].split(b" ")[1])
        except Exception:
            pass
        clen = None
        for ln in lines[1:]:
            if ln.lower().startswith(b"content-length:"):
                v = ln.split(b":", 1)[1].strip()
                if v.isdigit():
                    clen = int(v)
        if clen is None:
            self.buf = b""
            return {"outcome": "reply", "status": status, "content_length": -1, "framed": False, "extra": len(rest),
                    "reply": {"kind": "undecodable"}}
        self.buf = rest
        while len(self.buf) < clen:
            if closed or time.monotonic() > t_end:
                got = len(self.buf)
                self.buf = b""
                return {"outcome": "reply", "status": status, "content_length": clen, "framed": False,
                        "extra": got - clen, "reply": {"kind": "undecodable"}}
            more()
        body = self.buf[:clen]
        self.buf = self.buf[clen:]
        # nothing else may arrive before the next request is sent
        self.sock.settimeout(self.quiet)
        more()
        extra = len(self.buf)
        self.buf = b""
        framed = body.endswith(b"\r\n")
        return {"outcome": "reply", "status": status, "content_length": clen, "framed": framed, "extra": extra,
                "reply": parse_reply(body[:-2] if framed else body), "server_closed": closed}

    def close(self, rst=False):
        try:
            if rst:
                self.sock.setsockopt(socket.SOL_SOCKET, socket.SO_LINGER, struct.pack("ii", 1, 0))
            self.sock.close()
        except OSError:
            pass


class Log:
    """Global, lock-protected event log: `call` before the request is written, `ret` after the reply."""

    def __init__(self):
        self.lock = threading.Lock()
        self.events = []

    def add(self, ev):
        with self.lock:
            self.events.append(ev)
            return len(self.events) - 1

    def set(self, idx, key, val):
        with self.lock:
            self.events[idx][key] = val


def src_desc(ip, mapped=False):
    if ":" in ip:
        return {"class": "v6", "host": ip}
    return {"class": "v4mapped" if mapped else "v4", "host": ip}


def do_request(log, conn, cname, i, req, rnd, headers=(), mapped=False, src_override=None):
    """req: dict(kind=announce|scrape|bad|oversized, ...).  Logs call/ret; returns the outcome dict."""
    if req["kind"] == "announce":
        path = announce_path(req["h"], req["port"], req.get("event", "started"), req.get("left", 1),
                             req.get("numwant"))
    elif req["kind"] == "scrape":
        path = scrape_path(req["hs"])
    elif req["kind"] == "oversized":
        path = "/announce?info_hash=" + "A" * 3000
    else:
        path = rnd.choice(["/announce?info_hash=abc&port=1", "/nonsense", "/announce", "/scrape?info_hash=short"])
    data = request_bytes(path, headers)
    if req["kind"] == "bad" and rnd.random() < 0.3:
        data = b"BLAH " + bytes(rnd.randrange(32, 127) for _ in range(40)) + b"\r\n\r\n"
    ncuts = req.get("ncuts", 0)
    cuts = req.get("cuts") or sorted(rnd.sample(range(1, len(data)), min(ncuts, len(data) - 1)))
    if req.get("tail_cut"):
        cuts = sorted(set(cuts + [len(data) - req["tail_cut"]]))
    ev = {"ev": "call", "conn": cname, "i": i, "kind": req["kind"], "src": src_override or src_desc(conn.src_ip, mapped),
          "h": req.get("h", 0), "port": req.get("port", 0), "event": req.get("event", "started"),
          "left": req.get("left", 1), "numwant": req.get("numwant", -1) if req.get("numwant") is not None else -1,
          "hs": req.get("hs", []), "cuts": cuts, "len": len(data)}
    idx = log.add(ev)
    try:
        conn.send_split(data, cuts)
        out = conn.read_reply()
    except OSError as e:
        out = {"outcome": "closed", "error": str(e)[:60]}
    log.set(idx, "reply", out)
    log.add({"ev": "ret", "conn": cname, "i": i})
    return out


# ---------------------------------------------------------------------------
# C03, HTTP part: TCP sources and reverse-proxy header layouts

def c03_part(ctx):
    import c16
    c16.c03_http(ctx)
