"""C03 - Stored peer addresses are the real source addresses (UDP, HTTP, WebTorrent)."""
import random

from vlib import *
from storage import *
from net import *
from udp_e2e import *
import c06


def udp_scenario(ctx, backend, sockets, rnd, trace, run_id):
    """sockets: 'v4' | 'v6' | 'dual' (only a [::] dual-stack socket) | 'both' | 'both_dual' (plain IPv4
    socket and a dual-stack socket on another port: one host reached both ways)."""
    port = free_port()
    port2 = free_port()
    cfg = udp_config(port, backend, mode="off", sockets="dual" if sockets == "both_dual" else sockets,
                     max_scrape=5, max_resp=10)
    if sockets == "both_dual":
        cfg["network"]["use_ipv4"] = True
        cfg["network"]["address_ipv6"] = "[::]:%d" % port2
    t = Tracker(ctx, "udp", cfg, "c03_%s_%s" % (backend, sockets))
    drv = None
    n = 0
    try:
        reset = {"ev": "reset", "run": run_id, "backend": backend, "sockets": sockets, "max_scrape": 5,
                 "max_resp": 10, "forbidden": []}
        probes = [("::1", "::1")] if sockets == "v6" else [("127.0.0.1", "127.0.0.1")]
        if sockets in ("both", "both_dual", "dual"):
            probes.append(("::1", "::1"))
        for srv_ip, ip in probes:
            srv_port = port2 if (sockets == "both_dual" and ":" in srv_ip) else port
            if not ready_or_record(trace, t, (srv_ip, srv_port), ip, reset):
                return 0
        trace.append(reset)
        dual_only = sockets == "dual"
        drv = Driver(ctx, ("127.0.0.1", port), ("::1", port if sockets != "both_dual" else port2), trace, rnd,
                     dual=dual_only)
        clients = []
        if sockets != "v6":
            clients += [drv.client("127.0.0.2", "A"), drv.client("127.0.0.3", "B")]
        if sockets != "v4":
            clients += [drv.client("::1", "D"), drv.client("::1", "E")]
        ids = {}

        def connect(name):
            r = drv.send(name, connect_req(drv.next_txid()), {"class": "connect_ok", "conn": "none", "txid": drv.txid}, True)
            if not r or r.get("kind") != "connect":
                # the tracker is up (readiness was probed): an unanswered connect is data - the pending
                # request is rejected at the next quiet event - and this client takes no further part
                return False
            ids[name] = r["conn_id"]
            return True

        clients = [c for c in clients if connect(c)]
        if sockets == "both_dual":
            # the same IPv4 hosts once more, through the dual-stack socket
            for nm, ip in (("A2", "127.0.0.2"), ("B2", "127.0.0.3")):
                drv.client(ip, nm)
                drv.socks[nm].server = ("127.0.0.1", port2)
                drv.mapped = getattr(drv, "mapped", set()) | {nm}
                if connect(nm):
                    clients.append(nm)
        orig_src = drv.src_of

        def src_of(name):
            s = orig_src(name)
            if name in getattr(drv, "mapped", set()):
                s = {"class": "v4mapped", "host": s["host"]}
            return s
        drv.src_of = src_of

        def ann(who, h, aport, ipfield, event="started", left=1):
            tx = drv.next_txid()
            data = announce_req(ids[who], tx, info_hash(h), peer_id(1), left, event, aport, ip=ipfield)
            return drv.send(who, data, {"class": "announce_ok", "conn": "valid", "txid": tx, "h": h, "port": aport,
                                        "event": event, "left": left, "numwant": -1, "ipfield": ipfield}, True)

        def scr(who, hs):
            tx = drv.next_txid()
            return drv.send(who, scrape_req(ids[who], tx, [info_hash(x) for x in hs]),
                            {"class": "scrape_ok", "conn": "valid", "txid": tx, "hs": hs}, True)

        ipfields = [0, 0x08080808, 0x7F000003, 0xFFFFFFFF, 0x7F000002]
        for rep in range(3):
            for c in clients:
                ann(c, 1, 6000 + rnd.randrange(4), rnd.choice(ipfields), left=rnd.choice((0, 1)))
                n += 1
            for c in clients:
                scr(c, [1, 2])
                n += 1
        # the same (host, port) announced through both paths is one peer; then it stops through the other path
        if sockets == "both_dual" and all(x in ids for x in ("A", "A2", "B", "B2")):
            ann("A", 2, 6100, 0)
            ann("A2", 2, 6100, 0x08080808)
            ann("B", 2, 6200, 0)
            ann("B2", 2, 6100, 0)
            ann("A2", 2, 6100, 0, event="stopped")
            ann("B", 2, 6300, 0)
            scr("A", [2])
            n += 7
        drv.quiet(0.3)
        if not t.alive():
            trace.append({"ev": "tracker_died", "stderr": t.stderr()[-600:]})
    finally:
        if drv:
            drv.close()
        t.stop()
    return n


def mutate_peer_addr(evs):
    """Replace a returned peer address by the in-request ip field's address."""
    for i in range(len(evs) - 1, -1, -1):
        e = evs[i]
        if e.get("ev") == "recv" and e.get("kind") == "announce" and e.get("peers"):
            m = json.loads(json.dumps(evs))
            m[i]["peers"][0][0] = "8.8.8.8" if e["fam"] == 4 else "::8"
            return m, "peer address replaced by a foreign address at event %d" % i
    return None


def run(ctx):
    rnd = random.Random(ctx.seed + 33)
    res = run_tlc(ctx, "UdpServer_MC", "UdpServer_MC.cfg", workers=8, timeout=600)
    require_mc_ok(ctx, res, "UdpServer: StoredKeysAreSources, FamilyOfSender")
    cargo_build(ctx)
    trace = []
    combos = []
    for backend in ("mio", "uring"):
        for sockets in ("v4", "v6", "dual", "both", "both_dual"):
            if ctx.quick() and backend == "uring" and sockets in ("v4", "v6"):
                continue
            combos.append((backend, sockets))
    done = {}
    for k, (backend, sockets) in enumerate(combos):
        try:
            done["%s/%s" % (backend, sockets)] = udp_scenario(ctx, backend, sockets, rnd, trace, k)
        except ToolError as e:
            if backend == "uring" and "exited during start-up" in str(e):
                done["%s/%s" % (backend, sockets)] = "not exercised: " + str(e)[:120]
                continue
            raise
    tp = ctx.path("c03_udp.ndjson")
    with open(tp, "w") as f:
        for e in trace:
            f.write(json.dumps(e, separators=(",", ":")) + "\n")
    acc, fails = validate_and_report(ctx, "UdpServer_Trace", "UdpServer_Trace.cfg", tp, "udp", c06.classify,
                                     max_failures=10)
    if not ctx.violations:
        binding_selftest(ctx, "UdpServer_Trace", "UdpServer_Trace.cfg", tp, mutate_peer_addr)
    ctx.coverage.update({
        "udp_socket_configurations": done,
        "rule": "running UDP trackers (both backends) under IPv4-only, IPv6-only, dual-stack-only, both, and "
                "plain-IPv4 + dual-stack socket configurations; clients on 127.0.0.2/3 and ::1 announce with "
                "in-request ip field in {0, 8.8.8.8, 127.0.0.3, 255.255.255.255, own}; every reply's peer "
                "addresses, family and counts are validated by TLC against the reference keyed by the network "
                "source (mapped sources canonicalised)",
    })
    ctx.add_sample([e for e in trace if e.get("ev") in ("send", "recv")][:4])
    ctx.assumptions += ["only loopback addresses exist in the sandbox (127.0.0.0/8, ::1)",
                        "HTTP and WebTorrent parts: see coverage keys http / ws"]
    extra_parts(ctx)


def extra_parts(ctx):
    """HTTP (TCP source, reverse-proxy header layouts) and WebTorrent parts; filled in by c16/c17 machinery."""
    try:
        import http_e2e
        http_e2e.c03_part(ctx)
    except ImportError:
        ctx.coverage["http"] = "not built yet"
    try:
        import ws_e2e
        ws_e2e.c03_part(ctx)
    except ImportError:
        ctx.coverage["ws"] = "not built yet"
