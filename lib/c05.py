"""C05 - UDP connection ids are bound to source IP and time window."""
import random

from vlib import *
from storage import *

B = 1 << 20
U32 = (1 << 32) - 1


def big(n):
    return [n // B, n % B]


def unbig(p):
    return p[0] * B + p[1]


IPS = [["v4", 1], ["map", 1], ["v6", 1], ["v4", 2], ["map", 2], ["v6", 2]]


def case_runs(cases, rnd, first_run):
    """One run per (age, issue time): issue to three addresses at t, then for every check time c of the
    boundary grid: check from the same / the mapped / another address, altered ids, ids of another
    validator instance."""
    groups = {}
    for c in cases:
        groups.setdefault((unbig(c["age"]), unbig(c["t"])), []).append(unbig(c["c"]))
    out = []
    run = first_run
    for (age, t), cs in sorted(groups.items()):
        ops = [{"op": "clock", "t": big(t)}]
        for ip in (["v4", 1], ["v6", 1], ["map", 2]):
            ops.append({"op": "issue", "ip": ip})
        for c in sorted(set(cs)):
            ops.append({"op": "clock", "t": big(c)})
            ops.append({"op": "check", "ip": ["v4", 1], "id": {"ref": 0}})
            ops.append({"op": "check", "ip": ["map", 1], "id": {"ref": 0}})     # same host through dual stack
            ops.append({"op": "check", "ip": ["v6", 1], "id": {"ref": 1}})
            ops.append({"op": "check", "ip": ["v4", 2], "id": {"ref": 2}})      # issued to the mapped form
            ops.append({"op": "check", "ip": ["v4", 2], "id": {"ref": 0}})      # issued for another address
            ops.append({"op": "check", "ip": ["v6", 1], "id": {"ref": 0}})
            ops.append({"op": "check", "ip": ["v6", 2], "id": {"ref": 1}})      # another IPv6 address, same /96
            ops.append({"op": "check", "ip": ["v6", 300], "id": {"ref": 1}})
            ops.append({"op": "check", "ip": ["v4", 1], "id": {"foreign": 0}})  # another validator instance
            ops.append({"op": "check", "ip": ["v4", 1], "id": {"ref": 0, "flip": [rnd.randrange(64)]}})
            ops.append({"op": "check", "ip": ["v4", 1], "id": {"ref": 0, "flip": rnd.sample(range(64), 2)}})
            ops.append({"op": "check", "ip": ["v4", 1], "id": {"raw": "%016x" % rnd.getrandbits(64)}})
        out.append({"run": run, "cfg": {"max_age": big(age)}, "ops": ops})
        run += 1
    return out


def flip_runs(rnd, first_run, n):
    """All 64 single-bit alterations (and sampled double-bit ones) of issued ids."""
    out = []
    for r in range(n):
        age = rnd.choice((1, 2, 120, 3600, U32))
        t = rnd.choice((0, 5, 100000, U32 - 200))
        ops = [{"op": "clock", "t": big(t)}, {"op": "issue", "ip": rnd.choice(IPS)}]
        ip = ops[1]["ip"]
        ops.append({"op": "check", "ip": ip, "id": {"ref": 0}})
        for bit in range(64):
            ops.append({"op": "check", "ip": ip, "id": {"ref": 0, "flip": [bit]}})
        for _ in range(64):
            ops.append({"op": "check", "ip": ip, "id": {"ref": 0, "flip": rnd.sample(range(64), 2)}})
        out.append({"run": first_run + r, "cfg": {"max_age": big(age)}, "ops": ops})
    return out


def random_runs(rnd, first_run, n, nops):
    out = []
    for r in range(n):
        age = rnd.choice((0, 1, 2, 3, 60, 120, U32 - 1, U32))
        ops = []
        clock = rnd.choice((0, 0, 50, 1000, U32 - 300))
        ops.append({"op": "clock", "t": big(clock)})
        nissued = 0
        for _ in range(nops):
            x = rnd.random()
            if x < 0.25 or nissued == 0:
                ops.append({"op": "issue", "ip": rnd.choice(IPS)})
                nissued += 1
            elif x < 0.5:
                clock = max(0, min(U32, clock + rnd.choice((-61, -60, -2, -1, 0, 1, 1, 2, 59, 60, 61, age - 1, age,
                                                         age + 1))))
                ops.append({"op": "clock", "t": big(clock)})
            else:
                k = rnd.random()
                if k < 0.7:
                    idv = {"ref": rnd.randrange(nissued)}
                elif k < 0.85:
                    idv = {"ref": rnd.randrange(nissued), "flip": [rnd.randrange(64)]}
                elif k < 0.93:
                    idv = {"foreign": rnd.randrange(nissued)}
                else:
                    idv = {"raw": "%016x" % rnd.getrandbits(64)}
                ops.append({"op": "check", "ip": rnd.choice(IPS), "id": idv})
        out.append({"run": first_run + r, "cfg": {"max_age": big(age)}, "ops": ops})
    return out


def classify(ev, prefix, last_state):
    sig = {"tracker": "udp", "part": "connid"}
    if isinstance(ev, dict):
        sig["ev"] = ev.get("ev")
        sig["how"] = ev.get("how")
    return sig


def mutate_ok(evs):
    for i in range(len(evs) - 1, -1, -1):
        if evs[i].get("ev") == "check" and evs[i].get("how") == "ref":
            m = json.loads(json.dumps(evs))
            m[i]["ok"] = not m[i]["ok"]
            return m, "check result inverted at event %d" % i
    return None


def run(ctx):
    rnd = random.Random(ctx.seed + 50)
    for a in (0, 1, 2):
        res = run_tlc(ctx, "ConnId_MC", "ConnId_MC_%d.cfg" % a, workers=8, timeout=900)
        require_mc_ok(ctx, res, "ConnId max_age=%d" % a)
    g = run_tlc(ctx, "ConnId_MC", "ConnId_Gen.cfg", workers=1, timeout=300, name="gen")
    cases = [json.loads(tla_unquote(x)) for x in printed_tuples(g["out"], "CASE")]
    if len(cases) < 100:
        raise ToolError("case grid generation failed (%d cases)" % len(cases))
    cargo_build(ctx)
    beh = case_runs(cases, rnd, 0)
    beh += flip_runs(rnd, 10000, 6 if ctx.quick() else 60)
    beh += random_runs(rnd, 20000, 30 if ctx.quick() else 400, 120)
    tp = execute(ctx, "conn_exec", beh, "connid")
    nev, _ = count_events(tp)
    accepted, failures, nruns = validate_runs(ctx, "ConnId_Trace", "ConnId_Trace.cfg", tp, label="connid")
    # an unexpected ACCEPT of an id that was never issued may be a 2^-32 MAC collision: retry that run
    # once with fresh keys; only a reproduced failure is reported
    real = []
    for f in failures:
        ev = f["event"]
        if isinstance(ev, dict) and ev.get("ev") == "check" and ev.get("ok") and ev.get("how") != "ref":
            rb = [b for b in beh if f["lines"] and b["run"] == json.loads(f["lines"][0]).get("run")]
            if rb:
                tp2 = execute(ctx, "conn_exec", rb, "connid_retry%d" % f["run_index"])
                a2, f2, _ = validate_runs(ctx, "ConnId_Trace", "ConnId_Trace.cfg", tp2, label="retry")
                if not f2:
                    ctx.stage("collision-retry", run=rb[0]["run"], note="not reproduced with fresh keys")
                    accepted += 1
                    continue
        real.append(f)
    ctx.traces_validated += accepted
    ctx.stage("validate:connid", runs=nruns, accepted=accepted, rejected=len(real), events=nev)
    for f in real:
        lines = [json.loads(x) for x in f["lines"]]
        k = f["matched_in_run"]
        report_violation(ctx, "connection id trace rejected at event %d of run %d: %s" %
                         (k + 1, f["run_index"], json.dumps(f["event"])[:400]),
                         {"module": "ConnId_Trace", "events": lines[:k + 1], "unmatched_event": f["event"],
                          "last_matched_state": f["last_state"]}, classify(f["event"], None, None))
    if not real:
        binding_selftest(ctx, "ConnId_Trace", "ConnId_Trace.cfg", tp, mutate_ok)
    nchecks = sum(1 for line in open(tp) if '"ev":"check"' in line)
    nacc = sum(1 for line in open(tp) if '"ev":"check"' in line and '"ok":true' in line)
    ctx.coverage.update({
        "boundary_cases_from_spec": len(cases), "checks_executed": nchecks, "checks_accepted": nacc,
        "rule": "TLC evaluates the acceptance rule on the boundary grid (max age in {0,1,2,120,2^32-1} x issue "
                "times x check times one second around both comparisons, incl. values near 2^32 as base-2^20 "
                "pairs); each case is executed on a real ConnectionValidator (clock set through the hook) with "
                "checks from the same / mapped / other address, all 64 single-bit and sampled double-bit "
                "alterations, forged ids and ids of a second validator instance; TLC validates every result",
    })
    ctx.add_sample({"case": cases[len(cases) // 2], "ops": beh[len(beh) // 3]["ops"][:6]})
    ctx.assumptions += [
        "forged/altered ids are rejected up to the 2^-32 collision chance of the 32-bit MAC (an unexpected accept "
        "is retried once with fresh keys)",
        "the validator's clock is set through verif_set_elapsed instead of update_elapsed()",
    ]
