"""WebTorrent swarm storage: behaviours, random driver, classification."""
import random

from vlib import *
from storage import *

ANN_ARGS = ("c", "h", "pid", "event", "left", "offers", "answer", "now")


def arg_filter(op):
    n = op["name"]
    if n == "announce":
        d = {k: op[k] for k in ANN_ARGS}
        d["name"] = "announce"
        return d
    if n == "refused":
        # the model's refused step is an announce of a second peer id; its arguments
        # beyond (c, h, pid) do not matter
        return {"name": "announce", "c": op["c"], "h": op["h"], "pid": op["pid"], "event": "started",
                "left": 2, "offers": [], "answer": [], "now": 0}
    if n == "scrape":
        return {"name": n, "c": op["c"], "hs": op["hs"]}
    if n == "close":
        return {"name": n, "c": op["c"]}
    if n == "clean":
        return {"name": n, "now": op["now"]}
    raise ToolError("unknown model op " + n)


def to_exec_op(a, fam=4):
    n = a["name"]
    if n == "announce":
        return {"op": "announce", "c": a["c"], "fam": fam, "h": a["h"], "pid": a["pid"],
                "event": a["event"], "left": a["left"], "offers": a["offers"],
                "answer": a["answer"], "now": a["now"]}
    if n == "scrape":
        return {"op": "scrape", "c": a["c"], "fam": fam, "hs": a["hs"]}
    if n == "close":
        return {"op": "close", "c": a["c"], "fam": fam}
    if n == "clean":
        return {"op": "clean", "now": a["now"]}
    raise ToolError("unknown op " + n)


def random_behaviours(seed, nruns, nops, first_run=0, dumps=True, offer_bias=False):
    rnd = random.Random(seed)
    out = []
    hashes = (1, 2, 17)
    for r in range(nruns):
        cfg = {"max_offers": rnd.choice((0, 1, 2, 3, 10)), "max_scrape": rnd.choice((1, 2, 255, 255)),
               "max_peer_age": rnd.choice((2, 3, 5)), "max_offer_age": rnd.choice((1, 2, 4)),
               "mode": "off", "dumps": dumps}
        ops = []
        clock = 0
        next_slot = {1: 1, 2: 1, 3: 1}
        conns = []          # live connections: dict(c, fam, ann)

        def new_conn():
            consumer = rnd.choice((1, 2, 3))
            slot = next_slot[consumer]
            next_slot[consumer] += 1
            conns.append({"c": [consumer, slot], "fam": rnd.choice((4, 4, 6)), "ann": {}})

        for _ in range(4):
            new_conn()
        recent = []         # (fam, h, offerer pid, oid)
        for _ in range(nops):
            if len(conns) < 3 or (len(conns) < 7 and rnd.random() < 0.05):
                new_conn()
            x = rnd.random()
            if x < 0.78:
                cn = rnd.choice(conns)
                h = rnd.choice(hashes if rnd.random() < 0.4 else hashes[:1])
                # usually stick to the peer id already used on this connection for h
                if h in cn["ann"] and rnd.random() < 0.93:
                    pid = cn["ann"][h]
                else:
                    pid = rnd.randrange(1, 7)
                event = rnd.choice(("started", "none", "update", "completed", "stopped", "none", "none"))
                noff = rnd.choice((0, 0, 1, 2, 3)) if not offer_bias else rnd.choice((0, 1, 2, 3, 4))
                offers = [rnd.randrange(1, 4) for _ in range(noff)]
                answer = []
                if rnd.random() < (0.5 if offer_bias else 0.3):
                    cand = [q for q in recent if q[0] == cn["fam"] and q[1] == h]
                    if cand and rnd.random() < 0.75:
                        q = rnd.choice(cand[-6:])
                        answer = [q[2], q[3]]
                    else:
                        answer = [rnd.randrange(1, 7), rnd.randrange(1, 4)]
                op = {"op": "announce", "c": cn["c"], "fam": cn["fam"], "h": h, "pid": pid,
                      "event": event, "left": rnd.choice((0, 1, 2, 2)), "offers": offers,
                      "answer": answer, "now": clock}
                if noff == 0 and rnd.random() < 0.5:
                    op["offers"] = None
                ops.append(op)
                if h in cn["ann"] and cn["ann"][h] != pid:
                    op["second_pid"] = True
                    conns.remove(cn)      # refused: the tracker closes the connection
                else:
                    if event == "stopped":
                        cn["ann"].pop(h, None)
                    else:
                        cn["ann"][h] = pid
                        for o in offers:
                            recent.append((cn["fam"], h, pid, o))
            elif x < 0.86:
                cn = rnd.choice(conns)
                n = rnd.choice((1, 1, 2, 3))
                hs = [rnd.choice(hashes + (999,)) for _ in range(n)]
                op = {"op": "scrape", "c": cn["c"], "fam": cn["fam"], "hs": hs}
                if n == 1 and rnd.random() < 0.5:
                    op["single"] = True
                ops.append(op)
            elif x < 0.93:
                cn = rnd.choice(conns)
                ops.append({"op": "close", "c": cn["c"], "fam": cn["fam"]})
                conns.remove(cn)
            else:
                clock += rnd.choice((0, 1, 1, 2))
                ops.append({"op": "clean", "now": clock})
            if rnd.random() < 0.15:
                clock += 1
        for op in ops:
            if op.get("offers", 0) is None:
                pass
        out.append({"run": first_run + r, "cfg": cfg, "ops": ops})
    return out


def classify(ev, prefix, last_state):
    sig = {"tracker": "ws"}
    if isinstance(ev, dict):
        sig["ev"] = ev.get("ev")
    return sig


def mutate_counts(evs):
    for i in range(len(evs) - 1, -1, -1):
        if evs[i].get("ev") == "announce" and evs[i].get("out"):
            m = json.loads(json.dumps(evs))
            m[i]["out"][-1]["seeders"] += 1
            return m, "announce reply complete+1 at event %d" % i
    return None


def mutate_offer_target(evs):
    """Re-address a forwarded offer to the sender's own connection."""
    for i in range(len(evs) - 1, -1, -1):
        e = evs[i]
        if e.get("ev") == "announce" and any(m["kind"] == "offer" for m in e.get("out", [])):
            m = json.loads(json.dumps(evs))
            for msg in m[i]["out"]:
                if msg["kind"] == "offer":
                    msg["to"] = e["c"]
                    break
            return m, "offer re-addressed to its sender at event %d" % i
    return None
