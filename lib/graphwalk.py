"""Edge-covering walks over a TLC state graph printed as EDGE lines.

Each EDGE line is <<"EDGE", "<src id>", "<op json>", "<dst id>">>.  The op's
observable result (reply etc.) may differ between lines with the same
(src, arguments) because of nondeterministic choices in the model; an edge is
identified by (src, arguments) and the arguments are what the real code is
driven with.
"""
import json
import re
from collections import defaultdict, deque

_EDGE = re.compile(r'^<<"EDGE", "(.*?)", "(\{.*\})", "(.*)">>$')


def _unq(s):
    return s.replace('\\"', '"').replace("\\\\", "\\")


def parse_edges(out, arg_filter):
    """Returns (init_id, graph) where graph[src] = list of (argkey, args, dst).
    arg_filter(op_dict) -> dict of arguments (drops reply fields)."""
    graph = defaultdict(dict)
    first_src = None
    n = 0
    for line in out.splitlines():
        m = _EDGE.match(line.strip())
        if not m:
            continue
        n += 1
        src, opj, dst = _unq(m.group(1)), _unq(m.group(2)), _unq(m.group(3))
        if first_src is None:
            first_src = src
        op = json.loads(opj)
        args = arg_filter(op)
        key = json.dumps(args, sort_keys=True)
        graph[src][key] = (args, dst)
        graph.setdefault(dst, graph.get(dst, {}))
    return first_src, graph, n


def edge_cover(init, graph, max_len=300, max_ops=None):
    """Greedy edge-covering set of walks from init.  Returns list of op lists."""
    uncovered = {s: set(graph[s].keys()) for s in graph}
    remaining = sum(len(v) for v in uncovered.values())
    walks = []
    total = 0
    while remaining > 0:
        if max_ops is not None and total >= max_ops:
            break
        walk = []
        cur = init
        while len(walk) < max_len:
            if uncovered[cur]:
                k = min(uncovered[cur])
                uncovered[cur].discard(k)
                remaining -= 1
                args, dst = graph[cur][k]
                walk.append(args)
                cur = dst
                continue
            # BFS to nearest state with an uncovered out-edge
            prev = {cur: None}
            dq = deque([cur])
            target = None
            while dq:
                s = dq.popleft()
                if uncovered[s] and s != cur:
                    target = s
                    break
                for k, (args, d) in graph[s].items():
                    if d not in prev:
                        prev[d] = (s, k)
                        dq.append(d)
            if target is None:
                break
            path = []
            s = target
            while prev[s] is not None:
                ps, k = prev[s]
                path.append(graph[ps][k][0])
                s = ps
            path.reverse()
            if len(walk) + len(path) >= max_len:
                break
            walk.extend(path)
            cur = target
        if not walk:
            break
        walks.append(walk)
        total += len(walk)
    return walks, remaining
