"""C01 - UDP swarm bookkeeping equals a reference tracker."""
from vlib import *
from storage import *
import udp_storage as U


def run(ctx):
    # 1. the design: implementation-shaped model refines the reference tracker
    cfgs = ["UdpSwarm_MC_A.cfg", "UdpSwarm_MC_B.cfg", "UdpSwarm_MC_C.cfg"]
    if not ctx.quick():
        cfgs.append("UdpSwarm_MC_T.cfg")
    for c in cfgs:
        res = run_tlc(ctx, "UdpSwarm_MC", c, workers=8, timeout=1500, coverage=True)
        require_mc_ok(ctx, res, c)
        zero = coverage_zero_actions(res["out"], "UdpSwarm")
        if zero:
            raise ToolError("vacuity: actions never taken in %s: %s" % (c, zero))
    cargo_build(ctx)
    # 2. spec -> impl: edge cover of the generation config
    beh, gstats = gen_edge_cover(ctx, "UdpSwarm_Gen", "UdpSwarm_Gen.cfg", U.arg_filter,
                                 U.to_exec_op, {"max_resp": 2, "mode": "off", "peer_clients": False, "dumps": True})
    t1 = execute(ctx, "udp_exec", beh, "edgecover")
    acc1, f1 = validate_and_report(ctx, "UdpRef_Trace", "UdpRef_Trace.cfg", t1, "edgecover",
                                   U.classify, beh)
    # 3. impl -> spec: random histories over larger domains
    nruns, nops = (24, 250) if ctx.quick() else (300, 400)
    rb = U.random_behaviours(ctx.seed, nruns, nops, first_run=100000)
    t2 = execute(ctx, "udp_exec", rb, "random")
    acc2, f2 = validate_and_report(ctx, "UdpRef_Trace", "UdpRef_Trace.cfg", t2, "random",
                                   U.classify, rb)
    # 3b. strict implementation-shaped pass on the accepted edge-cover trace (model drift only)
    if not f1 and not ctx.violations:
        strict_pass(ctx, "SwarmStrict_Udp.cfg", t1, "udp_edgecover", max_events=8000 if ctx.quick() else None)
    # 4. binding self-test
    if not f1:
        binding_selftest(ctx, "UdpRef_Trace", "UdpRef_Trace.cfg", t1, U.mutate_counts)
    ctx.coverage.update({
        "model_edges": gstats["model_edges"], "model_edges_covered": gstats["covered"],
        "edge_cover_ops": gstats["ops"],
        "random_runs": nruns, "random_ops": nruns * nops,
        "rule": "every transition of the generation model (UdpSwarm_Gen.cfg) is executed on the real "
                "TorrentMaps in an edge-covering set of walks; random histories over 12 keys x 4 hashes "
                "x 2 families; every event of every run is validated by TLC against the reference tracker",
    })
    for b in (beh[:1] + rb[:1]):
        ctx.add_sample({"run": b["run"], "cfg": b["cfg"], "first_ops": b["ops"][:6]})
    ctx.assumptions += [
        "TLC explores the implementation-shaped model exhaustively only within the constants of the MC configs",
        "the harness's static tables (hash/key/peer id <-> bytes) are injective",
        "TLC and the TLA+ standard/community modules are correct",
    ]
