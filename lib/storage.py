"""Storage-level conformance pipeline shared by C01 C02 C07 C08 C09 C10 C11 C20:
model check -> behaviours from the model (edge cover) -> execute on the real
storage -> validate the recorded traces with TLC -> binding self-test."""
import json
import os
import random

from vlib import *
import graphwalk

I32_MIN = -2147483648
I32_MAX = 2147483647


def strip_reply(op, keep):
    """Arguments of a model op (drops observable results)."""
    return {k: v for k, v in op.items() if k in keep}


def gen_edge_cover(ctx, module, cfg, arg_filter, to_exec_op, run_cfg, timeout=300, max_len=300, max_ops=None):
    """Run the generation config, build the edge cover, return behaviours (list of dicts)."""
    res = run_tlc(ctx, module, cfg, workers=1, timeout=timeout, name="gen_" + cfg)
    if not res["ok"]:
        raise ToolError("generation run %s/%s failed: %s\n%s" %
                        (module, cfg, res["error"], "\n".join(res["out"].splitlines()[-40:])))
    init, graph, nlines = graphwalk.parse_edges(res["out"], arg_filter)
    if init is None:
        raise ToolError("generation run %s/%s printed no edges" % (module, cfg))
    nedges = sum(len(v) for v in graph.values())
    walks, uncovered = graphwalk.edge_cover(init, graph, max_len=max_len, max_ops=max_ops)
    behaviours = []
    for i, w in enumerate(walks):
        behaviours.append({"run": i, "cfg": run_cfg, "ops": [to_exec_op(a) for a in w]})
    nops = sum(len(w) for w in walks)
    ctx.stage("gen:" + cfg, model_states=len(graph), model_edges=nedges, covered=nedges - uncovered,
              walks=len(walks), ops=nops, wall_s=res["wall_s"])
    return behaviours, {"model_states": len(graph), "model_edges": nedges, "covered": nedges - uncovered,
                        "walks": len(walks), "ops": nops}


def write_behaviours(path, behaviours):
    with open(path, "w") as f:
        for b in behaviours:
            f.write(json.dumps(b) + "\n")


def execute(ctx, exe, behaviours, label, timeout=900, env=None):
    bpath = ctx.path(label + "_beh.jsonl")
    tpath = ctx.path(label + "_trace.ndjson")
    write_behaviours(bpath, behaviours)
    run_harness(ctx, exe, [bpath, tpath], timeout=timeout, env=env)
    return tpath


def count_events(tpath):
    n = 0
    panics = 0
    for line in open(tpath):
        if line.strip():
            n += 1
            if '"ev":"panic"' in line:
                panics += 1
    return n, panics


def validate_and_report(ctx, module, cfg, tpath, label, classify, behaviours=None, max_failures=6, env=None):
    """Validate a multi-run trace; report each rejected run as violation / known finding.
    Returns number of accepted runs."""
    nev, npanic = count_events(tpath)
    accepted, failures, nruns = validate_runs(ctx, module, cfg, tpath, max_failures=max_failures,
                                              label=label, env=env)
    ctx.traces_validated += accepted
    ctx.stage("validate:" + label, runs=nruns, accepted=accepted, rejected=len(failures),
              events=nev, panics=npanic)
    for f in failures:
        lines = [json.loads(x) for x in f["lines"]]
        k = f["matched_in_run"]
        ev = f["event"]
        sig = classify(ev, lines[:k], f["last_state"]) if classify else {}
        what = "%s trace rejected by %s at event %d of run %d: %s" % (
            label, module, k + 1, f["run_index"], json.dumps(ev)[:600])
        replay = {"module": module, "cfg": cfg, "env": env, "events": lines[:k + 1],
                  "first_unmatched_index": k, "unmatched_event": ev,
                  "last_matched_state": f["last_state"]}
        if behaviours is not None and lines and isinstance(lines[0], dict) and "run" in lines[0]:
            rid = lines[0]["run"]
            for b in behaviours:
                if b.get("run") == rid:
                    replay["behaviour"] = b
                    break
        report_violation(ctx, what, replay, sig)
    return accepted, failures


def binding_selftest(ctx, module, cfg, tpath, mutate, label="selftest", env=None):
    """Corrupt one logged field of an accepted trace: the trace spec must reject it.
    mutate(list_of_event_dicts) -> (mutated list, description) or None."""
    runs = split_runs(tpath)
    for r in runs:
        evs = [json.loads(x) for x in r]
        m = mutate(evs)
        if m is None:
            continue
        mutated, desc = m
        p = ctx.path(label + "_mut.ndjson")
        with open(p, "w") as f:
            for e in mutated:
                f.write(json.dumps(e) + "\n")
        res = validate_trace(ctx, module, cfg, p, name=label, env=env)
        if res["accepted"]:
            raise ToolError("binding self-test: corrupted trace (%s) was ACCEPTED by %s - "
                            "the trace specification has become vacuous" % (desc, module))
        ctx.stage("selftest", mutation=desc, rejected_at=res["matched"] + 1)
        return desc
    raise ToolError("binding self-test: no run suitable for mutation")


def strict_pass(ctx, cfg, tpath, label, max_events=None):
    """Implementation-shaped (strict) validation of an already accepted trace: representation, storage order,
    cached counters and the exact peer lists (random offsets inferred by TLC).  A rejection is model drift -
    recorded in the evidence, never a verdict."""
    if max_events is not None:
        # quick tier: a prefix of whole runs
        runs = split_runs(tpath)
        part = ctx.path("strict_%s_prefix.ndjson" % label)
        n = 0
        with open(part, "w") as f:
            for r in runs:
                if n > 0 and n + len(r) > max_events:
                    break
                f.writelines(r)
                n += len(r)
        tpath = part
    res = validate_trace(ctx, "SwarmStrict_Trace", cfg, tpath, name="strict_" + label)
    if res["accepted"]:
        ctx.stage("strict:" + label, events=res["total"], accepted=True)
        ctx.coverage.setdefault("strict_pass", {})[label] = {"events": res["total"], "accepted": True}
        return True
    ctx.model_drift = {"label": label, "first_mismatch_index": res["matched"] + 1,
                       "event": json.dumps(res["event"])[:600]}
    ctx.coverage.setdefault("strict_pass", {})[label] = {"events": res["total"], "accepted": False}
    log("MODEL-DRIFT (no verdict): %s no longer matches the implementation-shaped model at event %d"
        % (label, res["matched"] + 1))
    return False
