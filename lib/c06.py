"""C06 - UDP request/reply contract: one reply, to the sender, no amplification (both backends)."""
import random

from vlib import *
from storage import *
from net import *
from udp_e2e import *

FORBIDDEN = 99


def table_from_spec(ctx):
    res = run_tlc(ctx, "UdpServer_MC", "UdpServer_MC.cfg", workers=8, timeout=600)
    require_mc_ok(ctx, res, "UdpServer decision table properties")
    g = run_tlc(ctx, "UdpServer_MC", "UdpServer_Gen.cfg", workers=1, timeout=300, name="gen")
    cases = [json.loads(tla_unquote(x)) for x in printed_tuples(g["out"], "CASE")]
    if len(cases) < 200:
        raise ToolError("decision table generation failed (%d cases)" % len(cases))
    return cases


def scenario(ctx, backend, cases, rnd, trace, run_id, quick):
    """One main tracker + one 'other' tracker + one short-lived-id tracker; returns stats."""
    alist = ctx.path("alist_%s.txt" % backend)
    with open(alist, "w") as f:
        f.write(info_hash(FORBIDDEN).hex() + "\n")
    port = free_port()
    port2 = free_port()
    port3 = free_port()
    main = Tracker(ctx, "udp", udp_config(port, backend, alist=alist), "main_" + backend)
    other = Tracker(ctx, "udp", udp_config(port2, backend, alist=alist), "other_" + backend)
    shortl = Tracker(ctx, "udp", udp_config(port3, backend, alist=alist, max_age=2), "short_" + backend)
    drv = None
    stats = {"datagrams": 0, "replies": 0}
    try:
        for t, p in ((main, port), (other, port2), (shortl, port3)):
            udp_wait_ready(("127.0.0.1", p), tracker=t)
        trace.append({"ev": "reset", "run": run_id, "backend": backend, "max_scrape": 3, "max_resp": 5,
                      "forbidden": [FORBIDDEN]})
        drv = Driver(ctx, ("127.0.0.1", port), ("::1", port), trace, rnd)
        A = drv.client("127.0.0.2", "A")
        B = drv.client("127.0.0.3", "B")
        D = drv.client("::1", "D")
        ids = {}
        for n in (A, B, D):
            r = drv.send(n, connect_req(drv.next_txid()), {"class": "connect_ok", "conn": "none", "txid": drv.txid}, True)
            if not r or r.get("kind") != "connect":
                raise ToolError("could not obtain a connection id from the %s tracker" % backend)
            ids[n] = r["conn_id"]
        # an id for 127.0.0.2 issued by another tracker process
        oc = UdpClient("127.0.0.2", ("127.0.0.1", port2))
        oc.send(connect_req(1))
        rr = oc.recv(2.0)
        oc.close()
        if not rr:
            raise ToolError("second tracker did not answer")
        other_id = decode_reply(rr[0], 4)["conn_id"]

        def conn_value(kind, who):
            if kind == "valid":
                return ids[who]
            if kind == "foreign":
                return ids[B] if who == A else ids[A]
            if kind == "other":
                return other_id
            return rnd.getrandbits(63)

        def ann(who, h, aport, event="started", left=1, numwant=-1, cls="announce_ok", conn="valid", ipfield=0):
            tx = drv.next_txid()
            data = build(drv, cls, conn_value(conn, who), tx, h, aport, rnd, numwant=numwant, event=event,
                         left=left, ipfield=ipfield)
            stats["datagrams"] += 1
            return drv.send(who, data, {"class": cls, "conn": conn, "txid": tx, "h": h, "port": aport,
                                        "event": event, "left": left, "numwant": numwant, "ipfield": ipfield}, True)

        def scr(who, hs, cls="scrape_ok", conn="valid"):
            tx = drv.next_txid()
            data = build(drv, cls, conn_value(conn, who), tx, 0, 0, rnd, hs=hs)
            stats["datagrams"] += 1
            return drv.send(who, data, {"class": cls, "conn": conn, "txid": tx, "hs": hs}, True)

        # build swarms: torrent h gets h+1 peers (distinct counts identify torrents in scrapes)
        for h in (1, 2, 3, 4):
            for i in range(h + 1):
                ann(rnd.choice((A, B)), h, 7000 + 10 * h + i, left=rnd.choice((0, 1)),
                    ipfield=rnd.choice((0, 0x08080808, 0x7F000003)))
        for i in range(3):
            ann(D, 1, 7100 + i, left=i % 2)
        # scrapes: prefix of max_scrape_torrents hashes in request order
        for hs in ([1], [3, 1, 2], [4, 3, 2, 1], [2, 2, 4, 1, 3, 5], [5], [4, 1]):
            scr(rnd.choice((A, B)), hs)
        scr(D, [1, 2])
        # the decision table
        order = list(cases)
        rnd.shuffle(order)
        if quick:
            order = [c for c in order if not (c["sport0"] and c["class"] not in ("announce_ok", "connect_ok", "scrape_ok"))]
        for c in order:
            cls, conn = c["class"], c["conn"]
            if conn == "stale":
                continue
            who = A
            h = 1 if c["allowed"] else FORBIDDEN
            tx = drv.next_txid()
            aport = 7500 + rnd.randrange(400)
            hs = [rnd.choice((1, 2, 3, 4, 5)) for _ in range(rnd.randrange(1, 6))]
            ev = rnd.choice(("started", "none", "completed", "stopped"))
            data = build(drv, cls, conn_value(conn, who), tx, h, aport, rnd, event=ev, hs=hs)
            meta = {"class": cls, "conn": conn, "txid": tx, "h": h, "port": aport, "event": ev, "left": 1,
                    "numwant": -1, "hs": hs if cls.startswith("scrape") else []}
            stats["datagrams"] += 1
            if c["sport0"]:
                drv.send_port0("127.0.0.2", data, meta)
            elif c["reply"] != "none":
                drv.send(who, data, meta, True)
            else:
                drv.send(drv.client("127.0.0.2"), data, meta, False)
        # short-lived ids: valid at once, stale after the age has passed
        sc = drv.client("127.0.0.4", "S")
        drv.socks["S"].server = ("127.0.0.1", port3)
        r = drv.send(sc, connect_req(drv.next_txid()), {"class": "connect_ok", "conn": "none", "txid": drv.txid}, True)
        # (the short-lived tracker has its own empty swarm: use a separate run for its events)
        stale_id = r["conn_id"] if r else 0
        # the id is USED once while it is fresh (a scrape of a torrent nobody announced: answered with zeros), so
        # that a validator which remembers ids it has accepted meets the same id again after it has gone stale
        # (max_connection_age = 2: the use follows the issue within milliseconds, at most one clock tick)
        tx = drv.next_txid()
        drv.send(sc, build(drv, "scrape_ok", stale_id, tx, 1, 7998, rnd, hs=[77]),
                 {"class": "scrape_ok", "conn": "valid", "txid": tx, "h": 1, "port": 7998, "event": "none", "left": 1,
                  "numwant": -1, "hs": [77]}, True)
        stats["datagrams"] += 1
        drv.idle += getattr(drv, "raw_pending", [])
        drv.raw_pending = []
        drv.quiet(0.35 if quick else 1.0)
        # stale scenario in its own run (own tracker state)
        trace.append({"ev": "reset", "run": run_id + 1, "backend": backend, "max_scrape": 3, "max_resp": 5,
                      "forbidden": [FORBIDDEN]})
        # the validator's whole-second clock is refreshed every 256 poll iterations (mio) or every 5 s (io_uring)
        time.sleep(3.6 if backend == "mio" else 7.8)
        for cls in ("announce_ok", "scrape_ok", "announce_port0", "scrape_empty"):
            tx = drv.next_txid()
            data = build(drv, cls, stale_id, tx, 1, 7999, rnd, hs=[1])
            c2 = drv.client("127.0.0.4")
            drv.socks[c2].server = ("127.0.0.1", port3)
            drv.send(c2, data, {"class": cls, "conn": "stale", "txid": tx, "h": 1, "port": 7999,
                                "hs": [1] if cls.startswith("scrape") else []}, False)
            stats["datagrams"] += 1
        drv.quiet(0.35 if quick else 1.0)
        stats["replies"] = sum(1 for e in trace if e.get("ev") == "recv")
        for t in (main, other, shortl):
            if not t.alive():
                trace.append({"ev": "tracker_died", "name": t.name, "stderr": t.stderr()[-600:]})
    finally:
        if drv:
            drv.close()
        for t in (main, other, shortl):
            t.stop()
    return stats


def big_scrape_scenario(ctx, backend, rnd, trace, run_id):
    """Default limits: a scrape of up to max_scrape_torrents (70) hashes is a well-formed request and
    must be answered with exactly the first 70 requested torrents."""
    port = free_port()
    cfg = udp_config(port, backend, mode="off", max_scrape=70, max_resp=30)
    t = Tracker(ctx, "udp", cfg, "big_" + backend)
    drv = None
    try:
        udp_wait_ready(("127.0.0.1", port), tracker=t)
        for k, n in enumerate((1, 23, 24, 70, 74)):
            trace.append({"ev": "reset", "run": run_id + k, "backend": backend, "max_scrape": 70, "max_resp": 30,
                          "forbidden": [], "scenario": "big_scrape", "nhashes": n})
            drv = Driver(ctx, ("127.0.0.1", port), ("::1", port), trace, rnd)
            A = drv.client("127.0.0.2", "A")
            r = drv.send(A, connect_req(drv.next_txid()), {"class": "connect_ok", "conn": "none", "txid": drv.txid}, True)
            if not r:
                raise ToolError("no connect reply")
            tx = drv.next_txid()
            hs = list(range(1, n + 1))
            drv.send(A, scrape_req(r["conn_id"], tx, [info_hash(x) for x in hs]),
                     {"class": "scrape_ok", "conn": "valid", "txid": tx, "hs": hs}, True, wait=1.0)
            drv.quiet(0.2)
            drv.close()
            drv = None
    finally:
        if drv:
            drv.close()
        t.stop()


def multiworker_scenario(ctx, backend, rnd, trace, run_id):
    """Four socket workers behind one port (SO_REUSEPORT spreads sources over them): a connection id
    obtained through one socket is valid for its source IP whichever worker a later datagram reaches, and
    all workers serve one swarm state."""
    port = free_port()
    t = Tracker(ctx, "udp", udp_config(port, backend, mode="off", workers=4), "multi_" + backend)
    drv = None
    try:
        udp_wait_ready(("127.0.0.1", port), tracker=t)
        trace.append({"ev": "reset", "run": run_id, "backend": backend, "max_scrape": 3, "max_resp": 5,
                      "forbidden": [], "scenario": "multiworker", "socket_workers": 4})
        drv = Driver(ctx, ("127.0.0.1", port), ("::1", port), trace, rnd)
        first = {}
        for ip, tag in (("127.0.0.2", "A"), ("::1", "D")):
            n0 = drv.client(ip, tag + "0")
            r = drv.send(n0, connect_req(drv.next_txid()), {"class": "connect_ok", "conn": "none", "txid": drv.txid}, True)
            if not r or r.get("kind") != "connect":
                raise ToolError("no connect reply from the %s tracker with 4 socket workers" % backend)
            first[tag] = r["conn_id"]
            # the same id from nine other source ports of the same address
            for i in range(1, 10):
                n = drv.client(ip, "%s%d" % (tag, i))
                tx = drv.next_txid()
                if i % 3 == 0:
                    hs = [1, 2]
                    drv.send(n, build(drv, "scrape_ok", first[tag], tx, 0, 0, rnd, hs=hs),
                             {"class": "scrape_ok", "conn": "valid", "txid": tx, "hs": hs}, True)
                else:
                    drv.send(n, build(drv, "announce_ok", first[tag], tx, 1 + i % 2, 7300 + i, rnd, left=i % 2),
                             {"class": "announce_ok", "conn": "valid", "txid": tx, "h": 1 + i % 2, "port": 7300 + i,
                              "event": "started", "left": i % 2, "numwant": -1, "ipfield": 0}, True)
        drv.quiet(0.3)
        drv.close()
        drv = None
        if not t.alive():
            trace.append({"ev": "tracker_died", "stderr": t.stderr()[-400:]})
    finally:
        if drv:
            drv.close()
        t.stop()


def classify(ev, prefix, last_state):
    sig = {"tracker": "udp", "part": "server"}
    if isinstance(ev, dict):
        sig["ev"] = ev.get("ev")
        if ev.get("ev") == "quiet" and isinstance(last_state, dict):
            pend = last_state.get("pending", {})
            # which pending request went unanswered
            for s, p in (pend.items() if isinstance(pend, dict) else []):
                if isinstance(p, dict) and p.get("class") == "scrape_ok" and p.get("conn") == "valid":
                    sig["unanswered"] = "scrape_ok"
                    sig["nhashes_ge_24"] = len(p.get("hs", [])) >= 24
    for e in prefix[:1]:
        if isinstance(e, dict) and "backend" in e:
            sig["backend"] = e["backend"]
            if e.get("scenario") == "big_scrape":
                sig["scenario"] = "big_scrape"
                sig["nhashes_ge_24"] = e.get("nhashes", 0) >= 24
    return sig


def mutate_txid(evs):
    for i in range(len(evs) - 1, -1, -1):
        if evs[i].get("ev") == "recv" and evs[i].get("kind") == "scrape":
            m = json.loads(json.dumps(evs))
            m[i]["txid"] += 1
            return m, "transaction id of a scrape reply altered at event %d" % i
    return None


def mutate_extra_reply(evs):
    for i in range(len(evs) - 1, -1, -1):
        if evs[i].get("ev") == "recv" and evs[i].get("kind") == "connect":
            m = json.loads(json.dumps(evs))
            m.insert(i + 1, dict(evs[i]))
            return m, "second reply to one datagram inserted after event %d" % i
    return None


def run(ctx):
    rnd = random.Random(ctx.seed + 60)
    cases = table_from_spec(ctx)
    cargo_build(ctx)
    trace = []
    per_backend = {}
    for k, backend in enumerate(("mio", "uring")):
        try:
            per_backend[backend] = scenario(ctx, backend, cases, rnd, trace, 10 * k, ctx.quick())
            big_scrape_scenario(ctx, backend, rnd, trace, 100 + 10 * k)
            multiworker_scenario(ctx, backend, rnd, trace, 200 + 10 * k)
        except ToolError as e:
            if backend == "uring" and "exited during start-up" in str(e):
                per_backend[backend] = {"not_exercised": str(e)[:200]}
                ctx.assumptions.append("io_uring backend could not be started in this environment: not exercised")
                continue
            raise
    tp = ctx.path("udp_server.ndjson")
    with open(tp, "w") as f:
        for e in trace:
            f.write(json.dumps(e, separators=(",", ":")) + "\n")
    acc, fails = validate_and_report(ctx, "UdpServer_Trace", "UdpServer_Trace.cfg", tp, "server", classify,
                                     max_failures=12)
    if not ctx.violations:
        binding_selftest(ctx, "UdpServer_Trace", "UdpServer_Trace.cfg", tp, mutate_txid, label="selftest_txid")
        binding_selftest(ctx, "UdpServer_Trace", "UdpServer_Trace.cfg", tp, mutate_extra_reply, label="selftest_extra")
    ctx.coverage.update({
        "decision_table_cases": len(cases), "per_backend": per_backend,
        "rule": "every row of the decision table printed by TLC (13 datagram classes x 6 ways of obtaining the "
                "connection id x source port 0 x allowed/forbidden hash) is concretised and sent to a running "
                "tracker on both backends from sockets on several loopback addresses (IPv4 and ::1, raw socket "
                "for source port 0), one outstanding datagram per socket; stale ids use max_connection_age = 2 and are used once while fresh; "
                "foreign ids come from another source address and from a second tracker process; every reply "
                "(or its absence after a quiet period) is validated by TLC",
    })
    ctx.add_sample([e for e in trace if e.get("ev") in ("send", "recv")][:4])
    ctx.assumptions += [
        "'no reply' is decided by a quiet period (0.35 s quick, 1 s thorough) on a socket with one outstanding datagram",
        "the class of each datagram is fixed by construction in the driver (Bep15.tla / C13 covers the byte-level classes)",
    ]
    if not ctx.quick():
        # growth beyond the listed properties: the bundled load tester as a BEP 15 client
        # (spec/UdpLoadClient.tla); informational, never a verdict on C06
        try:
            import ext_loadtest
            ext = ext_loadtest.loadtest_extension(ctx)
        except Exception as e:
            ext = {"skipped": "extension failed: %r" % (e,)}
        ctx.coverage.setdefault("extensions", {})["UdpLoadClient"] = ext
        log("EXTENSION UdpLoadClient (not a verdict on C06): %s" % json.dumps(ext)[:600])
