"""C13 - UDP wire codec conforms to BEP 15 and round-trips.

spec/Bep15.tla is the reference codec and the request parser's decision table;
Bep15_MC checks its internal laws; Bep15_Gen prints the cases; this module picks
the remaining field values (boundary + seeded random), harness/src/bin/udp_codec.rs
runs the real aquatic_udp_protocol on them and Bep15_Trace validates every line.
Python never decides whether a byte or a parse result is right."""
import json
import random

from vlib import *
from storage import validate_and_report, binding_selftest, count_events

TRACE = ("Bep15_Trace", "Bep15_Trace.cfg")
JUDGE = {"MODE": "judge"}
GENPASS = {"MODE": "gen"}

MAGIC = [0, 0, 4, 23, 39, 16, 25, 128]
EV_CODE = {"none": 0, "completed": 1, "started": 2, "stopped": 3}
EVENTS = ["none", "completed", "started", "stopped"]


def be(n, width):
    return list((n % (1 << (8 * width))).to_bytes(width, "big"))


B8 = [be(v, 8) for v in (0, 1, -1, 2 ** 63 - 1, -2 ** 63, 0x0102030405060708, 0xFFFFFFFF,
                         0xFFFFFFFF00000000, 0x41727101980, 0x8019102717040000, 255, 256)]
B4 = [be(v, 4) for v in (0, 1, -1, 2 ** 31 - 1, -2 ** 31, 0x01020304, 0xFF, 0xFF000000, 256, 65536,
                         0x00000417, 0x27101980)]
B2 = [be(v, 2) for v in (1, 80, 6881, 0xFF00, 0x00FF, 0xFFFF, 256, 0x8000)]
B20 = [[0] * 20, [255] * 20, list(range(1, 21)), list(range(236, 256)), [0] * 19 + [1], [128] + [0] * 19]
B16 = [[0] * 16, [255] * 16, [0] * 15 + [1], [0] * 10 + [255, 255, 127, 0, 0, 1], list(range(16))]

ANN_FIELDS = (("cid", 8), ("tid", 4), ("hash", 20), ("pid", 20), ("down", 8), ("left", 8), ("up", 8),
              ("ip", 4), ("key", 4), ("numwant", 4), ("port", 2))
POOL = {8: B8, 4: B4, 2: B2, 20: B20, 16: B16}


class Picker:
    def __init__(self, seed):
        self.r = random.Random(seed)

    def rb(self, n):
        return [self.r.randrange(256) for _ in range(n)]

    def val(self, n, p_boundary=0.3):
        if self.r.random() < p_boundary:
            return list(self.r.choice(POOL[n]))
        return self.rb(n)

    def port(self):
        while True:
            v = self.val(2)
            if v != [0, 0]:
                return v

    def cid(self, avoid_magic=False):
        while True:
            v = self.val(8)
            if not (avoid_magic and v == MAGIC):
                return v

    def announce(self, event=None, avoid_magic=False):
        f = {k: self.val(n) for k, n in ANN_FIELDS}
        f["cid"] = self.cid(avoid_magic)
        f["port"] = self.port()
        f["event"] = event or self.r.choice(EVENTS)
        return f

    def scrape(self, n, avoid_magic=False):
        return {"cid": self.cid(avoid_magic), "tid": self.val(4),
                "hashes": [self.val(20, 0.05) for _ in range(n)]}

    def peers(self, fam, n):
        w = 4 if fam == 4 else 16
        return [[self.val(w, 0.1), self.val(2, 0.1)] for _ in range(n)]

    def stats(self, n):
        return [[self.val(4), self.val(4), self.val(4)] for _ in range(n)]

    def msg(self, n):
        return [self.r.randrange(128) if self.r.random() < 0.2 else self.r.randrange(32, 127)
                for _ in range(n)]

    def maxscrape(self):
        return self.r.choice((0, 1, 2, 3, 70, 254, 255, self.r.randrange(256)))


# ---------------------------------------------------------------------------
# assembling datagrams (inputs only: Bep15_Trace's gen pass checks that they are what
# the specification's encoder yields / fall into the class TLC asked for)

def flat(xs):
    return [b for x in xs for b in x]


def enc_req(kind, f):
    if kind == "connect":
        return MAGIC + be(0, 4) + f["tid"]
    if kind == "announce":
        return (f["cid"] + be(1, 4) + f["tid"] + f["hash"] + f["pid"] + f["down"] + f["left"] + f["up"]
                + be(EV_CODE[f["event"]], 4) + f["ip"] + f["key"] + f["numwant"] + f["port"])
    if kind == "scrape":
        return f["cid"] + be(2, 4) + f["tid"] + flat(f["hashes"])
    raise ToolError("kind " + kind)


def enc_resp(kind, fam, f):
    if kind == "connect":
        return be(0, 4) + f["tid"] + f["cid"]
    if kind == "announce":
        return (be(1, 4) + f["tid"] + f["interval"] + f["leechers"] + f["seeders"]
                + flat(p[0] + p[1] for p in f["peers"]))
    if kind == "scrape":
        return be(2, 4) + f["tid"] + flat(s[0] + s[1] + s[2] for s in f["stats"])
    if kind == "error":
        return be(3, 4) + f["tid"] + f["msg"]
    raise ToolError("kind " + kind)


# ---------------------------------------------------------------------------
# TLC -> cases

def tlc_cases(ctx):
    cfg = "Bep15_GenQ.cfg" if ctx.quick() else "Bep15_GenT.cfg"
    res = run_tlc(ctx, "Bep15_Gen", cfg, workers=1, timeout=600, name="gen")
    if not res["ok"]:
        raise ToolError("case generation failed: %s\n%s" % (res["error"], "\n".join(res["out"].splitlines()[-30:])))
    struct = [json.loads(tla_unquote(x)) for x in printed_tuples(res["out"], "CASE")]
    rt = [json.loads(tla_unquote(x)) for x in printed_tuples(res["out"], "RT")]
    if not struct or not rt:
        raise ToolError("case generation printed nothing")
    ctx.stage("gen", structural=len(struct), wellformed=len(rt), wall_s=res["wall_s"])
    return struct, rt


def concretise_struct(pk, c):
    """One datagram of the structural class c = {grp, kind, p, x} with fresh field values."""
    g, p, x, kind = c["grp"], c["p"], c["x"], c["kind"]
    gen = {"grp": g, "kind": kind, "p": p, "x": x}
    case = {"ev": "parse", "gen": gen}
    if g == "trunc":
        ln = p["len"]
        if kind == "connect":
            f = {"tid": pk.val(4)}
            full = enc_req(kind, f) + pk.rb(max(0, ln - 16))
        elif kind == "announce":
            f = pk.announce()
            full = enc_req(kind, f) + pk.rb(max(0, ln - 98))
        else:
            nfull = max(0, ln - 16) // 20
            f = pk.scrape(nfull + 1)
            full = enc_req(kind, f)
            f["hashes"] = f["hashes"][:nfull]
        case.update(bytes=full[:ln], max=p["max"])
        if x["ok"]:
            case["f"] = f
    elif g == "action":
        if kind == "connect":
            f = {"tid": pk.val(4)}
        elif kind == "announce":
            f = pk.announce(avoid_magic=True)
        else:
            f = pk.scrape(1, avoid_magic=True)
        b = enc_req(kind, f)
        b[8:12] = p["action"]
        case.update(bytes=b, max=pk.r.choice((1, 2, 255)))
        if x["ok"]:
            case["f"] = f
    elif g == "event":
        f = pk.announce()
        b = enc_req("announce", f)
        b[80:84] = p["event"]
        case.update(bytes=b + pk.rb(pk.r.choice((0, 0, 2, 9))), max=pk.maxscrape())
        if x["ok"]:
            f["event"] = p["name"]
            case["f"] = f
    elif g == "magic":
        f = {"tid": pk.val(4)}
        b = enc_req("connect", f)
        b[0:8] = p["magic"]
        case.update(bytes=b, max=pk.maxscrape())
        if x["ok"]:
            case["f"] = f
    elif g == "port":
        f = pk.announce()
        f["port"] = p["port"]
        case.update(bytes=enc_req("announce", f) + pk.rb(pk.r.choice((0, 0, 1, 7))), max=pk.maxscrape())
        if x["ok"]:
            case["f"] = f
    elif g == "paylen":
        f = pk.scrape(p["pay"] // 20)
        b = enc_req("scrape", f) + pk.rb(p["pay"] % 20)
        case.update(bytes=b, max=p["max"])
        if x["ok"]:
            case["f"] = f
    elif g == "cut":
        f = pk.scrape(p["n"])
        case.update(bytes=enc_req("scrape", f), max=p["max"])
        if x["ok"]:
            case["f"] = f
    else:
        raise ToolError("unknown structural group " + g)
    return case


def fuzz_case(pk):
    """A datagram near a well-formed one (one byte changed / cut / extended) or plain noise.
    No class is claimed for it: ParseRequest alone says what must happen."""
    r = pk.r
    kind = r.choice(("connect", "announce", "scrape", "noise"))
    if kind == "noise":
        b = pk.rb(r.choice((0, 1, 11, 12, 15, 16, 17, 36, 97, 98, 99, r.randrange(0, 300))))
        if len(b) >= 12 and r.random() < 0.7:
            b[8:12] = be(r.choice((0, 1, 2)), 4)
    else:
        if kind == "connect":
            b = enc_req(kind, {"tid": pk.val(4)})
        elif kind == "announce":
            b = enc_req(kind, pk.announce()) + pk.rb(r.choice((0, 0, 0, 1, 2, 8, 40)))
        else:
            b = enc_req(kind, pk.scrape(r.choice((1, 1, 2, 3, 5, 20, 74))))
        what = r.random()
        if what < 0.45:
            i = r.randrange(len(b))
            if r.random() < 0.5:
                i = r.choice((8, 9, 10, 11, 80, 81, 82, 83, 96, 97, 0, 7)) % len(b)
            b[i] = r.choice((0, 1, 2, 3, 4, 255, b[i] ^ (1 << r.randrange(8)), r.randrange(256)))
        elif what < 0.7:
            b = b[:r.randrange(len(b) + 1)]
        elif what < 0.85:
            b = b + pk.rb(r.choice((1, 2, 19, 20, 21)))
    return {"ev": "parse", "bytes": b, "max": pk.maxscrape()}


def sweep(pk, fields, make):
    """Field-by-field boundary sweep: every boundary value of every field once, the other
    fields random (so any two fields differ and an exchange of fields shows)."""
    out = []
    for name, width in fields:
        for v in POOL[width]:
            f = make()
            f[name] = list(v)
            out.append(f)
    return out


def concretise_rt(pk, c, quick):
    """Well-formed messages for one abstract choice c = {dir, kind, event, fam, n}."""
    d, kind, n, fam = c["dir"], c["kind"], c["n"], c["fam"]
    nrand = 12 if quick else 1200
    cases = []
    if d == "req":
        if kind == "connect":
            fs = sweep(pk, (("tid", 4),), lambda: {"tid": pk.val(4)}) + [{"tid": pk.rb(4)} for _ in range(nrand)]
            ms = [pk.maxscrape() for _ in fs]
        elif kind == "announce":
            ev = c["event"]
            fields = [x for x in ANN_FIELDS if x[0] != "port"] + [("port", 2)]
            fs = [f for f in sweep(pk, fields, lambda: pk.announce(ev))]
            fs += [pk.announce(ev) for _ in range(nrand)]
            ms = [pk.maxscrape() for _ in fs]
        else:
            big = n > 16
            reps = 1 if big else (2 if quick else 6)
            fs = [pk.scrape(n) for _ in range(reps)]
            # write + read back with the limit at, below and above the list length
            ms = [255] + [pk.r.choice((max(n - 1, 0), n, min(n + 1, 255), pk.r.randrange(256)))
                          for _ in range(reps - 1)]
            if big or reps == 1:
                fs.append(pk.scrape(n))
                ms.append(pk.r.choice((0, 1, max(n - 1, 0), n, min(n + 1, 255), pk.r.randrange(256))))
        for f, m in zip(fs, ms):
            cases.append({"ev": "req", "gen": c, "kind": kind, "f": f, "max": m})
        return cases
    # replies
    if kind == "connect":
        mk = lambda: {"tid": pk.val(4), "cid": pk.val(8)}
        fs = sweep(pk, (("tid", 4), ("cid", 8)), mk) + [{"tid": pk.rb(4), "cid": pk.rb(8)} for _ in range(nrand)]
        fams = [pk.r.choice((4, 6)) for _ in fs]
    elif kind == "announce":
        mk = lambda: {"tid": pk.val(4), "interval": pk.val(4), "leechers": pk.val(4), "seeders": pk.val(4),
                      "peers": pk.peers(fam, n)}
        if n <= 2:
            fs = sweep(pk, (("tid", 4), ("interval", 4), ("leechers", 4), ("seeders", 4)), mk)
            if n > 0:  # boundary addresses / ports in every position
                w = 4 if fam == 4 else 16
                for ip in POOL[w]:
                    for port in B2 + [[0, 0]]:
                        f = mk()
                        f["peers"][pk.r.randrange(n)] = [list(ip), list(port)]
                        fs.append(f)
        else:
            fs = []
        fs += [mk() for _ in range(1 if n > 16 else (2 if quick else 6))]
        fams = [fam for _ in fs]
    elif kind == "scrape":
        mk = lambda: {"tid": pk.val(4), "stats": pk.stats(n)}
        fs = [mk() for _ in range(1 if n > 16 else (3 if quick else 8))]
        if 0 < n <= 2:
            for v in B4:
                for j in range(3):
                    f = mk()
                    f["stats"][pk.r.randrange(n)][j] = list(v)
                    fs.append(f)
        fams = [pk.r.choice((4, 6)) for _ in fs]
    else:
        mk = lambda: {"tid": pk.val(4), "msg": pk.msg(n)}
        fs = [mk() for _ in range(1 if n > 16 else (3 if quick else 8))]
        fams = [pk.r.choice((4, 6)) for _ in fs]
    for i, (f, fm) in enumerate(zip(fs, fams)):
        cases.append({"ev": "resp", "gen": c, "kind": kind, "fam": fm, "f": f})
        if i % 4 == 0:   # the reader alone, on bytes that did not come from the real writer
            cases.append({"ev": "presp", "gen": c, "kind": kind, "fam": fm, "f": f,
                          "bytes": enc_resp(kind, fm, f)})
    return cases


def build_runs(ctx, struct, rt):
    pk = Picker(ctx.seed * 7919 + 13)
    groups = {}
    reps = 1 if ctx.quick() else 4
    for c in struct:
        heavy = c["grp"] == "cut" and c["p"]["n"] > 16
        light = c["grp"] in ("action", "event", "magic", "port")   # few classes: more field values each
        for _ in range(1 if heavy else (reps * 8 if light else reps)):
            groups.setdefault("parse:" + c["grp"] + (":" + c["kind"] if c["grp"] == "trunc" else ""), []) \
                .append(concretise_struct(pk, c))
    for c in rt:
        for case in concretise_rt(pk, c, ctx.quick()):
            groups.setdefault("%s:%s" % (c["dir"], c["kind"]), []).append(case)
    groups["parse:fuzz"] = [fuzz_case(pk) for _ in range(400 if ctx.quick() else 12000)]
    runs = []
    cid = 0
    for name in sorted(groups):
        cs = groups[name]
        size = 400
        for k in range(0, len(cs), size):
            part = cs[k:k + size]
            for case in part:
                case["id"] = cid
                cid += 1
            runs.append({"run": len(runs), "group": name, "cases": part})
    return runs


def write_cases(path, runs):
    with open(path, "w") as f:
        for r in runs:
            f.write(json.dumps({"ev": "reset", "run": r["run"], "group": r["group"]}) + "\n")
            for c in r["cases"]:
                f.write(json.dumps(c, separators=(",", ":")) + "\n")


# ---------------------------------------------------------------------------
# signatures, self-test mutations

def classify(ev, prefix, last_state):
    sig = {"codec": "udp"}
    if isinstance(ev, dict):
        sig["ev"] = ev.get("ev")
        g = ev.get("gen") or {}
        if isinstance(g, dict):
            sig["grp"] = g.get("grp", g.get("dir"))
            sig["kind"] = g.get("kind")
            x = g.get("x")
            if isinstance(x, dict):
                sig["class"] = x.get("class")
    return sig


def _copy(evs):
    return json.loads(json.dumps(evs))


def mut_wbytes(evs):
    """one byte of the bytes written for an announce request"""
    for i, e in enumerate(evs):
        if e.get("ev") == "req" and e.get("kind") == "announce":
            m = _copy(evs)
            m[i]["wbytes"][60] = (m[i]["wbytes"][60] + 1) % 256
            return m, "byte 60 (downloaded) of a written announce request +1 at event %d" % i
    return None


def mut_swap_fields(evs):
    """left / uploaded exchanged in the parse result of an accepted announce datagram"""
    for i, e in enumerate(evs):
        if e.get("ev") == "parse" and e["res"].get("ok") and e["res"].get("kind") == "announce" \
                and e["res"]["f"]["left"] != e["res"]["f"]["up"]:
            m = _copy(evs)
            f = m[i]["res"]["f"]
            f["left"], f["up"] = f["up"], f["left"]
            return m, "left/uploaded exchanged in a parsed announce at event %d" % i
    return None


def mut_accept(evs):
    """a rejected datagram (bad event) logged as accepted"""
    for i, e in enumerate(evs):
        if e.get("ev") == "parse" and not e["res"].get("ok") and "gen" in e \
                and e["gen"]["x"]["class"] == "bad_event":
            m = _copy(evs)
            f = {"cid": [0] * 8, "tid": [0] * 4, "hash": [0] * 20, "pid": [0] * 20, "down": [0] * 8,
                 "left": [0] * 8, "up": [0] * 8, "event": "none", "ip": [0] * 4, "key": [0] * 4,
                 "numwant": [0] * 4, "port": [0, 1]}
            b = e["bytes"]
            f.update(cid=b[0:8], tid=b[12:16], hash=b[16:36], pid=b[36:56], down=b[56:64], left=b[64:72],
                     up=b[72:80], ip=b[84:88], key=b[88:92], numwant=b[92:96], port=b[96:98])
            m[i]["res"] = {"ok": True, "kind": "announce", "f": f}
            return m, "announce with an unknown event logged as accepted at event %d" % i
    return None


def mut_cut(evs):
    """a scrape cut to maxScrape + 1 hashes"""
    for i, e in enumerate(evs):
        if e.get("ev") == "parse" and e["res"].get("ok") and e["res"].get("kind") == "scrape":
            got = len(e["res"]["f"]["hashes"])
            have = (len(e["bytes"]) - 16) // 20
            if got < have:
                m = _copy(evs)
                s = 16 + 20 * got
                m[i]["res"]["f"]["hashes"].append(e["bytes"][s:s + 20])
                return m, "scrape cut to max_scrape_torrents+1 hashes at event %d" % i
    return None


def mut_resp_order(evs):
    """leechers / seeders exchanged in the bytes of an announce reply"""
    for i, e in enumerate(evs):
        if e.get("ev") == "resp" and e.get("kind") == "announce" and e["f"]["leechers"] != e["f"]["seeders"]:
            m = _copy(evs)
            w = m[i]["wbytes"]
            w[12:16], w[16:20] = w[16:20], w[12:16]
            return m, "leechers/seeders exchanged in written announce reply at event %d" % i
    return None


SELFTESTS = (mut_wbytes, mut_swap_fields, mut_accept, mut_cut, mut_resp_order)


# ---------------------------------------------------------------------------

def observed(tpath):
    """What the run exercised, counted on the recorded trace (for evidence and vacuity)."""
    o = {"events": 0, "by_ev": {}, "classes": {}, "accepted": 0, "rejected": 0, "sendable": 0,
         "unsendable": 0, "announce_events": {}, "reply_peers": {4: set(), 6: set()}, "scrape_hashes": set(),
         "max_scrape": set(), "bytes": 0, "cut_pairs": 0, "trunc_lengths": set()}
    for line in open(tpath):
        e = json.loads(line)
        ev = e.get("ev")
        if ev == "reset":
            continue
        o["events"] += 1
        o["by_ev"][ev] = o["by_ev"].get(ev, 0) + 1
        g = e.get("gen") or {}
        if ev == "parse":
            cl = g["x"]["class"] if g else "(fuzz: class decided by the specification only)"
            o["classes"][cl] = o["classes"].get(cl, 0) + 1
            o["bytes"] += len(e["bytes"])
            o["max_scrape"].add(e["max"])
            if g and g["grp"] == "cut":
                o["cut_pairs"] += 1
                o["scrape_hashes"].add(g["p"]["n"])
            if g and g["grp"] == "trunc":
                o["trunc_lengths"].add(g["p"]["len"])
            r = e["res"]
            if r["ok"]:
                o["accepted"] += 1
                if r["kind"] == "announce":
                    n = r["f"]["event"]
                    o["announce_events"][n] = o["announce_events"].get(n, 0) + 1
            else:
                o["rejected"] += 1
                o["sendable" if r.get("sendable") else "unsendable"] += 1
        elif ev in ("req", "resp"):
            o["bytes"] += len(e.get("wbytes", []))
            if ev == "req" and e["kind"] == "announce":
                n = "w:" + e["f"]["event"]
                o["announce_events"][n] = o["announce_events"].get(n, 0) + 1
            if ev == "req" and e["kind"] == "scrape":
                o["scrape_hashes"].add(len(e["f"]["hashes"]))
                o["max_scrape"].add(e["max"])
            if ev == "resp" and e["kind"] == "announce":
                o["reply_peers"][e["fam"]].add(len(e["f"]["peers"]))
    return o


NEEDED_CLASSES = ("ok", "ok_padded", "too_few", "bad_magic", "bad_event", "port_zero", "no_hashes",
                  "not_multiple", "bad_action")


def run(ctx):
    # 1. laws of the reference codec
    mc_cfg = "Bep15_MC.cfg" if ctx.quick() else "Bep15_MC_T.cfg"   # 2 / 3 value patterns per field
    res = run_tlc(ctx, "Bep15_MC", mc_cfg, workers=8, timeout=1200)
    require_mc_ok(ctx, res, mc_cfg)
    # negative controls: wrong codecs must be refuted by the same laws
    negs = ["Bep15_MC_Neg.cfg"] if ctx.quick() else ["Bep15_MC_Neg.cfg", "Bep15_MC_Neg2.cfg", "Bep15_MC_Neg3.cfg"]
    for cfg in negs:
        r = run_tlc(ctx, "Bep15_MC", cfg, workers=8, timeout=600)
        if r["ok"] or not tlc_is_spec_violation(r):
            raise ToolError("negative control %s: a wrong reference codec was not refuted (%s)" % (cfg, r.get("error")))
        ctx.stage("negative-control", cfg=cfg, error=r["error"])
    # 2. cases
    struct, rt = tlc_cases(ctx)
    runs = build_runs(ctx, struct, rt)
    cpath, tpath = ctx.path("cases.jsonl"), ctx.path("trace.ndjson")
    write_cases(cpath, runs)
    # 3. the real code
    cargo_build(ctx)
    run_harness(ctx, "udp_codec", [cpath, tpath], timeout=900)
    nev, npanic = count_events(tpath)
    ctx.stage("execute", runs=len(runs), events=nev, panics=npanic)
    # 4a. tool consistency: inputs are what TLC asked for
    g = validate_trace(ctx, TRACE[0], TRACE[1], tpath, timeout=1500, name="genpass", env=GENPASS)
    if not g["accepted"] and not (isinstance(g["event"], dict) and g["event"].get("ev") == "panic"):
        raise ToolError("case generator and specification disagree at line %d: %s"
                        % (g["matched"] + 1, json.dumps(g["event"])[:1500]))
    ctx.stage("genpass", events=g["total"], wall_s=g["wall_s"])
    # 4b. the verdict
    acc, fails = validate_and_report(ctx, TRACE[0], TRACE[1], tpath, "judge", classify, None, env=JUDGE)
    # 5. binding self-test
    if not fails:
        for i, mt in enumerate(SELFTESTS):
            binding_selftest(ctx, TRACE[0], TRACE[1], tpath, mt, label="selftest%d" % i, env=JUDGE)
    # 6. evidence
    o = observed(tpath)
    missing = [c for c in NEEDED_CLASSES if not o["classes"].get(c)]
    evs_seen = [e for e in EVENTS if o["announce_events"].get(e) and o["announce_events"].get("w:" + e)]
    if not fails and (missing or len(evs_seen) != 4 or not o["accepted"] or not o["rejected"]):
        raise ToolError("vacuity: classes never exercised %s, events seen %s" % (missing, evs_seen))
    ctx.coverage.update({
        "rule": "every structural class of request datagram that TLC enumerates (truncation lengths, action, "
                "event, protocol id, port, scrape payload length, maxScrape x hash count) and every kind of "
                "well-formed message (4 events, both families, list lengths) is executed on the real codec with "
                "boundary values in every field position and seeded random values; every line validated by TLC: "
                "written bytes = reference bytes, accept/reject, every parsed field, scrape cut",
        "structural_cases_from_tlc": len(struct), "wellformed_choices_from_tlc": len(rt),
        "executed_cases": o["events"], "cases_by_kind": o["by_ev"], "datagram_classes": o["classes"],
        "datagrams_accepted": o["accepted"], "datagrams_rejected": o["rejected"],
        "rejections_sendable_unsendable_not_judged": [o["sendable"], o["unsendable"]],
        "announce_events_parsed_and_written": o["announce_events"],
        "truncation_lengths": len(o["trunc_lengths"]),
        "scrape_hash_counts": len(o["scrape_hashes"]), "max_scrape_values": len(o["max_scrape"]),
        "maxscrape_x_count_pairs": o["cut_pairs"],
        "reply_peer_counts_v4": len(o["reply_peers"][4]), "reply_peer_counts_v6": len(o["reply_peers"][6]),
        "bytes_compared": o["bytes"], "selftest_mutations": len(SELFTESTS) if not fails else 0,
    })
    sampled = set()
    for r in runs:
        if r["group"] in ("parse:event", "req:announce", "resp:announce", "parse:cut") and r["group"] not in sampled:
            sampled.add(r["group"])
            c = r["cases"][-1]
            s = {k: c[k] for k in ("ev", "gen", "kind", "fam", "max") if k in c}
            if "bytes" in c:
                s["bytes_len"] = len(c["bytes"])
            ctx.add_sample(s)
    ctx.assumptions += [
        "a field's value is its big-endian byte tuple; the executor converts only with from_be_bytes/to_be_bytes",
        "a connect request followed by further bytes is left open (BEP 15 and the statement are silent): "
        "accepted or rejected, but fields must be right if accepted",
        "which kind of error a rejection produces (sendable / unsendable, text) is recorded, not judged",
        "error messages are UTF-8 (the reply type holds a str)",
        "TLC and the TLA+ standard/community modules are correct",
    ]


def replay(ctx, path):
    """Re-run the cases of a replay file on the current code and judge them again."""
    rp = json.load(open(path))["replay"]
    cases = []
    for e in rp["events"]:
        e = e.get("case", e) if e.get("ev") == "panic" else e
        cases.append({k: v for k, v in e.items() if k not in ("wbytes", "back", "res", "werr")})
    if not cases or cases[0].get("ev") != "reset":
        cases.insert(0, {"ev": "reset", "run": 0, "group": "replay"})
    cpath, tpath = ctx.path("replay_cases.jsonl"), ctx.path("replay_trace.ndjson")
    with open(cpath, "w") as f:
        for c in cases:
            f.write(json.dumps(c) + "\n")
    cargo_build(ctx)
    run_harness(ctx, "udp_codec", [cpath, tpath])
    validate_and_report(ctx, TRACE[0], TRACE[1], tpath, "replay", classify, None, env=JUDGE)
