"""C17 - WebTorrent tracker routes to the right connection; closed ones leave no peers."""
import random

from vlib import *
from storage import *
from net import *
from ws_e2e import *
from http_e2e import make_cert
import ws_storage as W

V4_IPS = ["127.0.0.2", "127.0.0.3", "127.0.0.4", "127.0.0.5"]


def scenario(ctx, trace, run_id, sw, ww, rnd, nops, max_offers=3, rst_closes=True, tls=False):
    import ws_e2e
    port = free_port(socket.SOCK_STREAM)
    cfg = ws_config(port, sw, ww, max_offers=max_offers, max_scrape=255, addr="[::]")
    # configurations with several socket workers also answer plain-HTTP health checks on the same port
    # (the connection task peeks at the first bytes): the WebSocket behaviour must not depend on it
    # (the tracker does not combine health checks with TLS)
    health = sw > 1 and not tls
    cfg["network"]["enable_http_health_checks"] = health
    if tls:
        cert = make_cert(ctx, "c17_%d" % run_id)
        cfg["network"].update({"enable_tls": True, "tls_certificate_path": cert[0], "tls_private_key_path": cert[1]})
    t = Tracker(ctx, "ws", cfg, "c17_%d_%d%s" % (sw, ww, "_tls" if tls else ""))
    ws_e2e.USE_TLS = tls
    clients = {}
    stats = {"ops": 0, "frames": 0, "closes": 0, "health_probes": 0, "health_ok": 0}

    def health_probe():
        stats["health_probes"] += 1
        data = b""
        try:
            s = socket.create_connection(("127.0.0.1", port), timeout=2.0)
            s.sendall(b"GET /health HTTP/1.1\r\nHost: x\r\n\r\n")
            s.settimeout(2.0)
            while len(data) < 200:
                chunk = s.recv(200)
                if not chunk:
                    break
                data += chunk
            s.close()
        except OSError:
            pass        # the tracker closes with the request unread, which resets the connection after the reply
        if data.startswith(b"HTTP/1.1 200") and data.endswith(b"Ok"):
            stats["health_ok"] += 1

    try:
        tcp_wait_ready(("127.0.0.1", port), tracker=t)
        trace.append({"ev": "reset", "run": run_id, "tracker": "ws", "socket_workers": sw, "swarm_workers": ww,
                      "max_offers": max_offers, "max_scrape": 255, "max_peer_age": 3600, "max_offer_age": 3600,
                      "mode": "off", "dumps": False})
        beh = W.random_behaviours(rnd.randrange(1 << 30), 1, nops, dumps=False, offer_bias=True)[0]

        def client_for(c, fam):
            name = "c%d_%d" % (c[0], c[1])
            if name not in clients:
                ip = rnd.choice(V4_IPS) if fam == 4 else "::1"
                clients[name] = WsClient(name, ip, ("127.0.0.1", port) if fam == 4 else ("::1", port))
            return clients[name]

        def live():
            return [c for c in clients.values() if not c.closed]

        for op in beh["ops"]:
            if op["op"] == "clean" or op.get("second_pid"):
                continue          # second peer ids: dedicated scenario below
            cl = client_for(op["c"], op["fam"])
            if cl.closed:
                continue
            stats["ops"] += 1
            if health and stats["ops"] % 9 == 0:
                health_probe()
            if op["op"] == "announce":
                offers = op["offers"]
                cl.send_text(announce_msg(op["h"], op["pid"], op["event"], op["left"], offers, op["answer"]),
                             binary=rnd.random() < 0.2)
                got = settle(live(), 0.12, sender=cl)
                frames = [abstract_frame(m, n) for n, m in got]
                stats["frames"] += len(frames)
                others = order_like(offers or [], [f for f in frames if f["to"][0] != cl.name])
                mine = [f for f in frames if f["to"][0] == cl.name]
                refused = cl.closed and len(mine) == 1 and mine[0]["kind"] == "error"
                if not refused and cl.closed:
                    # the tracker closed the connection: give the frames a moment more
                    pass
                trace.append({"ev": "announce", "c": [cl.name, 0], "fam": op["fam"], "h": op["h"], "pid": op["pid"],
                              "event": "none" if op["event"] in ("none",) else op["event"], "left": op["left"],
                              "offers": offers or [], "answer": op["answer"], "now": 0, "refused": refused,
                              "out": others + mine})
            elif op["op"] == "scrape":
                cl.send_text(scrape_msg(op["hs"], op.get("single", False)))
                got = settle(live(), 0.12, sender=cl)
                frames = [abstract_frame(m, n) for n, m in got]
                stats["frames"] += len(frames)
                trace.append({"ev": "scrape", "c": [cl.name, 0], "fam": op["fam"], "hs": op["hs"], "out": frames})
            elif op["op"] == "close":
                if rst_closes and rnd.random() < 0.5:
                    cl.close(rst=True)
                else:
                    cl.send_close_frame()
                    time.sleep(0.02)
                    cl.close()
                cl.closed = True
                stats["closes"] += 1
                got = settle(live(), 0.2)
                frames = [abstract_frame(m, n) for n, m in got]
                trace.append({"ev": "close", "c": [cl.name, 0], "fam": op["fam"]})
                if frames:
                    # nothing may be sent to anybody because a connection closed
                    trace.append({"ev": "unexpected", "frames": frames})
        # final scrapes from a fresh connection of each family: closed connections left nothing
        for fam, ip in ((4, "127.0.0.6"), (6, "::1")):
            fc = WsClient("final%d" % fam, ip, ("127.0.0.1", port) if fam == 4 else ("::1", port))
            clients[fc.name] = fc
            fc.send_text(scrape_msg([1, 2, 17]))
            got = settle([fc], 0.2, sender=fc)
            trace.append({"ev": "scrape", "c": [fc.name, 0], "fam": fam, "hs": [1, 2, 17],
                          "out": [abstract_frame(m, n) for n, m in got]})
        if not t.alive():
            trace.append({"ev": "tracker_died", "stderr": t.stderr()[-600:]})
    finally:
        ws_e2e.USE_TLS = False
        for c in clients.values():
            c.close()
        t.stop()
    return stats


def order_like(offers, frames):
    """Frames for other connections arrive in no particular order across connections: present the
    forwarded offers in the order of the announce's offer list (pure presentation, no judgement)."""
    rest = list(frames)
    out = []
    for oid in offers:
        for f in rest:
            if f.get("kind") == "offer" and f.get("oid") == oid:
                out.append(f)
                rest.remove(f)
                break
    return out + rest


def second_pid_scenario(ctx, trace, run_id, second_event="started"):
    """A connection that announces a second peer id for a torrent it has not stopped is refused with an error
    (whatever the event of that second announce)."""
    port = free_port(socket.SOCK_STREAM)
    t = Tracker(ctx, "ws", ws_config(port, 2, 2, addr="[::]"), "c17_secondpid")
    cls = []
    try:
        tcp_wait_ready(("127.0.0.1", port), tracker=t)
        trace.append({"ev": "reset", "run": run_id, "tracker": "ws", "max_offers": 10, "max_scrape": 255,
                      "max_peer_age": 3600, "max_offer_age": 3600, "mode": "off", "dumps": False,
                      "scenario": "second_pid"})
        a = WsClient("A", "127.0.0.2", ("127.0.0.1", port))
        b = WsClient("B", "127.0.0.3", ("127.0.0.1", port))
        cls = [a, b]
        for cl, pid, evn in ((a, 1, "started"), (b, 2, "started"), (a, 3, second_event)):
            cl.send_text(announce_msg(1, pid, evn, 1, [], []))
            got = settle([c for c in cls if not c.closed], 0.3, sender=cl, max_wait=4.0)
            frames = [abstract_frame(m, n) for n, m in got]
            mine = [f for f in frames if f["to"][0] == cl.name]
            trace.append({"ev": "announce", "c": [cl.name, 0], "fam": 4, "h": 1, "pid": pid, "event": evn,
                          "left": 1, "offers": [], "answer": [], "now": 0,
                          "refused": cl.closed and len(mine) == 1 and mine[0]["kind"] == "error",
                          "conn_closed_by_tracker": cl.closed,
                          "out": [f for f in frames if f["to"][0] != cl.name] + mine})
        b.send_text(scrape_msg([1]))
        got = settle([b], 0.3, sender=b)
        trace.append({"ev": "scrape", "c": ["B", 0], "fam": 4, "hs": [1], "out": [abstract_frame(m, n) for n, m in got]})
    finally:
        for c in cls:
            c.close()
        t.stop()
    # The refusal's error frame is a recorded finding (KF-C17-refusal-error-lost), and a rejected run is
    # validated no further.  So that the finding does not hide what follows it - the refused connection's
    # clean-up, observed by B's scrape - the same observations are validated a second time as a run of
    # their own in which exactly that known deviation (connection closed by the tracker, error frame
    # missing) is replaced by what the specification expects.  Nothing else is touched.
    start = max(i for i, e in enumerate(trace) if e.get("ev") == "reset")
    run = json.loads(json.dumps(trace[start:]))
    repaired = 0
    for e in run:
        if e.get("ev") == "announce" and e.get("conn_closed_by_tracker") and not e.get("refused") \
                and not [f for f in e["out"] if f["to"][0] == e["c"][0]]:
            e["refused"] = True
            e["out"] = [f for f in e["out"] if f["to"][0] != e["c"][0]] + [{"kind": "error", "to": e["c"], "h": e["h"]}]
            e["repaired_known_deviation"] = "KF-C17-refusal-error-lost"
            repaired += 1
    if repaired:
        run[0]["run"] = run_id + 1000
        run[0]["scenario"] = "second_pid_cleanup"
        trace.extend(run)


def idle_close_scenario(ctx, trace, run_id):
    """A connection closed BY THE TRACKER (idle longer than max_connection_idle) must leave no peers either."""
    port = free_port(socket.SOCK_STREAM)
    cfg = ws_config(port, 2, 2, addr="[::]")
    cfg["cleaning"]["max_connection_idle"] = 2
    cfg["cleaning"]["connection_cleaning_interval"] = 1
    t = Tracker(ctx, "ws", cfg, "c17_idle")
    cls = []
    try:
        tcp_wait_ready(("127.0.0.1", port), tracker=t)
        trace.append({"ev": "reset", "run": run_id, "tracker": "ws", "max_offers": 10, "max_scrape": 255,
                      "max_peer_age": 3600, "max_offer_age": 3600, "mode": "off", "dumps": False,
                      "scenario": "idle_close"})
        a = WsClient("A", "127.0.0.2", ("127.0.0.1", port))
        cls.append(a)
        for h, left in ((1, 0), (2, 1)):
            a.send_text(announce_msg(h, 1, "started", left, [], []))
            got = settle([a], 0.15, sender=a)
            trace.append({"ev": "announce", "c": ["A", 0], "fam": 4, "h": h, "pid": 1, "event": "started",
                          "left": left, "offers": [], "answer": [], "now": 0, "refused": False,
                          "out": [abstract_frame(m, n) for n, m in got]})
        t_end = time.monotonic() + 8.0
        while not a.closed and time.monotonic() < t_end:
            a.pump()
            time.sleep(0.1)
        if not a.closed:
            raise ToolError("the tracker did not close an idle connection within 8 s (max_connection_idle = 2)")
        trace.append({"ev": "close", "c": ["A", 0], "fam": 4, "closed_by": "tracker (idle)"})
        time.sleep(0.4)
        b = WsClient("B", "127.0.0.3", ("127.0.0.1", port))
        cls.append(b)
        b.send_text(scrape_msg([1, 2]))
        got = settle([b], 0.3, sender=b)
        trace.append({"ev": "scrape", "c": ["B", 0], "fam": 4, "hs": [1, 2], "out": [abstract_frame(m, n) for n, m in got]})
    finally:
        for c in cls:
            c.close()
        t.stop()


def tls_update_scenario(ctx, trace, run_id):
    """A third way in which the tracker itself closes connections: after a successful TLS certificate update
    (SIGUSR1) connections accepted under the previous certificate are closed once
    close_after_tls_update_grace_period has passed (counted from the next connection cleaning).  Until then they
    keep working; afterwards their peers must be gone; connections accepted under the new certificate stay."""
    import signal
    import ws_e2e
    port = free_port(socket.SOCK_STREAM)
    cfg = ws_config(port, 2, 2, addr="[::]")
    c1 = make_cert(ctx, "c17_tlsupd_a", cn="first")
    c2 = make_cert(ctx, "c17_tlsupd_b", cn="second")
    cfg["network"].update({"enable_tls": True, "tls_certificate_path": c1[0], "tls_private_key_path": c1[1]})
    cfg["cleaning"]["connection_cleaning_interval"] = 1
    cfg["cleaning"]["close_after_tls_update_grace_period"] = 2
    t = Tracker(ctx, "ws", cfg, "c17_tlsupd")
    cls = []
    info = {}
    ws_e2e.USE_TLS = True
    try:
        tcp_wait_ready(("127.0.0.1", port), tracker=t)
        trace.append({"ev": "reset", "run": run_id, "tracker": "ws", "max_offers": 10, "max_scrape": 255,
                      "max_peer_age": 3600, "max_offer_age": 3600, "mode": "off", "dumps": False,
                      "scenario": "tls_update_close"})
        a = WsClient("A", "127.0.0.2", ("127.0.0.1", port))
        cls.append(a)
        info["cert_seen_by_A_is_first"] = a.cert_sha == c1[2]
        for h, left in ((1, 0), (2, 1)):
            a.send_text(announce_msg(h, 1, "started", left, [], []))
            got = settle([a], 0.15, sender=a)
            trace.append({"ev": "announce", "c": ["A", 0], "fam": 4, "h": h, "pid": 1, "event": "started",
                          "left": left, "offers": [], "answer": [], "now": 0, "refused": False,
                          "out": [abstract_frame(m, n) for n, m in got]})
        # replace certificate and key (each file atomically), then ask for the reload
        for src, dst in ((c2[0], c1[0]), (c2[1], c1[1])):
            tmp = dst + ".new"
            shutil.copy(src, tmp)
            os.rename(tmp, dst)
        t.signal(signal.SIGUSR1)
        time.sleep(0.5)
        b = WsClient("B", "127.0.0.3", ("127.0.0.1", port))
        cls.append(b)
        info["cert_seen_by_B_is_second"] = b.cert_sha == c2[2]
        # inside the grace period the old connection still works: it is re-announced as long as it is open
        a.pump()
        if not a.closed:
            a.send_text(announce_msg(2, 1, "completed", 0, [], []))
            got = settle([a, b], 0.15, sender=a)
            if not a.closed or got:
                trace.append({"ev": "announce", "c": ["A", 0], "fam": 4, "h": 2, "pid": 1, "event": "completed",
                              "left": 0, "offers": [], "answer": [], "now": 0, "refused": False,
                              "out": [abstract_frame(m, n) for n, m in got]})
                info["old_connection_served_in_grace_period"] = bool(got)
        t_end = time.monotonic() + 12.0
        while not a.closed and time.monotonic() < t_end:
            a.pump()
            b.pump()
            time.sleep(0.1)
        info["old_connection_closed_by_tracker"] = a.closed
        if a.closed:
            trace.append({"ev": "close", "c": ["A", 0], "fam": 4, "closed_by": "tracker (TLS update grace period over)"})
            time.sleep(0.4)
        # the connection accepted under the new certificate is still served - and sees what is stored now
        b.send_text(scrape_msg([1, 2]))
        got = settle([b], 0.3, sender=b)
        trace.append({"ev": "scrape", "c": ["B", 0], "fam": 4, "hs": [1, 2], "out": [abstract_frame(m, n) for n, m in got]})
        info["new_connection_open_afterwards"] = not b.closed
    finally:
        ws_e2e.USE_TLS = False
        for c in cls:
            c.close()
        t.stop()
    return info


def classify(ev, prefix, last_state):
    sig = {"tracker": "ws", "part": "server"}
    for e in prefix[:1]:
        if isinstance(e, dict) and e.get("scenario"):
            sig["scenario"] = e["scenario"]
    if isinstance(ev, dict) and ev.get("ev") == "announce":
        sig["conn_closed_by_tracker"] = ev.get("conn_closed_by_tracker")
        sig["out_empty"] = ev.get("out") == []
    if isinstance(ev, dict):
        sig["ev"] = ev.get("ev")
        if ev.get("ev") == "scrape" and ev.get("hs") == [] and ev.get("out") == []:
            sig["empty_scrape_unanswered"] = True
    return sig


def empty_scrape_scenario(ctx, trace, run_id):
    """A scrape with an empty info_hash list is a scrape 'with no hashes': it still needs exactly one reply."""
    port = free_port(socket.SOCK_STREAM)
    t = Tracker(ctx, "ws", ws_config(port, 1, 2, addr="[::]"), "c17_empty")
    cl = None
    try:
        tcp_wait_ready(("127.0.0.1", port), tracker=t)
        trace.append({"ev": "reset", "run": run_id, "tracker": "ws", "max_offers": 10, "max_scrape": 255,
                      "max_peer_age": 3600, "max_offer_age": 3600, "mode": "off", "dumps": False,
                      "scenario": "empty_scrape"})
        cl = WsClient("E", "127.0.0.2", ("127.0.0.1", port))
        cl.send_text(json.dumps({"action": "scrape", "info_hash": []}))
        got = settle([cl], 0.4, sender=cl, max_wait=1.0)
        trace.append({"ev": "scrape", "c": ["E", 0], "fam": 4, "hs": [], "out": [abstract_frame(m, n) for n, m in got]})
    finally:
        if cl:
            cl.close()
        t.stop()


def mutate_misroute(evs):
    """Deliver a forwarded offer to a connection that has no peer in that torrent."""
    for i in range(len(evs) - 1, -1, -1):
        e = evs[i]
        if e.get("ev") == "announce":
            for k, m in enumerate(e.get("out", [])):
                if m["kind"] == "offer":
                    mm = json.loads(json.dumps(evs))
                    mm[i]["out"][k]["to"] = ["bystander", 0]
                    return mm, "offer delivered to a bystander connection instead of %s (event %d)" % (m["to"][0], i)
    return None


def mutate_ghost(evs):
    """Report a closed connection's peers in the final scrape."""
    for i in range(len(evs) - 1, -1, -1):
        e = evs[i]
        if e.get("ev") == "scrape" and e.get("out") and e["out"][0].get("kind") == "scrape":
            m = json.loads(json.dumps(evs))
            files = m[i]["out"][0]["files"]
            if files:
                files[0][2] += 1
            else:
                files.append([1, 0, 1])
            return m, "a peer that is not stored reported by the scrape at event %d" % i
    return None


def run(ctx):
    rnd = random.Random(ctx.seed + 170)
    import c08
    res = run_tlc(ctx, "WsSwarm_MC", "WsSwarm_MC_BQ.cfg" if ctx.quick() else "WsSwarm_MC_A.cfg", workers=8,
                  timeout=2400)
    require_mc_ok(ctx, res, "WsSwarm (ownership, ClosedLeavesNothing, offer routing)")
    res = run_tlc(ctx, "WsServer_MC", "WsServer_MC_Q.cfg" if ctx.quick() else "WsServer_MC.cfg", workers=8, timeout=1800)
    require_mc_ok(ctx, res, "WsServer (routing by consumer and slot, scrape merge, close)")
    neg = run_tlc(ctx, "WsServer_MC", "WsServer_MC_NegRoute.cfg", workers=8, timeout=600)
    if neg["ok"] or not tlc_is_spec_violation(neg):
        raise ToolError("negative control: routing by slot key only was not rejected")
    ctx.stage("negative-control", cfg="WsServer_MC_NegRoute.cfg", error=neg["error"])
    if not ctx.quick():
        live = run_tlc(ctx, "WsServer_MC", "WsServer_MC_Live.cfg", workers=4, timeout=1800)
        require_mc_ok(ctx, live, "WsServer: every scrape of an open connection is eventually answered (weak fairness)")
        race = run_tlc(ctx, "WsServer_MC", "WsServer_MC_Race.cfg", workers=8, timeout=600)
        ctx.stage("model-only observation", cfg="WsServer_MC_Race.cfg",
                  note="with closes allowed while an announce is in flight TLC reports: %s" % race.get("error"))
    cargo_build(ctx)
    trace = []
    combos = [(1, 1), (2, 3), (3, 2)] if ctx.quick() else [(s, w) for s in (1, 2, 3) for w in (1, 2, 3)]
    total = {"ops": 0, "frames": 0, "closes": 0, "health_probes": 0, "health_ok": 0}
    for k, (sw, ww) in enumerate(combos):
        st = scenario(ctx, trace, k, sw, ww, rnd, 90 if ctx.quick() else 220)
        for x in total:
            total[x] += st[x]
    empty_scrape_scenario(ctx, trace, 900)
    second_pid_scenario(ctx, trace, 901)
    second_pid_scenario(ctx, trace, 903, second_event="stopped")
    idle_close_scenario(ctx, trace, 902)
    # over TLS: the general scenario on one configuration, and the close-after-certificate-update path
    st = scenario(ctx, trace, 50, 2, 2, rnd, 60 if ctx.quick() else 160, tls=True)
    for x in total:
        total[x] += st[x]
    tls_info = tls_update_scenario(ctx, trace, 904)
    ctx.coverage["tls_update_scenario"] = tls_info
    tp = ctx.path("ws_server.ndjson")
    with open(tp, "w") as f:
        for e in trace:
            f.write(json.dumps(e, separators=(",", ":")) + "\n")
    acc, fails = validate_and_report(ctx, "WsRef_Trace", "WsRef_Trace.cfg", tp, "server", classify, max_failures=12)
    if not ctx.violations:
        binding_selftest(ctx, "WsRef_Trace", "WsRef_Trace.cfg", tp, mutate_misroute, label="selftest_route")
        binding_selftest(ctx, "WsRef_Trace", "WsRef_Trace.cfg", tp, mutate_ghost, label="selftest_ghost")
    kinds = {}
    for e in trace:
        for m in e.get("out", []):
            kinds[m["kind"]] = kinds.get(m["kind"], 0) + 1
    if kinds.get("offer", 0) == 0 or kinds.get("answer", 0) == 0:
        raise ToolError("vacuity: no offer / answer was relayed end to end: %s" % kinds)
    ctx.coverage.update({
        "configurations": ["%dx%d" % c for c in combos], "client_operations": total["ops"],
        "frames_received": total["frames"], "connections_closed": total["closes"], "frames_by_kind": kinds,
        "http_health_probes_between_operations (informational)": {"sent": total["health_probes"], "answered_200_Ok": total["health_ok"]},
        "rule": "running WebTorrent trackers (socket x swarm workers) behind a dual-stack listener; several "
                "WebSocket clients (IPv4 via mapped addresses, ::1) announce with offers, answer, scrape, announce a "
                "second peer id, close with a close frame or an abrupt RST, one operation at a time; after each "
                "operation every frame received by ANY client is logged with the connection it arrived on; TLC "
                "validates addressing, replies, refusals and - through later scrapes - that closed connections "
                "left nothing",
    })
    ctx.add_sample([e for e in trace if e.get("ev") == "announce"][:2])
    if not ctx.quick():
        # extension (never a verdict): TLS certificate handling of the HTTP and WebTorrent trackers
        import ext_tls
        try:
            ext = ext_tls.run(ctx)
        except ToolError as e:
            ext = {"error": str(e)[:300]}
        ctx.coverage.setdefault("extensions", {})["TlsReload"] = ext
        log("EXTENSION TlsReload (not a verdict on C17): %s" % json.dumps(ext)[:700])
    ctx.assumptions += [
        "operations are issued one at a time (settle window 120 ms); the in-flight-announce vs. close race is "
        "explored on the model (WsServer.tla) only",
        "which socket worker accepts a connection is decided by SO_REUSEPORT and not observed",
    ]


def c03_ws(ctx):
    """WebTorrent part of C03: an IPv4-mapped source lands in the IPv4 swarm."""
    rnd = random.Random(ctx.seed + 171)
    port = free_port(socket.SOCK_STREAM)
    t = Tracker(ctx, "ws", ws_config(port, 1, 1, addr="[::]"), "c03_ws")
    trace = []
    cls = []
    try:
        tcp_wait_ready(("127.0.0.1", port), tracker=t)
        trace.append({"ev": "reset", "run": 700, "tracker": "ws", "max_offers": 10, "max_scrape": 255,
                      "max_peer_age": 3600, "max_offer_age": 3600, "mode": "off", "dumps": False})
        a = WsClient("A", "127.0.0.2", ("127.0.0.1", port))      # arrives as ::ffff:127.0.0.2
        b = WsClient("B", "127.0.0.3", ("127.0.0.1", port))
        d = WsClient("D", "::1", ("::1", port))
        cls = [a, b, d]
        seq = [(a, 4, 1, 1), (b, 4, 1, 2), (d, 6, 1, 3), (a, 4, 2, 1), (d, 6, 2, 3)]
        for cl, fam, h, pid in seq:
            cl.send_text(announce_msg(h, pid, "started", 1, [7], []))
            got = settle(cls, 0.15, sender=cl)
            frames = [abstract_frame(m, n) for n, m in got]
            trace.append({"ev": "announce", "c": [cl.name, 0], "fam": fam, "h": h, "pid": pid, "event": "started",
                          "left": 1, "offers": [7], "answer": [], "now": 0, "refused": False,
                          "out": [f for f in frames if f["to"][0] != cl.name] + [f for f in frames if f["to"][0] == cl.name]})
        for cl, fam in ((a, 4), (d, 6), (b, 4)):
            cl.send_text(scrape_msg([1, 2]))
            got = settle(cls, 0.15, sender=cl)
            trace.append({"ev": "scrape", "c": [cl.name, 0], "fam": fam, "hs": [1, 2],
                          "out": [abstract_frame(m, n) for n, m in got]})
    finally:
        for c in cls:
            c.close()
        t.stop()
    tp = ctx.path("c03_ws.ndjson")
    with open(tp, "w") as f:
        for e in trace:
            f.write(json.dumps(e, separators=(",", ":")) + "\n")
    validate_and_report(ctx, "WsRef_Trace", "WsRef_Trace.cfg", tp, "ws",
                        lambda ev, p, s: {"tracker": "ws", "part": "addresses"})
    ctx.coverage["ws"] = {"mapped_and_native_sources": len(trace) - 1}
