"""Running real trackers as child processes and talking to them over the loopback network.

One tracker per child process (harness binary `srv`); ports are reserved by binding port 0 first;
children are always killed and reaped.
"""
import json
import os
import random
import select
import signal
import socket
import struct
import subprocess
import time

from vlib import *

PROTOCOL_ID = 0x41727101980


def free_port(kind=socket.SOCK_DGRAM, host="127.0.0.1"):
    """A port that is free for both UDP/TCP v4 and v6 right now."""
    for _ in range(50):
        s = socket.socket(socket.AF_INET, kind)
        s.bind((host, 0))
        port = s.getsockname()[1]
        s.close()
        ok = True
        for fam, h in ((socket.AF_INET, "127.0.0.1"), (socket.AF_INET6, "::1")):
            for k in (socket.SOCK_DGRAM, socket.SOCK_STREAM):
                t = socket.socket(fam, k)
                try:
                    t.bind((h, port))
                except OSError:
                    ok = False
                finally:
                    t.close()
        if ok:
            return port
    raise ToolError("could not find a free port")


class Tracker:
    """A running tracker child process."""

    def __init__(self, ctx, kind, config, name, faults=None, env=None):
        cargo_build(ctx)
        self.kind = kind
        self.name = name
        self.cfg_path = ctx.path("srv_%s.json" % name)
        with open(self.cfg_path, "w") as f:
            json.dump(config, f)
        self.out_path = ctx.path("srv_%s.out" % name)
        self.err_path = ctx.path("srv_%s.err" % name)
        e = dict(os.environ)
        e["RUST_BACKTRACE"] = "0"
        if faults:
            e["AQUATIC_VERIF_FAULTS"] = faults
        if env:
            e.update(env)
        self.out = open(self.out_path, "w")
        self.err = open(self.err_path, "w")
        self.proc = subprocess.Popen([hbin("srv"), kind, self.cfg_path], stdout=self.out,
                                     stderr=self.err, env=e, cwd=ctx.work)
        self.t_start = time.monotonic()

    def alive(self):
        return self.proc.poll() is None

    def stdout(self):
        self.out.flush()
        try:
            return open(self.out_path).read()
        except OSError:
            return ""

    def stderr(self):
        try:
            return open(self.err_path).read()
        except OSError:
            return ""

    def signal(self, sig):
        if self.alive():
            self.proc.send_signal(sig)

    def wait_exit(self, timeout):
        try:
            return self.proc.wait(timeout=timeout)
        except subprocess.TimeoutExpired:
            return None

    def stop(self):
        if self.proc.poll() is None:
            self.proc.kill()
        try:
            self.proc.wait(timeout=10)
        except Exception:
            pass
        for f in (self.out, self.err):
            try:
                f.close()
            except Exception:
                pass


# ---------------------------------------------------------------------------
# UDP (BEP 15) - the harness's own encoder / decoder

def connect_req(txid, magic=PROTOCOL_ID):
    return struct.pack(">qii", magic, 0, txid)


EVENTS = {"none": 0, "completed": 1, "started": 2, "stopped": 3}


def announce_req(conn_id, txid, info_hash, peer_id, left, event, port, numwant=-1, ip=0, key=0,
                 downloaded=0, uploaded=0, event_raw=None):
    ev = EVENTS[event] if event_raw is None else event_raw
    return (struct.pack(">qii", conn_id, 1, txid) + info_hash + peer_id +
            struct.pack(">qqqiIiiH", downloaded, left, uploaded, ev, ip, key, numwant, port))


def scrape_req(conn_id, txid, hashes):
    return struct.pack(">qii", conn_id, 2, txid) + b"".join(hashes)


def info_hash(h):
    b = bytearray([0xAB] * 20)
    b[0] = h % 256
    b[1:5] = h.to_bytes(4, "big")
    return bytes(b)


def peer_id(p):
    return ("-qB4250-%012d" % p).encode()


def decode_reply(data, fam):
    """-> dict(kind, txid, len, ...).  kind 'malformed' if it is not a BEP 15 reply."""
    n = len(data)
    if n < 8:
        return {"kind": "malformed", "len": n}
    action, txid = struct.unpack(">ii", data[:8])
    r = {"txid": txid, "len": n}
    if action == 0 and n == 16:
        r["kind"] = "connect"
        r["conn_id"] = struct.unpack(">q", data[8:16])[0]
    elif action == 1 and n >= 20:
        interval, leechers, seeders = struct.unpack(">iii", data[8:20])
        r.update(kind="announce", interval=interval, leechers=leechers, seeders=seeders)
        rest = data[20:]
        sz = 6 if fam == 4 else 18
        r["ragged"] = len(rest) % sz != 0
        peers = []
        for i in range(0, len(rest) - sz + 1, sz):
            ipb = rest[i:i + sz - 2]
            port = struct.unpack(">H", rest[i + sz - 2:i + sz])[0]
            ip = socket.inet_ntop(socket.AF_INET if fam == 4 else socket.AF_INET6, ipb)
            peers.append([ip, port])
        r["peers"] = peers
        r["fam"] = fam
    elif action == 2:
        rest = data[8:]
        r["kind"] = "scrape"
        r["ragged"] = len(rest) % 12 != 0
        stats = []
        for i in range(0, len(rest) - 11, 12):
            s, c, l = struct.unpack(">iii", rest[i:i + 12])
            stats.append([s, l])
        r["stats"] = stats
    elif action == 3:
        r["kind"] = "error"
        r["message"] = data[8:].decode("latin-1")
    else:
        r["kind"] = "malformed"
    return r


class UdpClient:
    """A UDP socket bound to a specific loopback address; one outstanding datagram at a time."""

    def __init__(self, ip, server, port=0):
        self.fam = 6 if ":" in ip else 4
        self.sock = socket.socket(socket.AF_INET6 if self.fam == 6 else socket.AF_INET, socket.SOCK_DGRAM)
        self.sock.bind((ip, port))
        self.ip = ip
        self.port = self.sock.getsockname()[1]
        self.server = server
        self.sock.setblocking(False)

    def send(self, data):
        self.sock.sendto(data, self.server)

    def recv(self, timeout):
        r, _, _ = select.select([self.sock], [], [], timeout)
        if not r:
            return None
        data, addr = self.sock.recvfrom(65536)
        return data, addr

    def close(self):
        self.sock.close()


def udp_wait_ready(server, ip="127.0.0.1", timeout=15.0, tracker=None):
    """Probe with connect requests until the tracker answers."""
    c = UdpClient(ip, server)
    t0 = time.monotonic()
    try:
        while time.monotonic() - t0 < timeout:
            if tracker is not None and not tracker.alive():
                raise ToolError("tracker %s exited during start-up: %s" % (tracker.name, tracker.stderr()[-500:]))
            c.send(connect_req(12345))
            r = c.recv(0.2)
            if r:
                return True
        raise ToolError("UDP tracker at %s did not answer within %.0fs" % (server, timeout))
    finally:
        c.close()


def tcp_wait_ready(addr, timeout=15.0, tracker=None):
    t0 = time.monotonic()
    fam = socket.AF_INET6 if ":" in addr[0] else socket.AF_INET
    while time.monotonic() - t0 < timeout:
        if tracker is not None and not tracker.alive():
            raise ToolError("tracker %s exited during start-up: %s" % (tracker.name, tracker.stderr()[-500:]))
        s = socket.socket(fam, socket.SOCK_STREAM)
        s.settimeout(0.5)
        try:
            s.connect(addr)
            s.close()
            return True
        except OSError:
            s.close()
            time.sleep(0.1)
    raise ToolError("TCP tracker at %s did not accept within %.0fs" % (addr, timeout))


def send_raw_udp_port0(src_ip, dst_ip, dst_port, payload):
    """An IPv4 UDP datagram with source port 0 through a raw socket (needs root)."""
    s = socket.socket(socket.AF_INET, socket.SOCK_RAW, socket.IPPROTO_UDP)
    try:
        length = 8 + len(payload)
        hdr = struct.pack(">HHHH", 0, dst_port, length, 0)      # checksum 0 = none (IPv4)
        s.bind((src_ip, 0))
        s.sendto(hdr + payload, (dst_ip, 0))
    finally:
        s.close()
