"""C08 - WebTorrent swarm bookkeeping and per-connection ownership of peers."""
from vlib import *
from storage import *
import ws_storage as W

RUN_CFG = {"max_offers": 1, "max_scrape": 2, "max_peer_age": 2, "max_offer_age": 1, "mode": "off",
           "dumps": True}


def model_check(ctx, quick_cfgs, thorough_cfgs):
    cfgs = list(quick_cfgs) + ([] if ctx.quick() else list(thorough_cfgs))
    for c in cfgs:
        res = run_tlc(ctx, "WsSwarm_MC", c, workers=8, timeout=5400, coverage=not ctx.quick())
        require_mc_ok(ctx, res, c)
        zero = coverage_zero_actions(res["out"], "WsSwarm") if not ctx.quick() else []
        if zero:
            raise ToolError("vacuity: actions never taken in %s: %s" % (c, zero))
    if not ctx.quick():
        # negative control: the pre-repair ownership rules must violate the properties
        res = run_tlc(ctx, "WsSwarm_MC", "WsSwarm_MC_Unfixed.cfg", workers=8, timeout=900)
        if res["ok"] or not tlc_is_spec_violation(res):
            raise ToolError("negative control failed: the unfixed ownership model was not rejected (%s)"
                            % res.get("error"))
        ctx.stage("negative-control", cfg="WsSwarm_MC_Unfixed.cfg", error=res["error"])


def conformance(ctx, seed_off, offer_bias, selftests):
    cargo_build(ctx)
    beh, gstats = gen_edge_cover(ctx, "WsSwarm_MC", "WsSwarm_Gen.cfg", W.arg_filter, W.to_exec_op,
                                 RUN_CFG)
    t1 = execute(ctx, "ws_exec", beh, "edgecover")
    acc1, f1 = validate_and_report(ctx, "WsRef_Trace", "WsRef_Trace.cfg", t1, "edgecover",
                                   W.classify, beh)
    nruns, nops = (24, 250) if ctx.quick() else (300, 400)
    rb = W.random_behaviours(ctx.seed + seed_off, nruns, nops, first_run=100000, offer_bias=offer_bias)
    t2 = execute(ctx, "ws_exec", rb, "random")
    acc2, f2 = validate_and_report(ctx, "WsRef_Trace", "WsRef_Trace.cfg", t2, "random",
                                   W.classify, rb)
    if not f1:
        for i, mt in enumerate(selftests):
            binding_selftest(ctx, "WsRef_Trace", "WsRef_Trace.cfg", t1, mt, label="selftest%d" % i)
    kinds = {}
    for tp in (t1, t2):
        for line in open(tp):
            for k in ("offer", "answer", "error", "scrape"):
                kinds[k] = kinds.get(k, 0) + line.count('"kind":"%s"' % k)
            for k in ('"refused":true', '"ev":"close"', '"out":[]'):
                kinds[k] = kinds.get(k, 0) + line.count(k)
    ctx.coverage["observed_out_messages"] = kinds
    if kinds.get("offer", 0) == 0 or kinds.get("answer", 0) == 0 or kinds.get('"refused":true', 0) == 0:
        raise ToolError("vacuity: the executed histories forwarded no offer / no answer / refused nothing: %s" % kinds)
    ctx.coverage.update({
        "model_edges": gstats["model_edges"], "model_edges_covered": gstats["covered"],
        "edge_cover_ops": gstats["ops"], "random_runs": nruns, "random_ops": nruns * nops})
    for b in (beh[:1] + rb[:1]):
        ctx.add_sample({"run": b["run"], "cfg": b["cfg"], "first_ops": b["ops"][:6]})


def run(ctx):
    model_check(ctx, ["WsSwarm_MC_A.cfg"], [])
    conformance(ctx, 8, False, [W.mutate_counts])
    ctx.coverage["rule"] = (
        "every transition of the generation model (2 connections on different socket workers sharing a slot "
        "key, 2 peer ids, offers, answers, close, clean) executed on the real WebTorrent TorrentMaps; random "
        "histories over connections on 3 socket workers with colliding slot keys; replies, out-message "
        "addressing and the stored state (owner, seeder, deadline, pending offers) validated by TLC")
    ctx.assumptions += [
        "the socket workers' announced_info_hashes bookkeeping is emulated by the executor as connection.rs "
        "does it and checked by the trace specification; the real socket workers are exercised by C17",
        "an offer's pending state belongs to the offering peer's stored entry (it dies with that entry)",
    ]
