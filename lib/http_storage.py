"""HTTP swarm-worker storage: behaviours, random driver, classification."""
import random

from vlib import *
from storage import *

ANN_ARGS = ("name", "t", "key", "event", "left", "numwant", "deadline")


def arg_filter(op):
    n = op["name"]
    if n == "announce":
        return {k: op[k] for k in ANN_ARGS}
    if n == "scrape":
        return {"name": n, "fam": op["fam"], "hs": op["hs"]}
    if n == "clean":
        return {"name": n, "now": op["now"]}
    raise ToolError("unknown model op " + n)


def to_exec_op(a):
    n = a["name"]
    if n == "announce":
        return {"op": "announce", "fam": a["t"][0], "h": a["t"][1], "key": a["key"],
                "event": a["event"], "left": a["left"], "numwant": a["numwant"],
                "deadline": a["deadline"]}
    if n == "scrape":
        return {"op": "scrape", "fam": a["fam"], "hs": a["hs"]}
    if n == "clean":
        return {"op": "clean", "now": a["now"]}
    raise ToolError("unknown op " + n)


def random_behaviours(seed, nruns, nops, nkeys=14, hashes=(1, 2, 17, 300),
                      max_peers=(0, 1, 2, 3, 4, 5, 50), max_scrapes=(0, 1, 2, 3, 100),
                      time_bias=False, first_run=0, dumps=True):
    rnd = random.Random(seed)
    out = []
    for r in range(nruns):
        mp = rnd.choice(max_peers)
        ms = rnd.choice(max_scrapes)
        hot = (rnd.choice((4, 6)), rnd.choice(hashes))
        ops = []
        clock = 0
        for _ in range(nops):
            x = rnd.random()
            if x < 0.72:
                t = hot if rnd.random() < 0.7 else (rnd.choice((4, 6)), rnd.choice(hashes))
                left = rnd.choice((0, 0, 1, 1, 1))
                op = {"op": "announce", "fam": t[0], "h": t[1],
                      "key": "k%d" % rnd.randrange(nkeys if rnd.random() < 0.8 else 6),
                      "event": rnd.choice(("none", "started", "completed", "stopped", "none", "started")),
                      "left": left,
                      "numwant": rnd.choice((-1, 0, 1, 2, 3, 4, 5, 50, 1000000)),
                      "deadline": (clock + rnd.choice((1, 2, 3))) if time_bias else rnd.randrange(1, 7)}
                if left != 0 and rnd.random() < 0.3:
                    op["leftval"] = "max"
                ops.append(op)
            elif x < 0.87:
                n = rnd.choice((1, 1, 2, 3, 5))
                ops.append({"op": "scrape", "fam": rnd.choice((4, 6)),
                            "hs": [rnd.choice(hashes + (999,)) for _ in range(n)]})
            else:
                if time_bias:
                    clock += rnd.choice((0, 1, 1, 2))
                    now = clock
                else:
                    now = rnd.randrange(0, 8)
                ops.append({"op": "clean", "now": now})
        out.append({"run": first_run + r,
                    "cfg": {"max_peers": mp, "max_scrape": ms, "mode": "off", "dumps": dumps},
                    "ops": ops})
    return out


def classify(ev, prefix, last_state):
    sig = {"tracker": "http"}
    if isinstance(ev, dict):
        sig["ev"] = ev.get("ev")
    return sig


def mutate_counts(evs):
    for i in range(len(evs) - 1, -1, -1):
        if evs[i].get("ev") == "announce":
            m = json.loads(json.dumps(evs))
            m[i]["reply"]["leechers"] += 1
            return m, "announce reply incomplete+1 at event %d" % i
    return None
