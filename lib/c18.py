"""C18 - Every reply the tracker computes fits its buffers and is delivered whole."""
import random

from vlib import *
from storage import *
from net import *
from udp_e2e import udp_config
from http_e2e import http_config, HttpConn, request_bytes, announce_path, parse_reply


def ascii_hash(i):
    s = "H%019d" % i
    return s.encode()


def udp_case(ctx, c, idx):
    backend, kind, fam, n = c["backend"], c["kind"], c["fam"], c["n"]
    port = free_port()
    # the limit under test is n; every OTHER limit is set high and the request asks for as much as it can,
    # so that a reply bounded by the wrong limit shows up as an overflow at a smaller n
    cfg = udp_config(port, backend, mode="off", max_scrape=min(n, 255) if kind == "scrape" else 255,
                     max_resp=n if kind == "announce" else 1000)
    t = Tracker(ctx, "udp", cfg, "c18_%d" % idx)
    ip = "127.0.0.2" if fam == 4 else "::1"
    srv = ("127.0.0.1", port) if fam == 4 else ("::1", port)
    cl = None
    try:
        udp_wait_ready(srv, ip=ip, tracker=t)
        cl = UdpClient(ip, srv)
        cl.send(connect_req(1))
        r = cl.recv(2.0)
        if not r:
            raise ToolError("no connect reply")
        cid = decode_reply(r[0], fam)["conn_id"]
        if kind == "announce":
            # n stored peers (the worst case: all of them are returned), or n + 40 in an "overfull" probe:
            # one source address announcing different ports
            sent = 0
            for p in range(n + (40 if c.get("overfull") else 0)):
                cl.send(announce_req(cid, 10 + p, info_hash(1), peer_id(1), 1, "started", 1024 + p))
                sent += 1
                if sent % 64 == 0:
                    while cl.recv(0.0 if sent % 256 else 0.02):
                        pass
            time.sleep(0.3)
            while cl.recv(0.05):
                pass
            data = announce_req(cid, 777, info_hash(1), peer_id(2), 1, "started", 60000,
                                numwant=2 ** 31 - 1 if c.get("overfull") else n)
        else:
            data = scrape_req(cid, 777, [info_hash(100 + i) for i in range(n)])
        cl.send(data)
        obs, olen = "none", 0
        t_end = time.monotonic() + 1.0
        while time.monotonic() < t_end:
            r = cl.recv(0.3)
            if r:
                d = decode_reply(r[0], fam)
                if d.get("txid") == 777:
                    obs, olen = "reply", len(r[0])
                    break
        return {"ev": "case", "tracker": "udp", "backend": backend, "kind": kind, "fam": fam, "n": n,
                "reqlen": len(data), "observed": obs, "observed_len": olen, "alive": t.alive(),
                "overfull": bool(c.get("overfull"))}
    finally:
        if cl:
            cl.close()
        t.stop()


def http_case(ctx, c, idx):
    kind, fam, n = c["kind"], c["fam"], c["n"]
    port = free_port(socket.SOCK_STREAM)
    # overfull scrape probe: the limit under test is n and the request names more torrents than that (as many
    # as the request buffer takes) - the reply must be bounded by the limit, and so still fit
    nreq = min(n + 40, 65) if (kind == "scrape" and c.get("overfull")) else n
    cfg = http_config(port, 1, 1, True,
                      max_scrape=(n if c.get("overfull") else max(n, 100)) if kind == "scrape" else 1000,
                      max_peers=n if kind == "announce" else 1000)
    if c.get("interval"):
        cfg["protocol"]["peer_announce_interval"] = c["interval"]
    t = Tracker(ctx, "http", cfg, "c18_%d" % idx)
    ip = "127.0.0.2" if fam == 4 else "::1"
    srv = ("127.0.0.1", port) if fam == 4 else ("::1", port)
    conn = None
    try:
        tcp_wait_ready(srv, tracker=t)
        conn = HttpConn(ip, srv)
        if kind == "announce":
            for p in range(n + (40 if c.get("overfull") else 0)):
                conn.send_split(request_bytes(announce_path(1, 1024 + p, numwant=1)), [])
                out = conn.read_reply(timeout=6.0 * load_factor())
                if out.get("outcome") != "reply":
                    raise ToolError("could not build the swarm over HTTP: %s" % out)
            data = request_bytes(announce_path(1, 60000, numwant=1000000 if c.get("overfull") else n))
            reqlen = 300      # nominal (not at a boundary)
        else:
            path = "/scrape?" + "&".join("info_hash=" + ascii_hash(i).decode() for i in range(nreq))
            data = ("GET %s HTTP/1.1\r\n\r\n" % path).encode()
            reqlen = len(data)
        conn.send_split(data, [])
        out = conn.read_reply(timeout=2.0 * load_factor())
        if out.get("outcome") == "reply" and out.get("framed"):
            obs, olen = "reply", 45 + out["content_length"]
        else:
            obs, olen = ("closed" if out.get("outcome") == "closed" else "none"), 0
        return {"ev": "case", "tracker": "http", "backend": "glommio", "kind": kind, "fam": fam, "n": n,
                "reqlen": reqlen, "observed": obs, "observed_len": olen, "alive": t.alive(),
                "overfull": bool(c.get("overfull")), "interval": c.get("interval", 0)}
    finally:
        if conn:
            conn.close()
        t.stop()


def run(ctx):
    res = run_tlc(ctx, "Buffers_MC", "Buffers_MC.cfg", workers=1, timeout=300)
    require_mc_ok(ctx, res, "Buffers grid (size functions, boundaries, comments agree)")
    cases = [json.loads(tla_unquote(x)) for x in printed_tuples(res["out"], "CASE")]
    fits = printed_tuples(res["out"], "FITS")
    if len(cases) < 30:
        raise ToolError("grid generation failed")
    ctx.stage("spec-verdict", fits=fits[0] if fits else "?", grid=len(cases))
    cargo_build(ctx)
    todo = []
    for c in cases:
        if c["tracker"] == "http" and c["kind"] == "scrape" and not c["received"]:
            continue                      # longer than the request buffer: outside the quantifier
        if ctx.quick() and c["n"] >= 1000:
            continue
        todo.append(c)
    import threading
    results = {}
    errors = []
    sem = threading.Semaphore(6)

    def work(i, c):
        with sem:
            try:
                results[i] = udp_case(ctx, c, i) if c["tracker"] == "udp" else http_case(ctx, c, i)
            except Exception as e:
                errors.append("%s: %r" % (c, e))

    ths = [threading.Thread(target=work, args=(i, c)) for i, c in enumerate(todo)]
    for th in ths:
        th.start()
    for th in ths:
        th.join(300)
    if errors:
        raise ToolError("; ".join(errors)[:500])
    # "overfull" probes: at the largest limit of each announce category whose worst-case reply was delivered,
    # a swarm 40 peers LARGER than the limit, every other limit set high and a request asking for as much
    # as it can must be answered as well (the reply is bounded by the limit under test and by nothing else)
    main = dict(results)
    safe = {}
    for i, r in main.items():
        if r["observed"] == "reply" and (r["kind"] == "announce" or r["tracker"] == "http"):
            key = (r["tracker"], r["backend"], r["kind"], r["fam"])
            if key not in safe or r["n"] > safe[key]["n"]:
                safe[key] = todo[i]
    extra = [dict(c, overfull=True) for c in safe.values()]
    # exact fits (from Buffers_MC): the HTTP announce reply that fills the response buffer to the last byte
    exact_cases = [json.loads(tla_unquote(x)) for x in printed_tuples(res["out"], "EXACT")]
    if len(exact_cases) < 2:
        raise ToolError("Buffers_MC produced no exact-fit cases")
    extra += [{"tracker": "http", "backend": "glommio", "kind": "announce", "fam": x["fam"], "n": x["n"],
               "interval": x["interval"], "exact": True, "expect_len": x["replylen"]} for x in exact_cases]
    base = len(todo)
    todo = todo + extra
    ths = [threading.Thread(target=work, args=(base + j, c)) for j, c in enumerate(extra)]
    for th in ths:
        th.start()
    for th in ths:
        th.join(600)
    if errors:
        raise ToolError("; ".join(errors)[:500])
    overfull = {i: results.pop(i) for i in list(results) if i >= base}
    exact = {i: r for i, r in overfull.items() if todo[i].get("exact")}
    for i, r in exact.items():
        if r["observed"] == "reply" and r["observed_len"] != todo[i]["expect_len"]:
            # the probe did not hit the buffer size (the size function has drifted): no verdict from it
            log("MODEL-DRIFT (no verdict): exact-fit probe %s produced %d bytes, Buffers.tla says %d"
                % (todo[i], r["observed_len"], todo[i]["expect_len"]))
            ctx.model_drift = {"note": "exact-fit probe size differs from Buffers.tla", "case": todo[i],
                               "observed_len": r["observed_len"]}
    tp = ctx.path("buffers.ndjson")
    with open(tp, "w") as f:
        for i in sorted(results):
            f.write(json.dumps({"ev": "reset", "run": i}, separators=(",", ":")) + "\n")
            f.write(json.dumps(results[i], separators=(",", ":")) + "\n")
    # binding: observed outcome and size equal the model's (TLC)
    accepted, failures, nruns = validate_runs(ctx, "Buffers_Trace", "Buffers_Trace.cfg", tp, label="buffers",
                                              max_failures=40)
    ctx.traces_validated += accepted
    ctx.stage("validate:buffers", runs=nruns, accepted=accepted, rejected=len(failures))
    drift = []
    for f in failures:
        # The observed delivery or size differs from what Buffers.tla computes from the MIRRORED constants.
        # That alone is no verdict on the code (a buffer may have been enlarged, a default changed): it is
        # recorded as model drift.  The property itself is judged below on what was observed.
        drift.append(f["event"])
    if drift:
        ctx.model_drift = {"note": "observations differ from Buffers.tla's mirrored constants", "events": drift[:10]}
        log("MODEL-DRIFT (no verdict): %d grid points differ from Buffers.tla, e.g. %s" % (len(drift), json.dumps(drift[0])[:200]))
    # the property: every in-scope worst-case request of an accepted configuration is delivered
    groups = {}
    for r in list(results.values()) + list(overfull.values()):
        if r["observed"] != "reply":
            key = (r["tracker"], r["backend"], r["kind"], r["fam"])
            groups.setdefault(key, []).append(r)
    for key, rs in sorted(groups.items()):
        nmin = min(r["n"] for r in rs)
        sig = {"tracker": key[0], "backend": key[1], "kind": key[2], "fam": key[3], "min_failing_n": nmin}
        report_violation(ctx, "accepted configuration, reply/request not delivered: %s %s %s IPv%d, smallest "
                              "failing size %d (observed: %s)" % (key[0], key[1], key[2], key[3], nmin,
                                                                  sorted(set(r["observed"] for r in rs))),
                         {"cases": rs}, sig)
    ctx.coverage.update({
        "grid_points_from_spec": len(cases), "grid_points_executed": len(results),
        "overfull_probes": [[r["tracker"], r["backend"], r["kind"], r["fam"], r["n"], r["observed"]]
                            for r in overfull.values() if not r.get("interval")],
        "exact_fit_probes (reply fills the buffer to the last byte)":
            [[r["tracker"], r["fam"], r["n"], r["interval"], r["observed"], r["observed_len"]] for r in exact.values()],
        "delivered": sum(1 for r in results.values() if r["observed"] == "reply"),
        "not_delivered": sum(1 for r in results.values() if r["observed"] != "reply"),
        "spec_fits": fits[0] if fits else "?",
        "rule": "Buffers.tla computes request and reply sizes (BEP 15, canonical bencode with decimal digit "
                "counts, HTTP header) against the mirrored buffer constants; TLC finds each boundary and prints "
                "a grid (defaults, both sides of each boundary, extremes); at every grid point a real tracker is "
                "configured with that limit, the worst-case swarm is built and the worst-case request sent; TLC "
                "validates observed delivery and reply size against the model; every accepted configuration "
                "whose worst-case request is not delivered is a violation (known findings listed)",
    })
    ctx.add_sample(results[min(results)])
    ctx.assumptions += ["HTTP scrapes longer than the 2048-byte request buffer are outside the quantifier",
                        "no tracker validates its limits at start-up (Accepted == TRUE in the model)"]
    if not ctx.violations and not failures:
        def mut(evs):
            for i, e in enumerate(evs):
                if e.get("ev") == "case" and e["observed"] == "reply":
                    m = json.loads(json.dumps(evs))
                    m[i]["observed_len"] += 1
                    return m, "observed reply length +1"
            return None
        binding_selftest(ctx, "Buffers_Trace", "Buffers_Trace.cfg", tp, mut)
