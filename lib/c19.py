"""C19 - A dead worker brings the whole tracker down (fault enumeration on the real binaries)."""
import random
import re
import signal
import threading

from vlib import *
from storage import *
from net import *
from udp_e2e import udp_config
from http_e2e import http_config, HttpConn, request_bytes, announce_path


def ws_config(port, socket_workers=1, swarm_workers=1):
    return {"socket_workers": socket_workers, "swarm_workers": swarm_workers,
            "network": {"address": "127.0.0.1:%d" % port, "enable_http_health_checks": False},
            "cleaning": {"torrent_cleaning_interval": 3600, "connection_cleaning_interval": 3600}}


def scenarios(quick):
    """(tracker, worker kind, fault spec or special, phase, nworkers, trigger)"""
    S = []
    modes = ["panic"] if quick else ["panic", "return_err", "return_ok"]
    for m in modes:
        S.append(("udp", "socket[mio]", "udp.socket.start:%s" % m, "start-up", 1, None, "mio"))
        S.append(("udp", "socket[mio]", "udp.socket.loop:%s:200" % m, "later", 2, None, "mio"))
        S.append(("udp", "socket[uring]", "udp.socket.start:%s" % m, "start-up", 2, None, "uring"))
        S.append(("udp", "cleaning", "udp.cleaning.loop:%s:1" % m, "later", 1, None, "mio"))
        S.append(("udp", "statistics", "udp.statistics.loop:%s:1" % m, "later", 1, None, "mio"))
        S.append(("udp", "signals", "udp.signals.start:%s" % m, "start-up", 1, None, "mio"))
        S.append(("http", "socket", "http.socket.start:%s" % m, "start-up", 2, None, None))
        S.append(("http", "swarm", "http.swarm.start:%s" % m, "start-up", 2, None, None))
        S.append(("http", "signals", "http.signals.start:%s" % m, "start-up", 1, None, None))
        S.append(("ws", "socket", "ws.socket.start:%s" % m, "start-up", 2, None, None))
        S.append(("ws", "swarm", "ws.swarm.start:%s" % m, "start-up", 2, None, None))
        S.append(("ws", "signals", "ws.signals.start:%s" % m, "start-up", 1, None, None))
    if quick:
        # the other two ways of stopping (thorough: every point in every mode)
        for m in ("return_err", "return_ok"):
            S.append(("udp", "socket[mio]", "udp.socket.loop:%s:200" % m, "later", 2, None, "mio"))
            S.append(("udp", "cleaning", "udp.cleaning.loop:%s:1" % m, "later", 1, None, "mio"))
            S.append(("http", "swarm", "http.swarm.start:%s" % m, "start-up", 2, None, None))
            S.append(("ws", "socket", "ws.socket.start:%s" % m, "start-up", 2, None, None))
    S.append(("udp", "socket[uring]", "udp.socket.loop:panic:3", "later (after serving requests)", 1, "udp_requests", "uring"))
    S.append(("udp", "signals", "udp.signals.signal:panic", "later (on SIGUSR1)", 1, "sigusr1", "mio"))
    S.append(("udp", "socket[mio]", "bind", "start-up (address in use)", 1, None, "mio"))
    S.append(("http", "socket", "http.socket.conn:panic:1", "later (connection task)", 2, "http_requests", None))
    S.append(("http", "swarm", "http.swarm.request:panic:2", "later (request task)", 2, "http_requests", None))
    S.append(("http", "socket", "builtin-proxy-panic", "later (connection task, built-in panic)", 1, "http_proxy", None))
    S.append(("http", "socket", "bind", "start-up (address in use)", 1, None, None))
    # the metrics worker: its listener cannot be bound
    S.append(("udp", "prometheus", "prometheus-bind", "start-up (metrics address in use)", 1, None, "mio"))
    S.append(("http", "prometheus", "prometheus-bind", "start-up (metrics address in use)", 1, None, None))
    S.append(("ws", "prometheus", "prometheus-bind", "start-up (metrics address in use)", 1, None, None))
    if not quick:
        S.append(("udp", "socket[mio]", "udp.socket.loop:panic:3000", "later", 1, None, "mio"))
        S.append(("udp", "cleaning", "udp.cleaning.loop:panic:3", "later", 1, None, "mio"))
        S.append(("ws", "socket", "bind", "start-up (address in use)", 1, None, None))
    return S


def run_scenario(ctx, idx, sc, out):
    tracker, kind, fault, phase, nworkers, trigger, backend = sc
    name = "c19_%d" % idx
    port = free_port(socket.SOCK_STREAM if tracker != "udp" else socket.SOCK_DGRAM)
    blocker = None
    if tracker == "udp":
        cfg = udp_config(port, backend, mode="off", workers=nworkers)
        cfg["cleaning"]["torrent_cleaning_interval"] = 1
        cfg["statistics"] = {"interval": 1, "write_html_to_file": True, "html_file_path": ctx.path(name + ".html")}
    elif tracker == "http":
        cfg = http_config(port, socket_workers=nworkers, swarm_workers=nworkers, proxy=(fault == "builtin-proxy-panic"),
                          header="X-Real")
    else:
        cfg = ws_config(port, nworkers, nworkers)
    if fault == "prometheus-bind":
        mport = free_port(socket.SOCK_STREAM)
        if tracker == "udp":
            cfg["statistics"]["run_prometheus_endpoint"] = True
            cfg["statistics"]["prometheus_endpoint_address"] = "127.0.0.1:%d" % mport
        else:
            cfg["metrics"] = {"run_prometheus_endpoint": True, "prometheus_endpoint_address": "127.0.0.1:%d" % mport}
        blocker = socket.socket(socket.AF_INET, socket.SOCK_STREAM)
        blocker.bind(("127.0.0.1", mport))
        blocker.listen(1)
    faults = None if fault in ("bind", "builtin-proxy-panic", "prometheus-bind") else fault
    if fault == "bind":
        # occupy the address without SO_REUSEPORT so that the worker cannot set up its socket
        if tracker == "udp":
            blocker = socket.socket(socket.AF_INET, socket.SOCK_DGRAM)
        else:
            blocker = socket.socket(socket.AF_INET, socket.SOCK_STREAM)
        blocker.bind(("127.0.0.1", port))
        if tracker != "udp":
            blocker.listen(1)
    t = Tracker(ctx, tracker, cfg, name, faults=faults)
    t0 = time.monotonic()
    trigger_ms = None
    try:
        if trigger:
            # wait until the tracker serves, then provoke the fault
            try:
                if tracker == "udp":
                    udp_wait_ready(("127.0.0.1", port), tracker=t, timeout=10)
                else:
                    tcp_wait_ready(("127.0.0.1", port), tracker=t, timeout=10)
            except ToolError:
                pass
            time.sleep(0.3)
            m0 = re.search(r"SRV-START \w+ t_ms=(\d+)", t.stdout())
            trigger_ms = int((time.monotonic() - t.t_start) * 1000)
            if trigger == "sigusr1":
                t.signal(signal.SIGUSR1)
            elif trigger == "udp_requests":
                c = UdpClient("127.0.0.2", ("127.0.0.1", port))
                for i in range(12):
                    c.send(connect_req(i))
                    c.recv(0.1)
                c.close()
            elif trigger in ("http_requests", "http_proxy"):
                for i in range(6):
                    try:
                        h = HttpConn("127.0.0.2", ("127.0.0.1", port))
                        h.send_split(request_bytes(announce_path(1 + i, 5000 + i)), [])
                        h.read_reply(timeout=1.0)
                        h.close()
                    except OSError:
                        pass
        rc = t.wait_exit(16)
        so, se = t.stdout(), t.stderr()
        mret = re.search(r"RUN-RETURNED (\w+) t_ms=(\d+)", so)
        mfault = re.search(r"VERIF-FAULT (\S+) (\S+) t_ms=(\d+)", se)
        if fault in ("bind", "prometheus-bind"):
            fault_ms = 0
        elif fault == "builtin-proxy-panic":
            fault_ms = trigger_ms if trigger_ms is not None else 0
        else:
            fault_ms = int(mfault.group(3)) if mfault else None
        ev = {"ev": "scenario", "tracker": tracker, "kind": kind, "fault": fault, "phase": phase,
              "workers_of_kind": nworkers, "fault_ms": fault_ms if fault_ms is not None else -1,
              "result": mret.group(1) if mret else "none", "return_ms": int(mret.group(2)) if mret else -1,
              "exit_code": rc if rc is not None else -1}
        if fault_ms is None:
            ev["tool_note"] = "fault point never fired: " + se[-200:]
        out[idx] = ev
    finally:
        t.stop()
        if blocker:
            blocker.close()


def classify(ev, prefix, last_state):
    sig = {"part": "watchdog"}
    if isinstance(ev, dict):
        sig.update({"tracker": ev.get("tracker"), "kind": ev.get("kind"), "fault": ev.get("fault")})
    return sig


def mutate_late(evs):
    for i in range(len(evs) - 1, -1, -1):
        if evs[i].get("ev") == "scenario":
            m = json.loads(json.dumps(evs))
            m[i]["return_ms"] = m[i]["fault_ms"] + 10500
            return m, "run() recorded as returning 10.5 s after the fault (scenario %d)" % i
    return None


def run(ctx):
    ctx.level = "model_checking"
    res = run_tlc(ctx, "Watchdog", "Watchdog_MC.cfg", workers=8, timeout=600, coverage=True)
    require_mc_ok(ctx, res, "Watchdog (poll period 5, bound 10)")
    neg = run_tlc(ctx, "Watchdog", "Watchdog_MC_Neg.cfg", workers=4, timeout=300)
    if neg["ok"]:
        raise ToolError("negative control: a 12 s poll period was not rejected")
    ctx.stage("negative-control", cfg="Watchdog_MC_Neg.cfg", error=neg["error"])
    cargo_build(ctx)
    S = scenarios(ctx.quick())
    out = {}
    errors = []
    sem = threading.Semaphore(8)

    def worker(i, sc):
        with sem:
            try:
                run_scenario(ctx, i, sc, out)
            except Exception as e:
                errors.append("%s: %r" % (sc[2], e))

    ths = [threading.Thread(target=worker, args=(i, sc)) for i, sc in enumerate(S)]
    for th in ths:
        th.start()
    for th in ths:
        th.join(120)
    if errors:
        raise ToolError("scenario driver failed: " + "; ".join(errors)[:400])
    notfired = [e for e in out.values() if e.get("fault_ms", 0) < 0]
    if notfired:
        raise ToolError("fault points that never fired (tool problem, not a verdict): %s" %
                        [(e["fault"], e.get("tool_note", "")[:80]) for e in notfired])
    tp = ctx.path("watchdog.ndjson")
    with open(tp, "w") as f:
        for i in sorted(out):
            f.write(json.dumps({"ev": "reset", "run": i}, separators=(",", ":")) + "\n")
            f.write(json.dumps(out[i], separators=(",", ":")) + "\n")
    acc, fails = validate_and_report(ctx, "Watchdog_Trace", "Watchdog_Trace.cfg", tp, "watchdog", classify,
                                     max_failures=20)
    if not ctx.violations:
        binding_selftest(ctx, "Watchdog_Trace", "Watchdog_Trace.cfg", tp, mutate_late)
    delays = [e["return_ms"] - e["fault_ms"] for e in out.values() if e["return_ms"] >= 0]
    ctx.coverage.update({
        "scenarios": len(S), "max_delay_ms": max(delays) if delays else -1,
        "by_tracker_kind": sorted(set("%s/%s" % (e["tracker"], e["kind"]) for e in out.values())),
        "rule": "each scenario starts a real tracker process with a fault armed at a named point of one worker "
                "kind (panic / return Err / return Ok at start-up or after N hits, a socket that cannot be bound, "
                "the built-in panic of the HTTP connection task behind a reverse proxy), with 1 or 2 workers of "
                "the kind; the fault's and run()'s return's timestamps are read from the child's monotonic clock "
                "and TLC validates result = error and delay <= 10 s",
    })
    ctx.add_sample(out[min(out)])
    if not ctx.quick():
        # growth beyond the listed properties: start-up with privilege dropping (spec/PrivDrop.tla);
        # informational, never a verdict on C19
        try:
            import ext_startup
            ext = ext_startup.startup_extension(ctx, False)
        except Exception as e:
            ext = {"skipped": "extension failed: %r" % (e,)}
        ctx.coverage.setdefault("extensions", {})["PrivDrop"] = ext
        log("EXTENSION PrivDrop (not a verdict on C19): %s" % json.dumps(
            {k: v for k, v in ext.items() if k != "trials"})[:600])
    ctx.assumptions += ["the prometheus worker is exercised through an unbindable metrics address only",
                        "fault points are the feature-gated hooks in the worker loops; bind failures and the HTTP "
                        "reverse-proxy panic need no hook"]
