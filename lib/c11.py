"""C11 - Access list is enforced on announce, on cleaning and across reloads."""
import random

from vlib import *
from storage import *
import graphwalk
import udp_storage as U
import http_storage as H
import ws_storage as W


def info_hash_hex(h):
    b = bytearray([0xAB] * 20)
    b[0] = h % 256
    b[1:5] = h.to_bytes(4, "big")
    return b.hex()


BAD_LINES = ["zz" * 20, "ab" * 19 + "a", "ab" * 20 + "c", "not a hash", "0x" + "ab" * 19, "ab" * 20 + " ab"]


def file_text(f, rnd):
    """Concrete file contents for an abstract file description."""
    if f["kind"] == "missing":
        return None
    lines = []
    for h in f["hashes"]:
        x = info_hash_hex(h)
        x = rnd.choice((x, x.upper(), x[:20].upper() + x[20:]))
        x = rnd.choice(("", " ", "\t", "  ")) + x + rnd.choice(("", " ", "\t", " \t"))
        lines.append(x)
    rnd.shuffle(lines)
    if rnd.random() < 0.5:
        lines.insert(rnd.randrange(len(lines) + 1), rnd.choice(("", "   ", "\t")))
    if f["kind"] == "bad":
        bad = rnd.choice(BAD_LINES)
        pos = {"first": 0, "middle": len(lines) // 2, "last": len(lines)}[f["at"]]
        lines.insert(pos, bad)
    sep = rnd.choice(("\n", "\r\n"))
    text = sep.join(lines)
    if rnd.random() < 0.7:
        text += sep
    return text


def arg_filter(op):
    n = op["name"]
    if n == "write":
        return {"name": n, "file": op["file"]}
    if n == "reload":
        return {"name": n}
    if n == "announce":
        return {"name": n, "h": op["h"]}
    if n == "clean":
        return {"name": n}
    raise ToolError("unknown model op " + n)


def norm_file(f):
    f = dict(f)
    if "hashes" in f:
        f["hashes"] = sorted(f["hashes"])
    return f


def translate(walk, tracker, rnd):
    """Model ops -> executor ops for one tracker."""
    ops = []
    cur = {"kind": "missing"}
    n = 0
    for a in walk:
        if a["name"] == "write":
            cur = norm_file(a["file"])
        elif a["name"] == "reload":
            op = {"op": "reload", "file": cur}
            t = file_text(cur, rnd)
            if t is not None:
                op["text"] = t
            ops.append(op)
        elif a["name"] == "announce":
            n += 1
            fam = rnd.choice((4, 6))
            if tracker == "ws":
                ops.append({"op": "announce", "gated": True, "c": [1, a["h"] * 10 + fam], "fam": fam, "h": a["h"],
                            "pid": a["h"], "event": "started", "left": 1, "offers": [], "answer": [], "now": 0})
            else:
                op = {"op": "announce", "gated": True, "fam": fam, "h": a["h"], "key": "k%d" % (n % 3),
                      "event": "started", "left": rnd.choice((0, 1)), "numwant": -1, "deadline": 100}
                if tracker == "udp":
                    op["pid"] = 1
                ops.append(op)
        elif a["name"] == "clean":
            ops.append({"op": "clean", "now": 1})
    return ops


RUNCFG = {
    "udp": lambda m: {"max_resp": 5, "mode": m, "dumps": True, "peer_clients": False},
    "http": lambda m: {"max_peers": 5, "max_scrape": 5, "mode": m, "dumps": True},
    "ws": lambda m: {"max_offers": 2, "max_scrape": 5, "max_peer_age": 100, "max_offer_age": 100, "mode": m,
                     "dumps": True},
}
EXE = {"udp": ("udp_exec", "UdpRef_Trace", U.classify), "http": ("http_exec", "HttpRef_Trace", H.classify),
       "ws": ("ws_exec", "WsRef_Trace", W.classify)}


def mutate_reload_ok(evs):
    for i in range(len(evs) - 1, -1, -1):
        if evs[i].get("ev") == "reload" and evs[i]["file"]["kind"] == "bad" and not evs[i]["ok"]:
            m = json.loads(json.dumps(evs))
            m[i]["ok"] = True
            return m, "failed reload reported as successful at event %d" % i
    return None


def mutate_gate(evs):
    """Report an admitted announce as refused by the gate."""
    for i in range(len(evs) - 1, -1, -1):
        e = evs[i]
        if e.get("ev") == "announce" and e.get("gated") and not e.get("refused"):
            m = json.loads(json.dumps(evs))
            t = e["t"] if "t" in e else [e["fam"], e["h"]]
            m[i] = {"ev": "announce_rejected", "t": t}
            if "dump" in e and i > 0 and "dump" in evs[i - 1]:
                m[i]["dump"] = evs[i - 1]["dump"]
            return m, "admitted announce reported as refused at event %d" % i
    return None


def random_reload_behaviours(tracker, seed, nruns, nops, first_run):
    rnd = random.Random(seed)
    out = []
    hashes = (1, 2, 17, 300)
    base = {"udp": U.random_behaviours, "http": H.random_behaviours}.get(tracker)
    for r in range(nruns):
        mode = rnd.choice(("allow", "deny", "allow", "deny", "off"))
        if tracker == "ws":
            b = W.random_behaviours(rnd.randrange(1 << 30), 1, nops, first_run=first_run + r)[0]
        else:
            b = base(rnd.randrange(1 << 30), 1, nops, first_run=first_run + r)[0]
        cfg = RUNCFG[tracker](mode)
        for k in ("max_resp", "max_peers", "max_scrape", "max_offers"):
            if k in b["cfg"] and k in cfg:
                cfg[k] = b["cfg"][k]
        ops = []
        for op in b["ops"]:
            if op["op"] == "announce":
                op["gated"] = True
            if rnd.random() < 0.06:
                kind = rnd.choice(("good", "good", "bad", "missing"))
                f = {"kind": kind}
                if kind != "missing":
                    f["hashes"] = sorted(rnd.sample(hashes, rnd.randrange(0, 4)))
                if kind == "bad":
                    f["at"] = rnd.choice(("first", "middle", "last"))
                rop = {"op": "reload", "file": f}
                t = file_text(f, rnd)
                if t is not None:
                    rop["text"] = t
                ops.append(rop)
            ops.append(op)
        out.append({"run": first_run + r, "cfg": cfg, "ops": ops})
    return out


def run(ctx):
    rnd = random.Random(ctx.seed + 110)
    graphs = {}
    for mode in ("off", "allow", "deny"):
        res = run_tlc(ctx, "AccessList_MC", "AccessList_MC_%s.cfg" % mode, workers=4, timeout=600)
        require_mc_ok(ctx, res, "mode " + mode)
        g = run_tlc(ctx, "AccessList_MC", "AccessList_Gen_%s.cfg" % mode, workers=1, timeout=600,
                    name="gen_" + mode)
        if not g["ok"]:
            raise ToolError("generation run for mode %s failed: %s" % (mode, g["error"]))
        init, graph, n = graphwalk.parse_edges(g["out"], arg_filter)
        walks, uncovered = graphwalk.edge_cover(init, graph, max_len=200,
                                                max_ops=6000 if ctx.quick() else None)
        graphs[mode] = (walks, sum(len(v) for v in graph.values()), uncovered)
        ctx.stage("gen:" + mode, model_edges=graphs[mode][1], covered=graphs[mode][1] - uncovered,
                  walks=len(walks))
    cargo_build(ctx)
    total_edges = covered = 0
    seen_rejected = 0
    for tracker in ("udp", "http", "ws"):
        exe, mod, classify = EXE[tracker]
        beh = []
        run_id = 0
        for mode, (walks, nedges, uncovered) in graphs.items():
            if tracker == "udp":
                total_edges += nedges
                covered += nedges - uncovered
            for w in walks:
                beh.append({"run": run_id, "cfg": RUNCFG[tracker](mode), "ops": translate(w, tracker, rnd)})
                run_id += 1
        nr = 9 if ctx.quick() else 100
        beh += random_reload_behaviours(tracker, ctx.seed + 111, nr, 150 if ctx.quick() else 300, 50000)
        tp = execute(ctx, exe, beh, tracker)
        seen_rejected += sum(1 for line in open(tp) if '"ev":"announce_rejected"' in line)
        acc, fails = validate_and_report(ctx, mod, mod + ".cfg", tp, tracker, classify, beh)
        if not fails:
            binding_selftest(ctx, mod, mod + ".cfg", tp, mutate_reload_ok, label="selftest_reload_" + tracker)
            binding_selftest(ctx, mod, mod + ".cfg", tp, mutate_gate, label="selftest_gate_" + tracker)
        ctx.add_sample({"tracker": tracker, "cfg": beh[-1]["cfg"],
                        "ops": [o for o in beh[-1]["ops"] if o["op"] in ("reload", "clean")][:3]})
    if seen_rejected == 0:
        raise ToolError("vacuity: no announce was ever rejected by the gate")
    ctx.coverage.update({
        "model_edges": total_edges, "model_edges_covered": covered, "announces_rejected_by_gate": seen_rejected,
        "rule": "every transition of AccessList.tla (modes off/allow/deny; good files over all subsets, files "
                "with a bad line first/middle/last, missing file; announce; clean) is replayed on the real "
                "update_access_list + storage of each tracker with concrete files (upper/lower-case hex, blank "
                "lines, surrounding whitespace, CRLF); random histories with reloads mixed in; TLC validates "
                "reload results, gate decisions, and the stored state after every cleaning pass",
    })
    ctx.assumptions += [
        "API level: the three-line gate of the socket workers (allows(mode, hash) before forwarding) is "
        "emulated by the executors; SIGUSR1-driven reloads of running trackers are outside this check",
    ]
