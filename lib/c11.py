"""C11 - Access list is enforced on announce, on cleaning and across reloads."""
import os
import random
import socket
import time

from vlib import *
from storage import *
import graphwalk
import udp_storage as U
import http_storage as H
import ws_storage as W


def info_hash_hex(h):
    b = bytearray([0xAB] * 20)
    b[0] = h % 256
    b[1:5] = h.to_bytes(4, "big")
    return b.hex()


BAD_LINES = ["zz" * 20, "ab" * 19 + "a", "ab" * 20 + "c", "not a hash", "0x" + "ab" * 19, "ab" * 20 + " ab"]


def file_text(f, rnd):
    """Concrete file contents for an abstract file description."""
    if f["kind"] == "missing":
        return None
    lines = []
    for h in f["hashes"]:
        x = info_hash_hex(h)
        x = rnd.choice((x, x.upper(), x[:20].upper() + x[20:]))
        x = rnd.choice(("", " ", "\t", "  ")) + x + rnd.choice(("", " ", "\t", " \t"))
        lines.append(x)
    rnd.shuffle(lines)
    if rnd.random() < 0.5:
        lines.insert(rnd.randrange(len(lines) + 1), rnd.choice(("", "   ", "\t")))
    if f["kind"] == "bad":
        bad = rnd.choice(BAD_LINES)
        pos = {"first": 0, "middle": len(lines) // 2, "last": len(lines)}[f["at"]]
        lines.insert(pos, bad)
    sep = rnd.choice(("\n", "\r\n"))
    text = sep.join(lines)
    if rnd.random() < 0.7:
        text += sep
    return text


def arg_filter(op):
    n = op["name"]
    if n == "write":
        return {"name": n, "file": op["file"]}
    if n == "reload":
        return {"name": n}
    if n == "announce":
        return {"name": n, "h": op["h"]}
    if n == "clean":
        return {"name": n}
    raise ToolError("unknown model op " + n)


def norm_file(f):
    f = dict(f)
    if "hashes" in f:
        f["hashes"] = sorted(f["hashes"])
    return f


def translate(walk, tracker, rnd):
    """Model ops -> executor ops for one tracker."""
    ops = []
    cur = {"kind": "missing"}
    n = 0
    for a in walk:
        if a["name"] == "write":
            cur = norm_file(a["file"])
        elif a["name"] == "reload":
            op = {"op": "reload", "file": cur}
            t = file_text(cur, rnd)
            if t is not None:
                op["text"] = t
            ops.append(op)
        elif a["name"] == "announce":
            n += 1
            fam = rnd.choice((4, 6))
            if tracker == "ws":
                ops.append({"op": "announce", "gated": True, "c": [1, a["h"] * 10 + fam], "fam": fam, "h": a["h"],
                            "pid": a["h"], "event": "started", "left": 1, "offers": [], "answer": [], "now": 0})
            else:
                op = {"op": "announce", "gated": True, "fam": fam, "h": a["h"], "key": "k%d" % (n % 3),
                      "event": "started", "left": rnd.choice((0, 1)), "numwant": -1, "deadline": 100}
                if tracker == "udp":
                    op["pid"] = 1
                ops.append(op)
        elif a["name"] == "clean":
            ops.append({"op": "clean", "now": 1})
    return ops


RUNCFG = {
    "udp": lambda m: {"max_resp": 5, "mode": m, "dumps": True, "peer_clients": False},
    "http": lambda m: {"max_peers": 5, "max_scrape": 5, "mode": m, "dumps": True},
    "ws": lambda m: {"max_offers": 2, "max_scrape": 5, "max_peer_age": 100, "max_offer_age": 100, "mode": m,
                     "dumps": True},
}
EXE = {"udp": ("udp_exec", "UdpRef_Trace", U.classify), "http": ("http_exec", "HttpRef_Trace", H.classify),
       "ws": ("ws_exec", "WsRef_Trace", W.classify)}


def mutate_reload_ok(evs):
    for i in range(len(evs) - 1, -1, -1):
        if evs[i].get("ev") == "reload" and evs[i]["file"]["kind"] == "bad" and not evs[i]["ok"]:
            m = json.loads(json.dumps(evs))
            m[i]["ok"] = True
            return m, "failed reload reported as successful at event %d" % i
    return None


def mutate_gate(evs):
    """Report an admitted announce as refused by the gate."""
    for i in range(len(evs) - 1, -1, -1):
        e = evs[i]
        if e.get("ev") == "announce" and e.get("gated") and not e.get("refused"):
            m = json.loads(json.dumps(evs))
            t = e["t"] if "t" in e else [e["fam"], e["h"]]
            m[i] = {"ev": "announce_rejected", "t": t}
            if "dump" in e and i > 0 and "dump" in evs[i - 1]:
                m[i]["dump"] = evs[i - 1]["dump"]
            return m, "admitted announce reported as refused at event %d" % i
    return None


def random_reload_behaviours(tracker, seed, nruns, nops, first_run):
    rnd = random.Random(seed)
    out = []
    hashes = (1, 2, 17, 300)
    base = {"udp": U.random_behaviours, "http": H.random_behaviours}.get(tracker)
    for r in range(nruns):
        mode = rnd.choice(("allow", "deny", "allow", "deny", "off"))
        if tracker == "ws":
            b = W.random_behaviours(rnd.randrange(1 << 30), 1, nops, first_run=first_run + r)[0]
        else:
            b = base(rnd.randrange(1 << 30), 1, nops, first_run=first_run + r)[0]
        cfg = RUNCFG[tracker](mode)
        for k in ("max_resp", "max_peers", "max_scrape", "max_offers"):
            if k in b["cfg"] and k in cfg:
                cfg[k] = b["cfg"][k]
        ops = []
        for op in b["ops"]:
            if op["op"] == "announce":
                op["gated"] = True
            if rnd.random() < 0.06:
                kind = rnd.choice(("good", "good", "bad", "missing"))
                f = {"kind": kind}
                if kind != "missing":
                    f["hashes"] = sorted(rnd.sample(hashes, rnd.randrange(0, 4)))
                if kind == "bad":
                    f["at"] = rnd.choice(("first", "middle", "last"))
                rop = {"op": "reload", "file": f}
                t = file_text(f, rnd)
                if t is not None:
                    rop["text"] = t
                ops.append(rop)
            ops.append(op)
        out.append({"run": first_run + r, "cfg": cfg, "ops": ops})
    return out



# ---------------------------------------------------------------------------
# end to end: the gate in the real socket workers, reload through a real SIGUSR1, cleaning by the
# real cleaning task

def e2e(ctx, rnd):
    import signal
    from net import Tracker, free_port, udp_wait_ready, tcp_wait_ready, UdpClient, connect_req, announce_req, \
        scrape_req, decode_reply, info_hash, peer_id
    import udp_e2e
    import http_e2e
    import ws_e2e
    trace = []
    hashes = [1, 2, 3]

    def files(rn):
        good1 = {"kind": "good", "hashes": [1, 2]}
        good2 = {"kind": "good", "hashes": [2, 3]}
        bad = {"kind": "bad", "hashes": [1], "at": rn.choice(("first", "middle", "last"))}
        missing = {"kind": "missing"}
        return [good2, bad, missing, good1]

    def write(path, f):
        t = file_text(f, rnd)
        if t is None:
            if os.path.exists(path):
                os.remove(path)
        else:
            with open(path, "w") as fh:
                fh.write(t)

    def drive(kind, mode, run_id, backend=None):
        alist = ctx.path("e2e_alist_%s_%s.txt" % (kind, mode))
        initial = {"kind": "good", "hashes": [1, 2]}
        write(alist, initial)
        if kind == "udp":
            port = free_port()
            cfg = udp_e2e.udp_config(port, backend, mode=mode, alist=alist)
            cfg["cleaning"]["torrent_cleaning_interval"] = 1
        elif kind == "http":
            port = free_port(socket.SOCK_STREAM)
            cfg = http_e2e.http_config(port, 2, 2, True, mode=mode, alist=alist)
            cfg["cleaning"]["torrent_cleaning_interval"] = 1
        else:
            port = free_port(socket.SOCK_STREAM)
            cfg = ws_e2e.ws_config(port, 2, 2, addr="[::]")
            cfg["access_list"] = {"mode": mode, "path": alist}
            cfg["cleaning"]["torrent_cleaning_interval"] = 1
        t = Tracker(ctx, kind, cfg, "c11_%s_%s_%s" % (kind, backend or "x", mode))
        cl = None
        try:
            if kind == "udp":
                udp_wait_ready(("127.0.0.1", port), tracker=t)
                cl = UdpClient("127.0.0.2", ("127.0.0.1", port))
                cl.send(connect_req(1))
                cid = decode_reply(cl.recv(2.0)[0], 4)["conn_id"]
            elif kind == "http":
                tcp_wait_ready(("127.0.0.1", port), tracker=t)
                cl = http_e2e.HttpConn("127.0.0.2", ("127.0.0.1", port))
            else:
                tcp_wait_ready(("127.0.0.1", port), tracker=t)
                cl = ws_e2e.WsClient("A", "127.0.0.2", ("127.0.0.1", port))
            trace.append({"ev": "reset", "run": run_id, "tracker": kind, "backend": backend or "", "mode": mode,
                          "initial": initial["hashes"]})
            n = [0]

            def announce(h):
                n[0] += 1
                if kind == "udp":
                    cl.send(announce_req(cid, 100 + n[0], info_hash(h), peer_id(1), 1, "started", 7000 + n[0] % 3))
                    r = cl.recv(2.0)
                    if not r:
                        raise ToolError("no reply to a UDP announce with a valid connection id")
                    d = decode_reply(r[0], 4)
                    acc = d["kind"] == "announce"
                elif kind == "http":
                    cl.send_split(http_e2e.request_bytes(http_e2e.announce_path(h, 7000 + n[0] % 3)), [])
                    out = cl.read_reply()
                    if out.get("outcome") != "reply":
                        raise ToolError("no HTTP reply: %s" % out)
                    acc = out["reply"]["kind"] == "announce"
                else:
                    cl.send_text(ws_e2e.announce_msg(h, 1, "started", 1, [], []))
                    got = ws_e2e.settle([cl], 0.2, sender=cl)
                    fr = [ws_e2e.abstract_frame(m, nm) for nm, m in got]
                    if len(fr) != 1:
                        raise ToolError("expected one frame, got %s" % fr)
                    acc = fr[0]["kind"] == "announce"
                trace.append({"ev": "announce", "h": h, "accepted": acc})

            def present(asked):
                if kind == "udp":
                    cl.send(scrape_req(cid, 999, [info_hash(h) for h in asked]))
                    d = decode_reply(cl.recv(2.0)[0], 4)
                    return [h for h, s in zip(asked, d["stats"]) if s[0] + s[1] > 0]
                if kind == "http":
                    cl.send_split(http_e2e.request_bytes(http_e2e.scrape_path(asked)), [])
                    out = cl.read_reply()
                    return [f[0] for f in out["reply"]["files"] if f[1] + f[2] > 0]
                cl.send_text(ws_e2e.scrape_msg(asked))
                got = ws_e2e.settle([cl], 0.2, sender=cl)
                fr = [ws_e2e.abstract_frame(m, nm) for nm, m in got]
                return [f[0] for f in fr[0]["files"] if f[1] + f[2] > 0] if fr else []

            for h in hashes:
                announce(h)
            for f in files(rnd):
                write(alist, f)
                t.signal(signal.SIGUSR1)
                time.sleep(1.0 * load_factor())
                trace.append({"ev": "reload", "file": f})
                for h in hashes:
                    announce(h)
                time.sleep(2.6 * load_factor())          # at least one cleaning pass (interval 1 s)
                trace.append({"ev": "cleaned", "asked": hashes, "present": present(hashes)})
            if not t.alive():
                raise ToolError("tracker died: " + t.stderr()[-300:])
        finally:
            if cl:
                cl.close()
            t.stop()

    import threading
    jobs = [("udp", "allow", 0, "mio"), ("udp", "deny", 1, "uring"), ("http", "deny", 2, None), ("ws", "allow", 3, None)]
    if not ctx.quick():
        jobs += [("udp", "deny", 4, "mio"), ("udp", "allow", 5, "uring"), ("http", "allow", 6, None), ("ws", "deny", 7, None)]
    # the traces of concurrent jobs must not interleave: run each into its own list
    results = {}
    errors = []

    def work(j):
        nonlocal trace
        local = []
        try:
            # rebind the closure's list for this job
            drive_into(local, *j)
            results[j[2]] = local
        except Exception as e:
            errors.append("%s: %r" % (j, e))

    def drive_into(local, kind, mode, run_id, backend):
        nonlocal trace
        saved = trace
        trace = local
        try:
            drive(kind, mode, run_id, backend)
        finally:
            trace = saved

    for j in jobs:          # sequential: `trace` is rebound per job
        work(j)
    if errors:
        raise ToolError("; ".join(errors)[:500])
    tp = ctx.path("alist_e2e.ndjson")
    with open(tp, "w") as f:
        for k in sorted(results):
            for e in results[k]:
                f.write(json.dumps(e, separators=(",", ":")) + "\n")
    validate_and_report(ctx, "AccessList_Trace", "AccessList_Trace.cfg", tp, "e2e",
                        lambda ev, p, s: {"part": "e2e", "ev": ev.get("ev") if isinstance(ev, dict) else None})
    ctx.coverage["end_to_end_runs"] = ["%s/%s/%s" % (j[0], j[3] or "-", j[1]) for j in jobs]


def run(ctx):
    rnd = random.Random(ctx.seed + 110)
    graphs = {}
    for mode in ("off", "allow", "deny"):
        res = run_tlc(ctx, "AccessList_MC", "AccessList_MC_%s.cfg" % mode, workers=4, timeout=600)
        require_mc_ok(ctx, res, "mode " + mode)
        g = run_tlc(ctx, "AccessList_MC", "AccessList_Gen_%s.cfg" % mode, workers=1, timeout=600,
                    name="gen_" + mode)
        if not g["ok"]:
            raise ToolError("generation run for mode %s failed: %s" % (mode, g["error"]))
        init, graph, n = graphwalk.parse_edges(g["out"], arg_filter)
        walks, uncovered = graphwalk.edge_cover(init, graph, max_len=200,
                                                max_ops=6000 if ctx.quick() else None)
        graphs[mode] = (walks, sum(len(v) for v in graph.values()), uncovered)
        ctx.stage("gen:" + mode, model_edges=graphs[mode][1], covered=graphs[mode][1] - uncovered,
                  walks=len(walks))
    cargo_build(ctx)
    total_edges = covered = 0
    seen_rejected = 0
    for tracker in ("udp", "http", "ws"):
        exe, mod, classify = EXE[tracker]
        beh = []
        run_id = 0
        for mode, (walks, nedges, uncovered) in graphs.items():
            if tracker == "udp":
                total_edges += nedges
                covered += nedges - uncovered
            for w in walks:
                beh.append({"run": run_id, "cfg": RUNCFG[tracker](mode), "ops": translate(w, tracker, rnd)})
                run_id += 1
        nr = 9 if ctx.quick() else 100
        beh += random_reload_behaviours(tracker, ctx.seed + 111, nr, 150 if ctx.quick() else 300, 50000)
        tp = execute(ctx, exe, beh, tracker)
        seen_rejected += sum(1 for line in open(tp) if '"ev":"announce_rejected"' in line)
        acc, fails = validate_and_report(ctx, mod, mod + ".cfg", tp, tracker, classify, beh)
        if not fails:
            binding_selftest(ctx, mod, mod + ".cfg", tp, mutate_reload_ok, label="selftest_reload_" + tracker)
            binding_selftest(ctx, mod, mod + ".cfg", tp, mutate_gate, label="selftest_gate_" + tracker)
        ctx.add_sample({"tracker": tracker, "cfg": beh[-1]["cfg"],
                        "ops": [o for o in beh[-1]["ops"] if o["op"] in ("reload", "clean")][:3]})
    if seen_rejected == 0:
        raise ToolError("vacuity: no announce was ever rejected by the gate")
    e2e(ctx, rnd)
    ctx.coverage.update({
        "model_edges": total_edges, "model_edges_covered": covered, "announces_rejected_by_gate": seen_rejected,
        "rule": "every transition of AccessList.tla (modes off/allow/deny; good files over all subsets, files "
                "with a bad line first/middle/last, missing file; announce; clean) is replayed on the real "
                "update_access_list + storage of each tracker with concrete files (upper/lower-case hex, blank "
                "lines, surrounding whitespace, CRLF); random histories with reloads mixed in; TLC validates "
                "reload results, gate decisions, and the stored state after every cleaning pass",
    })
    ctx.assumptions += [
        "API-level runs emulate the socket workers' three-line gate; the end-to-end runs exercise the real gate, "
        "SIGUSR1 reload and cleaning task of running trackers (UDP mio/io_uring, HTTP, WebTorrent)",
    ]
