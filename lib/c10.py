"""C10 - Peers and offers expire exactly at their deadline, never earlier (all three trackers)."""
import socket
import time
from vlib import *
from storage import *
import udp_storage as U
import http_storage as H
import ws_storage as W

# StepRefines (checked on every model transition and, through the reference-level trace specs, on
# every executed step) states for cleaning passes:   entry survives  <=>  deadline > now,
# in both representations, and for announces: the stored deadline is the announce's own.


def mutate_clean_time(evs):
    """Shift the logged time of a cleaning pass that removed something: must be rejected."""
    for i in range(1, len(evs)):
        if evs[i].get("ev") == "clean" and "dump" in evs[i] and "dump" in evs[i - 1]:
            n_before = sum(len(t[5]) for t in evs[i - 1]["dump"])
            n_after = sum(len(t[5]) for t in evs[i]["dump"])
            if n_after < n_before:
                m = json.loads(json.dumps(evs))
                m[i]["now"] = 0
                return m, "cleaning time set to 0 at event %d although peers were removed" % i
    return None


# ---------------------------------------------------------------------------
# Expiry on RUNNING trackers: the workers' own time sampling and cleaning timers (Expiry_Trace.tla)

MAX_AGE = 12          # seconds
EARLY_MS = 2300       # whole-second truncation (1 s) + age of the worker's cached time sample (<= 1 s) + jitter
LATE_MS = 3200        # truncation (1 s) + cleaning interval (1 s) + timer jitter on a loaded machine


def e2e_expiry_one(ctx, kind, backend, run_id, out, errors):
    import threading
    from net import Tracker, free_port, udp_wait_ready, tcp_wait_ready, UdpClient, connect_req, announce_req, \
        scrape_req, decode_reply, info_hash, peer_id
    import udp_e2e
    import http_e2e
    import ws_e2e
    try:
        if kind == "udp":
            port = free_port()
            cfg = udp_e2e.udp_config(port, backend, mode="off", max_scrape=5)
        elif kind == "http":
            port = free_port(socket.SOCK_STREAM)
            cfg = http_e2e.http_config(port, 1, 2, True, max_scrape=5)
        else:
            port = free_port(socket.SOCK_STREAM)
            cfg = ws_e2e.ws_config(port, 1, 2)
        cfg["cleaning"]["max_peer_age"] = MAX_AGE
        cfg["cleaning"]["torrent_cleaning_interval"] = 1
        t = Tracker(ctx, kind, cfg, "c10_e2e_%s_%s" % (kind, backend or "x"))
        ev = [{"ev": "reset", "run": run_id, "tracker": kind, "backend": backend or "", "max_age_ms": MAX_AGE * 1000,
               "early_ms": EARLY_MS, "late_ms": LATE_MS}]
        conns = {}
        try:
            if kind == "udp":
                udp_wait_ready(("127.0.0.1", port), tracker=t)
            else:
                tcp_wait_ready(("127.0.0.1", port), tracker=t)
            t0 = time.monotonic()

            def now_ms():
                return int((time.monotonic() - t0) * 1000)

            def conn_for(peer):
                if peer not in conns:
                    ip = {"A": "127.0.0.2", "B": "127.0.0.3", "obs": "127.0.0.4"}[peer]
                    if kind == "udp":
                        c = UdpClient(ip, ("127.0.0.1", port))
                        c.send(connect_req(1))
                        r = c.recv(3.0)
                        if not r:
                            raise ToolError("no connect reply from the UDP tracker")
                        conns[peer] = (c, decode_reply(r[0], 4)["conn_id"])
                    elif kind == "http":
                        conns[peer] = (http_e2e.HttpConn(ip, ("127.0.0.1", port)), None)
                    else:
                        conns[peer] = (ws_e2e.WsClient(peer, ip, ("127.0.0.1", port)), None)
                return conns[peer]

            torrent = {"A": 1, "B": 2}

            def announce(peer):
                c, cid = conn_for(peer)
                lo = now_ms()
                if kind == "udp":
                    c.send(announce_req(cid, 50, info_hash(torrent[peer]), peer_id(torrent[peer]), 1, "started", 7001))
                    r = c.recv(3.0)
                    ok = bool(r) and decode_reply(r[0], 4)["kind"] == "announce"
                elif kind == "http":
                    c.send_split(http_e2e.request_bytes(http_e2e.announce_path(torrent[peer], 7001)), [])
                    o = c.read_reply()
                    ok = o.get("outcome") == "reply" and o["reply"]["kind"] == "announce"
                else:
                    c.send_text(ws_e2e.announce_msg(torrent[peer], torrent[peer], "started", 1, [], []))
                    got = ws_e2e.settle([c], 0.1, sender=c, max_wait=3.0)
                    ok = any(ws_e2e.abstract_frame(m, n)["kind"] == "announce" for n, m in got)
                ev.append({"ev": "announce", "peer": peer, "lo": lo, "hi": now_ms(), "answered": ok})

            def observe():
                c, cid = conn_for("obs")
                lo = now_ms()
                present = []
                if kind == "udp":
                    c.send(scrape_req(cid, 60, [info_hash(1), info_hash(2)]))
                    r = c.recv(3.0)
                    if not r:
                        raise ToolError("no scrape reply from the UDP tracker")
                    st = decode_reply(r[0], 4)["stats"]
                    present = [p for p, s in zip(("A", "B"), st) if s[0] + s[1] > 0]
                elif kind == "http":
                    c.send_split(http_e2e.request_bytes(http_e2e.scrape_path([1, 2])), [])
                    o = c.read_reply()
                    if o.get("outcome") != "reply":
                        raise ToolError("no scrape reply from the HTTP tracker: %s" % o)
                    present = [{1: "A", 2: "B"}[f[0]] for f in o["reply"]["files"] if f[1] + f[2] > 0 and f[0] in (1, 2)]
                else:
                    c.send_text(ws_e2e.scrape_msg([1, 2]))
                    got = ws_e2e.settle([c], 0.1, sender=c, max_wait=3.0)
                    fr = [ws_e2e.abstract_frame(m, n) for n, m in got]
                    fr = [f for f in fr if f["kind"] == "scrape"]
                    if not fr:
                        raise ToolError("no scrape reply from the WebTorrent tracker")
                    present = [{1: "A", 2: "B"}[f[0]] for f in fr[0]["files"] if f[1] + f[2] > 0 and f[0] in (1, 2)]
                ev.append({"ev": "obs", "lo": lo, "hi": now_ms(), "present": sorted(present)})

            def until(sec):
                d = sec - (time.monotonic() - t0)
                if d > 0:
                    time.sleep(d)

            conn_for("obs")
            announce("A")                   # deadline about 12
            until(3.0)
            observe()                       # A must be there
            until(7.0)
            announce("A")                   # fresh deadline about 19
            announce("B")
            until(15.2)
            observe()                       # past A's first deadline: only the re-announce keeps it
            until(23.5 + 1.5 * (load_factor() - 1.0))
            observe()                       # everything gone
            if not t.alive():
                raise ToolError("tracker died: " + t.stderr()[-300:])
        finally:
            for c, _ in conns.values():
                c.close()
            t.stop()
        out[run_id] = ev
    except Exception as e:
        errors.append("%s/%s: %r" % (kind, backend, e))


def mutate_obs_absent(evs):
    """Drop a peer from an observation in which it must still be present."""
    for i, e in enumerate(evs):
        if e.get("ev") == "obs" and "A" in e.get("present", []):
            m = json.loads(json.dumps(evs))
            m[i]["present"].remove("A")
            return m, "peer A removed from the observation at event %d (before its deadline)" % i
    return None


def e2e_expiry(ctx):
    import threading
    jobs = [("udp", "mio", 5000), ("http", None, 5001), ("ws", None, 5002), ("udp", "uring", 5003)]
    out, errors = {}, []
    ths = [threading.Thread(target=e2e_expiry_one, args=(ctx, k, b, r, out, errors)) for k, b, r in jobs]
    for th in ths:
        th.start()
    for th in ths:
        th.join(120)
    skipped = [e for e in errors if e.startswith("udp/uring") and "exited during start-up" in e]
    errors = [e for e in errors if e not in skipped]
    if skipped:
        ctx.assumptions.append("io_uring backend could not be started in this environment: not exercised by the expiry scenario")
    if errors:
        raise ToolError("expiry e2e driver: " + "; ".join(errors)[:400])
    tp = ctx.path("expiry_e2e.ndjson")
    verdicts = 0
    with open(tp, "w") as f:
        for r in sorted(out):
            for e in out[r]:
                f.write(json.dumps(e, separators=(",", ":")) + "\n")
    acc, fails = validate_and_report(ctx, "Expiry_Trace", "Expiry_Trace.cfg", tp, "expiry_e2e",
                                     lambda ev, p, s: {"part": "expiry_e2e",
                                                       "tracker": p[0].get("tracker") if p else None})
    if not fails:
        binding_selftest(ctx, "Expiry_Trace", "Expiry_Trace.cfg", tp, mutate_obs_absent, label="selftest_expiry_e2e")
    ctx.coverage["expiry_on_running_trackers"] = {
        "trackers": ["%s/%s" % (k, b or "-") for k, b, _ in jobs], "max_peer_age_s": MAX_AGE,
        "observations": [[e["lo"], e["present"]] for e in out[min(out)] if e["ev"] == "obs"],
        "rule": "announce A; observe at 3 s; re-announce A and announce B at 7 s; observe at 15.2 s (after A's first "
                "deadline: only the refreshed one keeps it) and at 23.5 s (all gone); TLC decides from the "
                "driver's measured send / receive times which peers must be present, must be absent, or may be either"}


def run(ctx):
    for mod, cfg in (("UdpSwarm_MC", "UdpSwarm_MC_Time.cfg"), ("HttpSwarm_MC", "HttpSwarm_MC_B.cfg"),
                     ("WsSwarm_MC", "WsSwarm_MC_Time.cfg")):
        res = run_tlc(ctx, mod, cfg, workers=8, timeout=1500)
        require_mc_ok(ctx, res, cfg)
    cargo_build(ctx)
    nruns, nops = (16, 250) if ctx.quick() else (200, 400)
    plan = [
        ("udp", "udp_exec", "UdpRef_Trace", U.random_behaviours(ctx.seed + 30, nruns, nops, time_bias=True, first_run=1000), U.classify),
        ("http", "http_exec", "HttpRef_Trace", H.random_behaviours(ctx.seed + 31, nruns, nops, time_bias=True, first_run=2000), H.classify),
        ("ws", "ws_exec", "WsRef_Trace", W.random_behaviours(ctx.seed + 32, nruns, nops, first_run=3000, offer_bias=True), W.classify),
    ]
    removed_by_clean = {}
    for name, exe, mod, beh, classify in plan:
        for b in beh:
            b["cfg"]["dumps"] = True
        tp = execute(ctx, exe, beh, name)
        acc, fails = validate_and_report(ctx, mod, mod + ".cfg", tp, name, classify, beh)
        # measure: how many cleaning passes removed something / kept something past deadline-1
        rem = kept = 0
        prev = None
        for line in open(tp):
            e = json.loads(line)
            if e.get("ev") == "clean" and prev is not None and "dump" in prev and "dump" in e:
                a = sum(len(t[5]) for t in prev["dump"])
                b2 = sum(len(t[5]) for t in e["dump"])
                if b2 < a:
                    rem += 1
                if b2 > 0:
                    kept += 1
            prev = e if e.get("ev") != "reset" else None
        removed_by_clean[name] = {"passes_that_removed": rem, "passes_that_kept": kept}
        if rem == 0 or kept == 0:
            raise ToolError("vacuity: %s histories never exercised expiry (%s)" % (name, removed_by_clean[name]))
        if not fails:
            binding_selftest(ctx, mod, mod + ".cfg", tp, mutate_clean_time, label="selftest_" + name)
        ctx.add_sample({"tracker": name, "cfg": beh[0]["cfg"], "first_ops": beh[0]["ops"][:5]})
    # the edge covers of the storage models include cleaning at d-1 / d / d+1 in both representations
    beh, g = gen_edge_cover(ctx, "UdpSwarm_Gen", "UdpSwarm_Gen.cfg", U.arg_filter, U.to_exec_op,
                            {"max_resp": 2, "mode": "off", "dumps": True, "peer_clients": False},
                            max_ops=20000 if ctx.quick() else None)
    tp = execute(ctx, "udp_exec", beh, "udp_edge")
    validate_and_report(ctx, "UdpRef_Trace", "UdpRef_Trace.cfg", tp, "udp_edge", U.classify, beh)
    ctx.coverage.update({
        "cleaning_passes": removed_by_clean, "random_runs_per_tracker": nruns, "ops_per_run": nops,
        "udp_model_edges_covered": g["covered"],
        "rule": "time-biased histories (deadline = clock + 1..3, cleaning at the running clock) on the real "
                "storage of all three trackers; after every step TLC compares the stored entries and pending "
                "offers (verif_dump) with the reference, so an entry removed one second early or kept one "
                "second late is rejected at that step",
    })
    e2e_expiry(ctx)
    ctx.assumptions += [
        "at the API level UDP/HTTP deadlines are passed to the storage as ValidUntil values and WebTorrent reads the "
        "mock clock; the socket/swarm workers' own time sampling and cleaning timers are covered by the end-to-end "
        "expiry scenario only, with tolerances of 2.3 s (early) and 3.2 s (late) around each deadline",
    ]
