"""C10 - Peers and offers expire exactly at their deadline, never earlier (all three trackers)."""
from vlib import *
from storage import *
import udp_storage as U
import http_storage as H
import ws_storage as W

# StepRefines (checked on every model transition and, through the reference-level trace specs, on
# every executed step) states for cleaning passes:   entry survives  <=>  deadline > now,
# in both representations, and for announces: the stored deadline is the announce's own.


def mutate_clean_time(evs):
    """Shift the logged time of a cleaning pass that removed something: must be rejected."""
    for i in range(1, len(evs)):
        if evs[i].get("ev") == "clean" and "dump" in evs[i] and "dump" in evs[i - 1]:
            n_before = sum(len(t[5]) for t in evs[i - 1]["dump"])
            n_after = sum(len(t[5]) for t in evs[i]["dump"])
            if n_after < n_before:
                m = json.loads(json.dumps(evs))
                m[i]["now"] = 0
                return m, "cleaning time set to 0 at event %d although peers were removed" % i
    return None


def run(ctx):
    for mod, cfg in (("UdpSwarm_MC", "UdpSwarm_MC_Time.cfg"), ("HttpSwarm_MC", "HttpSwarm_MC_B.cfg"),
                     ("WsSwarm_MC", "WsSwarm_MC_Time.cfg")):
        res = run_tlc(ctx, mod, cfg, workers=8, timeout=1500)
        require_mc_ok(ctx, res, cfg)
    cargo_build(ctx)
    nruns, nops = (16, 250) if ctx.quick() else (200, 400)
    plan = [
        ("udp", "udp_exec", "UdpRef_Trace", U.random_behaviours(ctx.seed + 30, nruns, nops, time_bias=True, first_run=1000), U.classify),
        ("http", "http_exec", "HttpRef_Trace", H.random_behaviours(ctx.seed + 31, nruns, nops, time_bias=True, first_run=2000), H.classify),
        ("ws", "ws_exec", "WsRef_Trace", W.random_behaviours(ctx.seed + 32, nruns, nops, first_run=3000, offer_bias=True), W.classify),
    ]
    removed_by_clean = {}
    for name, exe, mod, beh, classify in plan:
        for b in beh:
            b["cfg"]["dumps"] = True
        tp = execute(ctx, exe, beh, name)
        acc, fails = validate_and_report(ctx, mod, mod + ".cfg", tp, name, classify, beh)
        # measure: how many cleaning passes removed something / kept something past deadline-1
        rem = kept = 0
        prev = None
        for line in open(tp):
            e = json.loads(line)
            if e.get("ev") == "clean" and prev is not None and "dump" in prev and "dump" in e:
                a = sum(len(t[5]) for t in prev["dump"])
                b2 = sum(len(t[5]) for t in e["dump"])
                if b2 < a:
                    rem += 1
                if b2 > 0:
                    kept += 1
            prev = e if e.get("ev") != "reset" else None
        removed_by_clean[name] = {"passes_that_removed": rem, "passes_that_kept": kept}
        if rem == 0 or kept == 0:
            raise ToolError("vacuity: %s histories never exercised expiry (%s)" % (name, removed_by_clean[name]))
        if not fails:
            binding_selftest(ctx, mod, mod + ".cfg", tp, mutate_clean_time, label="selftest_" + name)
        ctx.add_sample({"tracker": name, "cfg": beh[0]["cfg"], "first_ops": beh[0]["ops"][:5]})
    # the edge covers of the storage models include cleaning at d-1 / d / d+1 in both representations
    beh, g = gen_edge_cover(ctx, "UdpSwarm_Gen", "UdpSwarm_Gen.cfg", U.arg_filter, U.to_exec_op,
                            {"max_resp": 2, "mode": "off", "dumps": True, "peer_clients": False},
                            max_ops=20000 if ctx.quick() else None)
    tp = execute(ctx, "udp_exec", beh, "udp_edge")
    validate_and_report(ctx, "UdpRef_Trace", "UdpRef_Trace.cfg", tp, "udp_edge", U.classify, beh)
    ctx.coverage.update({
        "cleaning_passes": removed_by_clean, "random_runs_per_tracker": nruns, "ops_per_run": nops,
        "udp_model_edges_covered": g["covered"],
        "rule": "time-biased histories (deadline = clock + 1..3, cleaning at the running clock) on the real "
                "storage of all three trackers; after every step TLC compares the stored entries and pending "
                "offers (verif_dump) with the reference, so an entry removed one second early or kept one "
                "second late is rejected at that step",
    })
    ctx.assumptions += [
        "UDP/HTTP deadlines are passed to the storage as ValidUntil values, WebTorrent reads the mock clock; "
        "the socket/swarm workers' own time sampling (deadline = sample + max age) is outside the API level",
    ]
