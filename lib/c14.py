"""C14 - HTTP wire codec: requests round-trip, replies are canonical bencode.

TLC evaluates the reference codec's own laws over the case shapes (HttpCodec_MC)
and prints the shapes; this module fills them with values (ctx.seed), the harness
binary http_codec runs them on the real aquatic_http_protocol, and TLC judges
every recorded line against the reference (HttpCodec_Trace).  Nothing is judged
in Python."""
import json
import random

from vlib import *
from storage import validate_and_report, binding_selftest, count_events

RESERVED_RAW = {37, 38, 61, 43}          # % & = +  (never raw inside an identifier)
HEXU = "0123456789ABCDEF"
HEXL = "0123456789abcdef"
UNRESERVED = [ord(c) for c in
              "ABCDEFGHIJKLMNOPQRSTUVWXYZabcdefghijklmnopqrstuvwxyz0123456789-._~"]
HTTP_SAFE = set(UNRESERVED) | {ord(c) for c in "%&=/?"}
NON_HEX = [47, 58, 64, 71, 96, 103, ord("z"), ord("X"), ord("-"), ord(" "), 0, 0xE9, 0xFF, ord("x")]
UNKNOWN_NAMES = ["supportcrypto", "no_peer_id", "ip", "trackerid", "x", "info_hashx", "Info_hash",
                 "INFO_HASH", "peer_idd", "ke", "keyy", "portx", "lef", "events", "compac", "num_want",
                 "info", "hash", "peer-id", "corrupt", "redundant", "ipv6"]
KNOWN_NAMES = ["info_hash", "peer_id", "port", "uploaded", "downloaded", "left", "event", "numwant",
               "key", "compact"]
REQUIRED = KNOWN_NAMES[:6]


def be(n, size):
    return list(n.to_bytes(size, "big"))


def s2b(s):
    return list(s.encode("utf-8"))


class Cover:
    """Hands out byte values so that every value is used (seed-shuffled cycle)."""

    def __init__(self, rng, allowed):
        self.rng = rng
        self.allowed = list(allowed)
        self.queue = []
        self.seen = set()

    def take(self):
        if not self.queue:
            self.queue = list(self.allowed)
            self.rng.shuffle(self.queue)
        b = self.queue.pop()
        self.seen.add(b)
        return b

    def done(self):
        return len(self.seen) == len(self.allowed)


class Gen:
    def __init__(self, ctx):
        self.ctx = ctx
        self.rng = random.Random(ctx.seed * 7919 + 14)
        self.cases = []
        raw_ok = [b for b in range(256) if b not in RESERVED_RAW]
        # coverage of byte values in identifiers that must be accepted, per form
        self.cover = {"raw": Cover(self.rng, raw_ok), "escU": Cover(self.rng, range(256)),
                      "escL": Cover(self.rng, range(256)), "escM": Cover(self.rng, range(256))}
        self.rt_cover = Cover(self.rng, range(256))

    def add(self, case):
        case["id"] = len(self.cases)
        self.cases.append(case)

    # ---------------------------------------------------------------- values
    def number(self, top=2 ** 64 - 1):
        r = self.rng
        pool = [0, 1, 9, 10, 99, 100, 255, 256, 65535, 65536, 2 ** 31 - 1, 2 ** 31, 2 ** 32 - 1, 2 ** 32,
                10 ** 18, 2 ** 63 - 1, 2 ** 63, 2 ** 64 - 1]
        pool = [x for x in pool if x <= top]
        c = r.random()
        if c < 0.5:
            return r.choice(pool)
        if c < 0.75:
            return r.randrange(0, min(top, 10 ** r.randrange(1, 20)) + 1)
        return r.randrange(0, top + 1)

    def port(self):
        return self.rng.choice([0, 1, 80, 255, 256, 6881, 65535, self.rng.randrange(65536),
                                self.rng.randrange(65536)])

    def ident(self):
        r = self.rng
        c = r.random()
        if c < 0.15:
            return [r.choice([0, 255, 0x7F, 0x80, 37, 38, 61, 43, 32, 10, 13])] * 20
        return [r.randrange(256) for _ in range(20)]

    def ident_rt(self):
        """identifier for the write->parse round trip, cycling through all byte values"""
        return [self.rt_cover.take() for _ in range(20)]

    def render_unit(self, kind, b):
        r = self.rng
        if kind == "raw":
            return [b]
        if kind == "escU":
            return [37, ord(HEXU[b >> 4]), ord(HEXU[b & 15])]
        if kind == "escL":
            return [37, ord(HEXL[b >> 4]), ord(HEXL[b & 15])]
        return [37, ord(r.choice((HEXU, HEXL))[b >> 4]), ord(r.choice((HEXU, HEXL))[b & 15])]

    def render_ident(self, b20):
        """a 20-byte identifier in a random mixture of forms"""
        out = []
        units = []
        style = self.rng.choice(["mixed", "raw", "escL", "escU", "mixed"])
        for b in b20:
            kind = self.rng.choice(["raw", "escU", "escL", "escM"]) if style == "mixed" else style
            if kind == "raw" and b in RESERVED_RAW:
                kind = "escL"
            units.append([kind, b])
            out += self.render_unit(kind, b)
        return out, units

    def unknown_param(self, used):
        r = self.rng
        name = r.choice([n for n in UNKNOWN_NAMES if n not in used] or ["zz%d" % len(used)])
        used.add(name)
        c = r.random()
        if c < 0.25:
            val = []
        elif c < 0.5:
            val = [r.choice(UNRESERVED) for _ in range(r.randrange(1, 12))]
        elif c < 0.7:
            val = [ord(x) for x in r.choice(["%zz", "%", "%4", "%41%42", "1", "a%20b", "/x?y", "%00"])]
        else:
            val = [r.choice([b for b in range(1, 256) if b not in (38, 61)]) for _ in range(r.randrange(1, 25))]
        return [ord(x) for x in name], val

    def ascii_key(self):
        """(text in the query, decoded bytes): unreserved characters and escapes of ASCII"""
        r = self.rng
        text, dec = [], []
        for _ in range(r.choice([0, 1, 8, 8, 20, 33])):
            if r.random() < 0.7:
                c = r.choice(UNRESERVED)
                text.append(c)
                dec.append(c)
            else:
                c = r.randrange(0, 128)
                text += self.render_unit(r.choice(["escU", "escL", "escM"]), c)
                dec.append(c)
        return text, dec

    # ---------------------------------------------------------------- identifiers (url shapes)
    def url_case(self, sh, target, counted):
        r = self.rng
        n = len(sh["units"])
        good = sh["defect"] == "none" and n == 20
        units = []
        # half of the malformed identifiers are plain text (unreserved ASCII only, escapes of ASCII): a parser
        # that treats "looks like text" specially must still count decoded bytes
        plain = (not good) and r.random() < 0.5
        for kind in sh["units"]:
            if good and counted:
                b = self.cover[kind].take()
            elif plain:
                b = r.choice(UNRESERVED) if kind == "raw" else r.randrange(1, 128)
            else:
                b = r.randrange(256)
                if kind == "raw" and b in RESERVED_RAW:
                    b = 65
            units.append([kind, b])
        hexd = ord(r.choice(HEXU + HEXL))
        bad = r.choice(NON_HEX)
        tok = {"none": [], "trunc1": [37], "trunc2": [37, hexd], "bad1": [37, bad, hexd],
               "bad2": [37, hexd, bad]}[sh["defect"]]
        s = []
        for i, (kind, b) in enumerate(units):
            if i == sh["dpos"]:
                s += tok
            s += self.render_unit(kind, b)
        if sh["dpos"] >= n:
            s += tok
        cls = "url/%s/%s/%d" % (target, sh["defect"], n)
        if target == "scrape":
            path = s2b("/scrape?info_hash=") + s
        else:
            other, _ = self.render_ident(self.ident())
            a, b = (s, other) if target == "ann_ih" else (other, s)
            params = [(s2b("info_hash"), a), (s2b("peer_id"), b), (s2b("port"), s2b(str(self.port()))),
                      (s2b("uploaded"), s2b(str(self.number()))), (s2b("downloaded"), s2b(str(self.number()))),
                      (s2b("left"), s2b(str(self.number())))]
            r.shuffle(params)
            path = s2b("/announce?") + self.join(params)
        self.add({"op": "get_path", "cls": cls, "path": path, "http": all(c in HTTP_SAFE for c in path),
                  "units": units if good else []})

    @staticmethod
    def join(params):
        out = []
        for i, (k, v) in enumerate(params):
            if i:
                out.append(38)
            out += k + [61] + v
        return out

    # ---------------------------------------------------------------- query shapes
    def query_case(self, sh):
        r = self.rng
        used = set()
        params = []
        for name in sh["order"]:
            if name in ("info_hash", "peer_id"):
                v, _ = self.render_ident(self.ident())
            elif name == "port":
                v = s2b(str(self.port()))
            elif name in ("uploaded", "downloaded", "left", "numwant"):
                v = s2b(str(self.number()))
            elif name == "event":
                v = s2b(sh["event"])
            elif name == "key":
                v, _ = self.ascii_key()
            elif name == "compact":
                v = [49]
            else:
                k, v = self.unknown_param(used)
                params.append((k, v))
                continue
            params.append((s2b(name), v))
        loc = "/announce?" if sh["target"] == "announce" else "/scrape?"
        path = s2b(loc) + self.join(params)
        missing = sh["target"] == "announce" and not set(REQUIRED) <= set(sh["order"])
        cls = "query/%s/%s" % (sh["target"], "missing" if missing else "n%d" % len(sh["order"]))
        self.add({"op": "get_path", "cls": cls, "path": path, "http": all(c in HTTP_SAFE for c in path),
                  "units": []})

    # ---------------------------------------------------------------- requests
    def key_of(self, kind):
        r = self.rng
        if kind == "absent":
            return []
        if kind == "empty":
            return [[]]
        if kind == "short":
            return [[r.choice(UNRESERVED) for _ in range(r.randrange(1, 12))]]
        if kind == "esc":
            return [[r.choice(s2b(" &=%+/?#~\"<>\\^`{|}\t\n\r\x00\x7f!*'();:@$,[]")) for _ in range(r.randrange(1, 30))]]
        if kind == "utf8":
            alphabet = "héÿĀ€中\U0001f4a9аאz-9"
            while True:
                s = "".join(r.choice(alphabet) for _ in range(r.randrange(1, 9)))
                if sum(1 if b in UNRESERVED else 3 for b in s2b(s)) <= 100:
                    return [s2b(s)]
        if kind == "len100":
            if r.random() < 0.5:
                return [[r.choice(UNRESERVED) for _ in range(100)]]
            k = [32] * 32 + [r.choice(UNRESERVED) for _ in range(4)]     # 32 * 3 + 4 = 100
            r.shuffle(k)
            return [k]
        raise ToolError("key kind " + kind)

    def req_case(self, sh):
        r = self.rng
        if sh["target"] == "announce":
            nw = {"absent": [], "zero": [be(0, 8)], "small": [be(r.randrange(1, 500), 8)],
                  "max": [be(2 ** 64 - 1, 8)]}[sh["numwant"]]
            req = {"kind": "announce", "info_hash": self.ident_rt(), "peer_id": self.ident_rt(),
                   "port": be(self.port(), 2), "uploaded": be(self.number(), 8),
                   "downloaded": be(self.number(), 8), "left": be(self.number(), 8),
                   "event": sh["event"], "numwant": nw, "key": self.key_of(sh["key"])}
            cls = "req/announce/%s/nw-%s/key-%s" % (sh["event"], sh["numwant"], sh["key"])
        else:
            req = {"kind": "scrape", "info_hashes": [self.ident_rt() for _ in range(sh["n"])]}
            cls = "req/scrape/%d" % sh["n"]
        self.add({"op": "req_rt", "cls": cls, "req": req})

    def random_req(self):
        r = self.rng
        if r.random() < 0.8:
            sh = {"target": "announce", "event": r.choice(["started", "stopped", "completed", "empty"]),
                  "numwant": r.choice(["absent", "zero", "small", "max"]),
                  "key": r.choice(["absent", "empty", "short", "esc", "utf8", "len100"])}
            self.req_case(sh)
            if sh["numwant"] == "small":
                self.cases[-1]["req"]["numwant"] = [be(self.number(), 8)]
        else:
            self.req_case({"target": "scrape", "n": r.choice([1, 2, 3, 5, 20, 60])})

    # ---------------------------------------------------------------- replies
    def count(self):
        return be(self.number(top=2 ** 63 - 1), 8)

    def text_of(self, kind, lens):
        r = self.rng
        if kind == "empty":
            return []
        if kind == "short":
            return s2b(r.choice(["slow down", "Unknown info hash", "x", "Info hash not allowed",
                                 "d3:fooe", "12:", "i1e"]))
        if kind == "utf8":
            alphabet = "héÿĀ€中\U0001f4a9аא :e"
            return s2b("".join(r.choice(alphabet) for _ in range(r.randrange(1, 40))))
        n = r.choice(lens)
        return [r.choice(s2b("abcdefghij klmnop:0123456789de")) for _ in range(n)]

    def hashes(self, n):
        """distinct hashes, many sharing long prefixes and straddling 0x7f/0x80"""
        r = self.rng
        out = set()
        base = self.ident()
        while len(out) < n:
            c = r.random()
            if c < 0.5:
                h = list(base)
                for _ in range(r.randrange(1, 3)):
                    h[r.randrange(20)] = r.choice([0, 1, 0x7F, 0x80, 0xFF, r.randrange(256)])
            else:
                h = self.ident()
            out.add(tuple(h))
        return [list(h) for h in out]

    def reply_case(self, sh, n4=None, n6=None, n=None):
        r = self.rng
        long_lens = [99, 100, 101, 120] if self.ctx.quick() else [99, 100, 101, 999, 1000, 1001, 5000]
        if sh["kind"] == "announce":
            n4 = sh["n4"] if n4 is None else n4
            n6 = sh["n6"] if n6 is None else n6
            reply = {"kind": "announce", "interval": self.count(), "complete": self.count(),
                     "incomplete": self.count(),
                     "peers": [{"ip": [r.choice([0, 255, r.randrange(256)]) for _ in range(4)],
                                "port": be(self.port(), 2)} for _ in range(n4)],
                     "peers6": [{"ip": [r.choice([0, 255, r.randrange(256)]) for _ in range(16)],
                                 "port": be(self.port(), 2)} for _ in range(n6)],
                     "warning": [] if sh["text"] == "absent" else [self.text_of(sh["text"], long_lens)]}
            cls = "reply/announce/%d/%d/%s" % (n4, n6, sh["text"])
        elif sh["kind"] == "scrape":
            n = sh["n"] if n is None else n
            hs = sorted(self.hashes(n))
            if sh["order"] == "reversed":
                hs.reverse()
            elif sh["order"] == "mixed":
                r.shuffle(hs)
            reply = {"kind": "scrape",
                     "files": [{"h": h, "complete": self.count(), "incomplete": self.count()} for h in hs]}
            cls = "reply/scrape/%d/%s" % (n, sh["order"])
        else:
            reply = {"kind": "failure", "reason": self.text_of(sh["text"], [9, 10, 11] + long_lens)}
            cls = "reply/failure/%s" % sh["text"]
        self.add({"op": "reply", "cls": cls, "reply": reply})


def concretise(ctx, shapes):
    g = Gen(ctx)
    quick = ctx.quick()
    urls = [s for s in shapes if s["k"] == "url"]
    queries = [s for s in shapes if s["k"] == "query"]
    reqs = [s for s in shapes if s["k"] == "req"]
    replies = [s for s in shapes if s["k"] == "reply"]
    targets = ["scrape", "ann_ih", "ann_pid"]
    for rnd in range(1 if quick else 2):
        for i, sh in enumerate(urls):
            for j, t in enumerate(targets):
                if quick and j != i % 3:
                    continue
                g.url_case(sh, t, counted=True)
    # identifiers with every byte value in every form must have been accepted
    for kind in ("raw", "escU", "escL", "escM"):
        guard = 0
        while not g.cover[kind].done():
            g.url_case({"units": [kind] * 20, "defect": "none", "dpos": 0}, targets[guard % 3], counted=True)
            guard += 1
            if guard > 100:
                raise ToolError("byte coverage loop does not terminate")
    for sh in queries:
        for _ in range(1 if quick else 5):
            g.query_case(sh)
    for sh in reqs:
        for _ in range(1 if quick else 6):
            g.req_case(sh)
    for _ in range(150 if quick else 8000):
        g.random_req()
    while not g.rt_cover.done():
        g.random_req()
    for sh in replies:
        for _ in range(2 if quick else 12):
            g.reply_case(sh)
    # larger replies than the shapes of the model
    big = [(7, 0), (0, 7), (50, 50), (200, 3)] if quick else [(7, 0), (0, 7), (50, 50), (200, 3), (3, 200), (1000, 1000)]
    for n4, n6 in big:
        for text in ("absent", "short"):
            g.reply_case({"kind": "announce", "text": text}, n4=n4, n6=n6)
    for n in ([17, 60] if quick else [17, 60, 100, 300]):
        for order in ("sorted", "reversed", "mixed"):
            g.reply_case({"kind": "scrape", "order": order}, n=n)
    for _ in range(20 if quick else 800):
        g.reply_case({"kind": "announce", "text": g.rng.choice(["absent", "empty", "short", "utf8", "long"])},
                     n4=g.rng.randrange(0, 12), n6=g.rng.randrange(0, 12))
        g.reply_case({"kind": "failure", "text": g.rng.choice(["empty", "short", "utf8", "long"])})
    # interleave the kinds so that every run of the trace contains all of them
    g.rng.shuffle(g.cases)
    for i, c in enumerate(g.cases):
        c["id"] = i
    return g.cases


# --------------------------------------------------------------------------- reporting helpers

def classify(ev, prefix, last_state):
    if not isinstance(ev, dict):
        return {"ev": "?"}
    sig = {"ev": ev.get("ev"), "cls": ev.get("cls")}
    for k in ("res", "parsed", "res_http"):
        if isinstance(ev.get(k), dict):
            sig[k + "_st"] = ev[k].get("st")
    return sig


def mutate_reply_bytes(evs):
    for i, e in enumerate(evs):
        if e.get("ev") == "reply" and len(e.get("bytes", [])) > 12:
            m = json.loads(json.dumps(evs))
            pos = len(e["bytes"]) // 2
            m[i]["bytes"][pos] = (m[i]["bytes"][pos] + 1) % 256
            return m, "one byte of the recorded reply changed (event %d, offset %d)" % (i, pos)
    return None


def mutate_decoded_id(evs):
    for i, e in enumerate(evs):
        if e.get("ev") == "get_path" and e["res"].get("st") == "ok":
            m = json.loads(json.dumps(evs))
            req = m[i]["res"]["req"]
            ident = req["info_hash"] if req["kind"] == "announce" else req["info_hashes"][0]
            ident[19] = (ident[19] + 1) % 256
            if "res_http" in m[i]:
                m[i]["res_http"] = json.loads(json.dumps(m[i]["res"]))
            return m, "last byte of a decoded identifier changed (event %d)" % i
    return None


def mutate_accept_broken_id(evs):
    for i, e in enumerate(evs):
        if e.get("ev") == "get_path" and e["res"].get("st") == "err" and e.get("cls", "").startswith("url/scrape"):
            m = json.loads(json.dumps(evs))
            m[i]["res"] = {"st": "ok", "req": {"kind": "scrape", "info_hashes": [[65] * 20]}}
            m[i].pop("res_http", None)
            m[i]["http"] = False
            return m, "a rejected identifier recorded as accepted (event %d)" % i
    return None


def mutate_rt_event(evs):
    for i, e in enumerate(evs):
        if e.get("ev") == "req_rt" and e["req"]["kind"] == "announce" and e["res"].get("st") == "ok" \
                and e["req"]["event"] == "stopped":
            m = json.loads(json.dumps(evs))
            m[i]["res"]["req"]["event"] = "started"
            return m, "event=stopped read back as started (event %d)" % i
    return None


def mutate_parsed_swap(evs):
    for i, e in enumerate(evs):
        if e.get("ev") == "reply" and e["reply"]["kind"] == "announce" and e["parsed"].get("st") == "ok" \
                and e["reply"]["complete"] != e["reply"]["incomplete"]:
            m = json.loads(json.dumps(evs))
            p = m[i]["parsed"]["reply"]
            p["complete"], p["incomplete"] = p["incomplete"], p["complete"]
            return m, "complete/incomplete swapped in the reply read back (event %d)" % i
    return None


SELFTESTS = [mutate_reply_bytes, mutate_decoded_id, mutate_accept_broken_id, mutate_rt_event,
             mutate_parsed_swap]


def measure(ctx, tpaths):
    """coverage measured on the recorded traces"""
    cls = {}
    forms = {"raw": set(), "escU": set(), "escL": set(), "escM": set()}
    rt_bytes = set()
    st = {}
    sizes = {"max_peers": 0, "max_peers6": 0, "max_files": 0, "max_text": 0, "max_scrape_hashes": 0}
    for tpath in tpaths:
        for line in open(tpath):
            e = json.loads(line)
            if e["ev"] == "reset":
                continue
            top = "/".join(e["cls"].split("/")[:2])
            cls[top] = cls.get(top, 0) + 1
            if e["ev"] == "get_path":
                k = "get_path:" + e["res"]["st"]
                st[k] = st.get(k, 0) + 1
                if e["res"]["st"] == "ok":
                    for kind, b in e["units"]:
                        forms[kind].add(b)
                if e["http"]:
                    st["get_path_also_via_parse_bytes"] = st.get("get_path_also_via_parse_bytes", 0) + 1
            elif e["ev"] == "req_rt":
                k = "req_rt:" + e["res"]["st"]
                st[k] = st.get(k, 0) + 1
                if e["res"]["st"] == "ok":
                    r = e["req"]
                    ids = [r["info_hash"], r["peer_id"]] if r["kind"] == "announce" else r["info_hashes"]
                    for x in ids:
                        rt_bytes.update(x)
                    if r["kind"] == "scrape":
                        sizes["max_scrape_hashes"] = max(sizes["max_scrape_hashes"], len(ids))
            else:
                k = "reply:" + e["parsed"]["st"]
                st[k] = st.get(k, 0) + 1
                r = e["reply"]
                if r["kind"] == "announce":
                    sizes["max_peers"] = max(sizes["max_peers"], len(r["peers"]))
                    sizes["max_peers6"] = max(sizes["max_peers6"], len(r["peers6"]))
                    for w in r["warning"]:
                        sizes["max_text"] = max(sizes["max_text"], len(w))
                elif r["kind"] == "scrape":
                    sizes["max_files"] = max(sizes["max_files"], len(r["files"]))
                else:
                    sizes["max_text"] = max(sizes["max_text"], len(r["reason"]))
    return cls, forms, rt_bytes, st, sizes


CHUNK = 4000      # cases per trace file (bounds the memory of one TLC validation run)


def run(ctx):
    # 1. the reference codec's own laws, and the case shapes
    cfg = "HttpCodec_MC_Q.cfg" if ctx.quick() else "HttpCodec_MC_T.cfg"
    res = run_tlc(ctx, "HttpCodec_MC", cfg, workers=8, timeout=900, java_opts=["-Xss256m"])
    require_mc_ok(ctx, res, cfg)
    shapes = sorted(set(tla_unquote(s) for s in printed_tuples(res["out"], "CASE")))
    shapes = [json.loads(s) for s in shapes]
    by_kind = {}
    for s in shapes:
        by_kind[s["k"]] = by_kind.get(s["k"], 0) + 1
    if set(by_kind) != {"url", "query", "req", "reply"}:
        raise ToolError("the model printed no shapes of some kind: %s" % by_kind)
    ctx.stage("shapes", **by_kind)
    if not ctx.quick():
        # negative control: with a dictionary writer that does not sort, the laws must fail
        neg = run_tlc(ctx, "HttpCodec_MC", "HttpCodec_MC_Neg.cfg", workers=8, timeout=900,
                      java_opts=["-Xss256m"])
        if neg["ok"] or not tlc_is_spec_violation(neg):
            raise ToolError("negative control failed: unsorted dictionaries pass the model's laws (%s)"
                            % neg.get("error"))
        ctx.stage("negative-control", cfg="HttpCodec_MC_Neg.cfg", error=neg["error"])

    # 2. values
    cases = concretise(ctx, shapes)
    ctx.stage("cases", n=len(cases))

    tpaths = []
    failures = []
    nev = npanic = nruns = 0
    for ci in range(0, len(cases), CHUNK):
        n = ci // CHUNK
        cpath = ctx.path("cases_%d.jsonl" % n)
        with open(cpath, "w") as f:
            for c in cases[ci:ci + CHUNK]:
                f.write(json.dumps(c, separators=(",", ":")) + "\n")
        # 3. the real library
        tpath = ctx.path("trace_%d.ndjson" % n)
        run_harness(ctx, "http_codec", [cpath, tpath], timeout=900)
        tpaths.append(tpath)
        e, p = count_events(tpath)
        nev += e
        npanic += p
        nruns += len(split_runs(tpath))
        # 4a. every generated input lies inside the domain of the statement (generator fault otherwise)
        dom = validate_trace(ctx, "HttpCodec_Trace", "HttpCodec_Trace.cfg", tpath, timeout=2400,
                             name="domain%d" % n, env={"J_DOMAIN_ONLY": "1"})
        if not dom["accepted"]:
            raise ToolError("generated case outside the domain of the statement (event %d of chunk %d): %s"
                            % (dom["matched"] + 1, n, json.dumps(dom["event"])[:1500]))
        ctx.stage("domain", chunk=n, events=dom["total"], wall_s=dom["wall_s"])
        # 4b. the verdict
        acc, fl = validate_and_report(ctx, "HttpCodec_Trace", "HttpCodec_Trace.cfg", tpath,
                                      "codec%d" % n, classify, None, max_failures=6)
        failures += fl
    cls, forms, rt_bytes, st, sizes = measure(ctx, tpaths)
    tpath = tpaths[0]

    # 5. the binding is not vacuous
    if not failures:
        for i, mt in enumerate(SELFTESTS):
            binding_selftest(ctx, "HttpCodec_Trace", "HttpCodec_Trace.cfg", tpath, mt, label="selftest%d" % i)
        missing = {k: 256 - len(v) - (4 if k == "raw" else 0) for k, v in forms.items()}
        if any(missing.values()) or len(rt_bytes) != 256:
            raise ToolError("vacuity: byte values not covered by accepted identifiers: %s, round trip %d/256"
                            % (missing, len(rt_bytes)))
        if st.get("get_path:err", 0) == 0 or st.get("get_path:ok", 0) == 0:
            raise ToolError("vacuity: parser decisions observed: %s" % st)

    ctx.coverage.update({
        "rule": "every shape printed by the model (identifier strings of 0..22 units with raw / upper / lower / "
                "mixed-case escapes and broken escapes at first, middle, last position; parameter orders incl. "
                "permutations of the six required keys, optional and unknown keys present/absent, a required key "
                "missing; requests with every event x numwant x key class; replies with 0..3 peers per family, "
                "0..10 scrape entries in three input orders, failure/warning text classes) filled with seed-random "
                "values and executed on the real library, plus larger random replies and requests; every recorded "
                "line judged by TLC: parser accept/reject and decoded request = ParsePath, write->parse round trip "
                "equal, reply bytes = reference bencode byte for byte, reply read back equal",
        "shapes": by_kind,
        "cases_executed": len(cases),
        "events_judged": nev - nruns,
        "cases_by_class": cls,
        "observed": st,
        "identifier_byte_values_accepted": {k: len(v) for k, v in forms.items()},
        "identifier_byte_values_round_trip": len(rt_bytes),
        "largest": sizes,
        "panics": npanic,
    })
    for c in cases[:3]:
        s = dict(c)
        for k in ("path",):
            if k in s:
                s[k] = "".join(chr(x) for x in s[k])
        if len(json.dumps(s)) < 1500:
            ctx.add_sample(s)
    ctx.assumptions += [
        "identifier strings containing '+' or code points above 255 are outside the statement and not generated "
        "(the real decoder reads '+' literally and truncates a code point above 255 that follows '%' to 8 bits)",
        "query strings are well-formed key=value lists with each known key at most once, canonical decimal numbers "
        "that fit the field, an event of the table and compact=1; an announce lacking one of the six BEP 3 "
        "parameters must be rejected; ill-formed strings are not generated",
        "round trip: `key` values whose percent-encoded form exceeds 100 characters are refused by the parser by "
        "design (request.rs) and a scrape request names at least one hash; such requests are not generated",
        "replies: counts below 2^63 (the reader, serde_bencode, has signed 64-bit integers); "
        "ScrapeStatistics.downloaded is always 0 (the writer emits the constant 0, as the tracker sets it)",
        "Request::write is used with an empty url suffix",
    ]


def replay(ctx, path):
    """Re-validate the events of a replay file (after re-executing them on the current code)."""
    rp = json.load(open(path))["replay"]
    cases = []
    for e in rp["events"]:
        if e.get("ev") == "reset":
            continue
        c = {k: v for k, v in e.items() if k not in ("res", "res_http", "wire", "bytes", "parsed", "nwritten", "ev")}
        c["op"] = e["ev"]
        cases.append(c)
    cpath = ctx.path("replay_cases.jsonl")
    with open(cpath, "w") as f:
        for c in cases:
            f.write(json.dumps(c) + "\n")
    tpath = ctx.path("replay_trace.ndjson")
    run_harness(ctx, "http_codec", [cpath, tpath])
    validate_and_report(ctx, "HttpCodec_Trace", "HttpCodec_Trace.cfg", tpath, "replay", classify, None)
