"""Black-box driver for a running WebTorrent tracker (C17, C03-ws): a minimal WebSocket client."""
import base64
import json as _json
import os
import random
import select
import socket
import struct
import time

from vlib import *
from net import *


def ws_config(port, socket_workers=1, swarm_workers=1, max_offers=10, max_scrape=255, addr="127.0.0.1",
              only_ipv6=False):
    return {"socket_workers": socket_workers, "swarm_workers": swarm_workers,
            "network": {"address": "%s:%d" % (addr, port), "only_ipv6": only_ipv6,
                        "enable_http_health_checks": False},
            "protocol": {"max_offers": max_offers, "max_scrape_torrents": max_scrape},
            "cleaning": {"torrent_cleaning_interval": 3600, "connection_cleaning_interval": 3600,
                         "max_peer_age": 3600, "max_offer_age": 3600, "max_connection_idle": 3600}}


def id_str(b):
    """20 bytes -> JSON-safe 20-character string (code points 0..255)."""
    return b.decode("latin-1")


def id_rev_hash(s):
    try:
        b = s.encode("latin-1")
    except Exception:
        return -1
    if len(b) != 20:
        return -1
    h = int.from_bytes(b[1:5], "big")
    return h if info_hash(h) == b else -1


def id_rev_pid(s):
    try:
        b = s.encode("latin-1")
        t = b.decode()
        return int(t[len("-qB4250-"):]) if t.startswith("-qB4250-") else -1
    except Exception:
        return -1


USE_TLS = False          # WsClient speaks TLS (certificate not verified) while this is set


class WsClient:
    def __init__(self, name, src_ip, server):
        self.name = name
        self.cert_sha = None
        self.fam = socket.AF_INET6 if ":" in src_ip else socket.AF_INET
        self.sock = socket.socket(self.fam, socket.SOCK_STREAM)
        self.sock.setsockopt(socket.IPPROTO_TCP, socket.TCP_NODELAY, 1)
        self.sock.bind((src_ip, 0))
        self.sock.settimeout(5.0 * load_factor())
        self.sock.connect(server)
        if USE_TLS:
            import hashlib
            from http_e2e import tls_wrap
            self.sock = tls_wrap(self.sock)
            self.sock.settimeout(5.0 * load_factor())
            self.cert_sha = hashlib.sha256(self.sock.getpeercert(binary_form=True)).hexdigest()
        key = base64.b64encode(os.urandom(16)).decode()
        req = ("GET / HTTP/1.1\r\nHost: localhost\r\nUpgrade: websocket\r\nConnection: Upgrade\r\n"
               "Sec-WebSocket-Key: %s\r\nSec-WebSocket-Version: 13\r\n\r\n" % key)
        self.sock.sendall(req.encode())
        buf = b""
        while b"\r\n\r\n" not in buf:
            chunk = self.sock.recv(4096)
            if not chunk:
                raise ToolError("websocket handshake: connection closed")
            buf += chunk
        head, rest = buf.split(b"\r\n\r\n", 1)
        if b" 101 " not in head.split(b"\r\n")[0]:
            raise ToolError("websocket handshake failed: %r" % head[:100])
        self.buf = rest
        self.closed = False
        self.sock.setblocking(False)

    def send_text(self, text, binary=False):
        payload = text.encode("utf-8")
        mask = os.urandom(4)
        hdr = bytes([0x80 | (0x2 if binary else 0x1)])
        n = len(payload)
        if n < 126:
            hdr += bytes([0x80 | n])
        elif n < 65536:
            hdr += bytes([0x80 | 126]) + struct.pack(">H", n)
        else:
            hdr += bytes([0x80 | 127]) + struct.pack(">Q", n)
        masked = bytes(b ^ mask[i % 4] for i, b in enumerate(payload))
        self.sock.setblocking(True)
        try:
            self.sock.sendall(hdr + mask + masked)
        finally:
            self.sock.setblocking(False)

    def send_close_frame(self):
        mask = os.urandom(4)
        try:
            self.sock.setblocking(True)
            self.sock.sendall(bytes([0x88, 0x80]) + mask)
        except OSError:
            pass
        finally:
            try:
                self.sock.setblocking(False)
            except OSError:
                pass

    def pump(self):
        """Read what is available; returns list of decoded JSON messages (dicts)."""
        out = []
        try:
            while True:
                chunk = self.sock.recv(65536)
                if not chunk:
                    self.closed = True
                    break
                self.buf += chunk
        except (BlockingIOError, InterruptedError):
            pass
        except OSError as e:
            # a non-blocking TLS socket reports "nothing to read yet" as SSLWantReadError (an OSError)
            if type(e).__name__ not in ("SSLWantReadError", "SSLWantWriteError"):
                self.closed = True
        while True:
            if len(self.buf) < 2:
                break
            b0, b1 = self.buf[0], self.buf[1]
            n = b1 & 0x7F
            off = 2
            if n == 126:
                if len(self.buf) < 4:
                    break
                n = struct.unpack(">H", self.buf[2:4])[0]
                off = 4
            elif n == 127:
                if len(self.buf) < 10:
                    break
                n = struct.unpack(">Q", self.buf[2:10])[0]
                off = 10
            if len(self.buf) < off + n:
                break
            payload = self.buf[off:off + n]
            self.buf = self.buf[off + n:]
            op = b0 & 0x0F
            if op in (1, 2):
                try:
                    out.append(_json.loads(payload.decode("utf-8")))
                except Exception:
                    out.append({"undecodable": True})
            elif op == 8:
                self.closed = True
        return out

    def close(self, rst=False):
        try:
            if rst:
                self.sock.setsockopt(socket.SOL_SOCKET, socket.SO_LINGER, struct.pack("ii", 1, 0))
            self.sock.close()
        except OSError:
            pass


def sdp(kind, pid, oid):
    return "%s-%d-%d\"\\\U0001F600" % (kind, pid, oid)


def announce_msg(h, pid, event, left, offers, answer):
    m = {"action": "announce", "info_hash": id_str(info_hash(h)), "peer_id": id_str(peer_id(pid)),
         "numwant": len(offers or [])}
    if event != "none":
        m["event"] = event
    if left != 2:
        m["left"] = left
    if offers is not None:
        m["offers"] = [{"offer": {"type": "offer", "sdp": sdp("offer", pid, o)}, "offer_id": id_str(peer_id(o))}
                       for o in offers]
    if answer:
        m["answer"] = {"type": "answer", "sdp": sdp("answer", pid, answer[1])}
        m["to_peer_id"] = id_str(peer_id(answer[0]))
        m["offer_id"] = id_str(peer_id(answer[1]))
    return _json.dumps(m)


def scrape_msg(hs, single=False):
    if single and len(hs) == 1:
        return _json.dumps({"action": "scrape", "info_hash": id_str(info_hash(hs[0]))})
    return _json.dumps({"action": "scrape", "info_hash": [id_str(info_hash(h)) for h in hs]})


def abstract_frame(msg, to):
    """A received JSON message -> the out-message vocabulary of WsRef_Trace."""
    t = [to, 0]
    if msg.get("undecodable"):
        return {"kind": "undecodable", "to": t}
    if "failure reason" in msg:
        return {"kind": "error", "to": t, "h": id_rev_hash(msg.get("info_hash", "")) if msg.get("info_hash") else -1}
    if msg.get("action") == "scrape":
        files = sorted([id_rev_hash(k), v.get("complete", -1), v.get("incomplete", -1)]
                       for k, v in msg.get("files", {}).items())
        return {"kind": "scrape", "to": t, "files": files}
    if "offer" in msg:
        frm = id_rev_pid(msg.get("peer_id", ""))
        oid = id_rev_pid(msg.get("offer_id", ""))
        return {"kind": "offer", "to": t, "h": id_rev_hash(msg.get("info_hash", "")), "from": frm, "oid": oid,
                "payload_ok": msg["offer"].get("sdp") == sdp("offer", frm, oid)}
    if "answer" in msg:
        frm = id_rev_pid(msg.get("peer_id", ""))
        oid = id_rev_pid(msg.get("offer_id", ""))
        return {"kind": "answer", "to": t, "h": id_rev_hash(msg.get("info_hash", "")), "from": frm, "oid": oid,
                "payload_ok": msg["answer"].get("sdp") == sdp("answer", frm, oid)}
    if "complete" in msg:
        return {"kind": "announce", "to": t, "h": id_rev_hash(msg.get("info_hash", "")),
                "seeders": msg["complete"], "leechers": msg["incomplete"]}
    return {"kind": "unknown", "to": t}


def settle(clients, seconds, sender=None, max_wait=2.0, grace=0.08):
    """Collect frames from all clients; returns list of (client name, json msg).
    Waits `seconds`; if `sender` is given and nothing has arrived for it yet (and it is still open), keeps
    waiting up to max_wait for its reply, then a short grace period for frames still in flight to others -
    so that a loaded machine does not turn a slow reply into a missing one."""
    got = []
    t0 = time.monotonic()
    t_end = t0 + seconds
    sender_seen_at = None
    while True:
        for c in clients:
            for m in c.pump():
                got.append((c.name, m))
                if sender is not None and c.name == sender.name and sender_seen_at is None:
                    sender_seen_at = time.monotonic()
        now = time.monotonic()
        if sender is not None and not sender.closed:
            if sender_seen_at is None:
                t_end = max(t_end, min(t0 + max_wait, now + 0.05))
            else:
                t_end = max(t_end, sender_seen_at + grace)
        left = t_end - now
        if left <= 0:
            break
        socks = [c.sock for c in clients if not c.closed]
        if not socks:
            time.sleep(min(left, 0.01))
            continue
        try:
            select.select(socks, [], [], min(left, 0.02))
        except (OSError, ValueError):
            time.sleep(0.005)
    return got


def c03_part(ctx):
    import c17
    c17.c03_ws(ctx)
