"""C07 - HTTP swarm bookkeeping equals a reference tracker."""
from vlib import *
from storage import *
import graphwalk
import http_storage as H


def run(ctx):
    cfgs = ["HttpSwarm_MC_A.cfg", "HttpSwarm_MC_B.cfg", "HttpSwarm_MC_S0.cfg",
            "HttpSwarm_MC_S1.cfg", "HttpSwarm_MC_S5.cfg"]
    for c in cfgs:
        res = run_tlc(ctx, "HttpSwarm_MC", c, workers=8, timeout=1500, coverage=True)
        require_mc_ok(ctx, res, c)
        zero = coverage_zero_actions(res["out"], "HttpSwarm")
        if zero:
            raise ToolError("vacuity: actions never taken in %s: %s" % (c, zero))
    cargo_build(ctx)
    gencfg = "HttpSwarm_GenQ.cfg" if ctx.quick() else "HttpSwarm_Gen.cfg"
    beh, gstats = gen_edge_cover(ctx, "HttpSwarm_MC", gencfg, H.arg_filter, H.to_exec_op,
                                 {"max_peers": 4, "max_scrape": 2, "mode": "off", "dumps": True},
                                 max_ops=40000 if ctx.quick() else None)
    t1 = execute(ctx, "http_exec", beh, "edgecover")
    acc1, f1 = validate_and_report(ctx, "HttpRef_Trace", "HttpRef_Trace.cfg", t1, "edgecover",
                                   H.classify, beh)
    nruns, nops = (24, 250) if ctx.quick() else (300, 400)
    rb = H.random_behaviours(ctx.seed + 7, nruns, nops, first_run=100000)
    t2 = execute(ctx, "http_exec", rb, "random")
    acc2, f2 = validate_and_report(ctx, "HttpRef_Trace", "HttpRef_Trace.cfg", t2, "random",
                                   H.classify, rb)
    if not f1 and not ctx.violations:
        strict_pass(ctx, "SwarmStrict_Http.cfg", t1, "http_edgecover", max_events=8000 if ctx.quick() else None)
    if not f1:
        binding_selftest(ctx, "HttpRef_Trace", "HttpRef_Trace.cfg", t1, H.mutate_counts)
    ctx.coverage.update({
        "model_edges": gstats["model_edges"], "model_edges_covered": gstats["covered"],
        "edge_cover_ops": gstats["ops"],
        "random_runs": nruns, "random_ops": nruns * nops,
        "rule": "transitions of the generation model (HttpSwarm, 5 keys, cap 4) executed on the real HTTP "
                "TorrentMaps in edge-covering walks (quick tier: capped, the covered count is measured); "
                "random histories over 14 keys x 4 hashes x 2 families; every event validated by TLC against "
                "the reference tracker, including the stored state (verif_dump) after every step",
    })
    for b in (beh[:1] + rb[:1]):
        ctx.add_sample({"run": b["run"], "cfg": b["cfg"], "first_ops": b["ops"][:6]})
    ctx.assumptions += [
        "TLC explores the implementation-shaped model exhaustively only within the constants of the MC configs",
        "clean() reads the clock through the verif mock clock hook",
    ]
