"""Extension beyond the listed properties: TLS certificate handling (spec/TlsReload.tla).

The design (reload on SIGUSR1, a failed reload keeps the previous configuration, updates reach new connections
only, the WebTorrent tracker closes connections of a replaced configuration after a grace period) is
model-checked; running HTTP and WebTorrent trackers with TLS enabled are then driven through random sequences
of file replacement / SIGUSR1 / connect / probe and their observations validated by TlsReload_Trace.
Informational: recorded under coverage.extensions of C17's evidence, never a verdict."""
import random
import shutil
import signal
import time

from vlib import *
from net import *
import http_e2e
import ws_e2e
from http_e2e import make_cert, http_config, HttpConn, request_bytes, scrape_path
from ws_e2e import ws_config, WsClient, scrape_msg, settle

BAD, MISSING = 100, 101


def ms():
    return int(time.monotonic() * 1000)


def model_check(ctx):
    out = {}
    for name in ("Ws", "Http"):
        res = run_tlc(ctx, "TlsReload", "TlsReload_MC_%s.cfg" % name, workers=4, timeout=900, name="tlsreload_" + name)
        require_mc_ok(ctx, res, "TlsReload (%s)" % name)
        out[name] = {"distinct": res.get("distinct"), "generated": res.get("generated")}
    return out


def sequence(ctx, events, run_id, kind, rnd, certs, nops):
    grace, clean_every = 3, 1
    slack_ms = int(2500 * load_factor())
    port = free_port(socket.SOCK_STREAM)
    live_cert = ctx.path("tls_%s_%d_cert.pem" % (kind, run_id))
    live_key = ctx.path("tls_%s_%d_key.pem" % (kind, run_id))
    cur = rnd.choice(sorted(certs))
    shutil.copy(certs[cur][0], live_cert)
    shutil.copy(certs[cur][1], live_key)
    if kind == "ws":
        cfg = ws_config(port, 2, 1, addr="[::]")
        cfg["cleaning"]["connection_cleaning_interval"] = clean_every
        cfg["cleaning"]["close_after_tls_update_grace_period"] = grace
    else:
        cfg = http_config(port, socket_workers=2, swarm_workers=1)
    cfg["network"].update({"enable_tls": True, "tls_certificate_path": live_cert, "tls_private_key_path": live_key})
    t = Tracker(ctx, kind, cfg, "tls_%s_%d" % (kind, run_id))
    by_sha = {v[2]: k for k, v in certs.items()}
    conns = {}
    http_e2e.USE_TLS = True
    ws_e2e.USE_TLS = True
    try:
        tcp_wait_ready(("127.0.0.1", port), tracker=t)
        events.append({"ev": "reset", "run": run_id, "tracker": kind, "grace_close": kind == "ws", "skip_identical": kind == "ws",
                       "grace": grace,
                       "clean_every": clean_every, "slack_ms": slack_ms, "cert": cur})

        def connect():
            name = "c%d" % len(conns)
            try:
                if kind == "ws":
                    c = WsClient(name, "127.0.0.2", ("127.0.0.1", port))
                    sha = c.cert_sha
                else:
                    c = HttpConn("127.0.0.2", ("127.0.0.1", port))
                    import hashlib
                    sha = hashlib.sha256(c.sock.getpeercert(binary_form=True)).hexdigest()
            except Exception as e:
                events.append({"ev": "connect", "c": name, "cert_seen": -1, "error": repr(e)[:200]})
                return
            conns[name] = c
            events.append({"ev": "connect", "c": name, "cert_seen": by_sha.get(sha, -2)})

        def probe(name):
            c = conns[name]
            t0 = ms()
            if kind == "ws":
                c.pump()
                ok = False
                if not c.closed:
                    try:
                        c.send_text(scrape_msg([1]))
                        got = settle([c], 0.2, sender=c, max_wait=1.5)
                        ok = any(n == name for n, m in got) and not c.closed
                    except OSError:
                        ok = False
                    if not ok:
                        c.closed = True
            else:
                ok = False
                if not getattr(c, "dead", False):
                    try:
                        c.send_split(request_bytes(scrape_path([1])), [])
                        ok = c.read_reply(timeout=3.0).get("outcome") == "reply"
                    except OSError:
                        ok = False
                    if not ok:
                        c.dead = True
            events.append({"ev": "probe", "c": name, "open": ok, "t0": t0, "t1": ms()})

        connect()
        for i in range(nops):
            op = rnd.choice(["write", "write", "reload", "reload", "connect", "probe", "probe", "wait"])
            if op == "write":
                x = rnd.choice(sorted(certs) + [BAD, MISSING])
                if x == MISSING:
                    if os.path.exists(live_cert):
                        os.unlink(live_cert)
                elif x == BAD:
                    with open(live_cert + ".new", "w") as f:
                        f.write("-----BEGIN CERTIFICATE-----\nthis is not a certificate\n-----END CERTIFICATE-----\n")
                    os.rename(live_cert + ".new", live_cert)
                else:
                    # key first: a reload is only requested by this driver after both files are in place
                    for src, dst in ((certs[x][1], live_key), (certs[x][0], live_cert)):
                        shutil.copy(src, dst + ".new")
                        os.rename(dst + ".new", dst)
                events.append({"ev": "write", "x": x})
            elif op == "reload":
                t0 = ms()
                t.signal(signal.SIGUSR1)
                time.sleep(0.4 * load_factor())
                events.append({"ev": "reload", "t0": t0, "t1": ms()})
            elif op == "connect" and len(conns) < 6:
                connect()
            elif op == "probe" and conns:
                probe(rnd.choice(sorted(conns)))
            elif op == "wait":
                time.sleep(rnd.choice((0.3, 1.0, 2.0)))
        # long enough for every stale connection to be closed, then probe them all
        time.sleep((grace + 2 * clean_every) + slack_ms / 1000.0 + 0.3)
        for name in sorted(conns):
            probe(name)
        if not t.alive():
            events.append({"ev": "tracker_died", "stderr": t.stderr()[-400:]})
    finally:
        http_e2e.USE_TLS = False
        ws_e2e.USE_TLS = False
        for c in conns.values():
            try:
                c.close()
            except Exception:
                pass
        t.stop()


def run(ctx, quick=False):
    out = {"model": model_check(ctx)}
    rnd = random.Random(ctx.seed + 1717)
    certs = {k: make_cert(ctx, "tlsx_%d" % k, cn="cert%d" % k) for k in (1, 2, 3)}
    events = []
    nseq = 1 if quick else 3
    rid = 0
    for kind in ("ws", "http"):
        for _ in range(nseq):
            sequence(ctx, events, rid, kind, rnd, certs, 10 if quick else 16)
            rid += 1
    tp = ctx.path("tls_reload.ndjson")
    with open(tp, "w") as f:
        for e in events:
            f.write(json.dumps(e, separators=(",", ":")) + "\n")
    accepted, failures, nruns = validate_runs(ctx, "TlsReload_Trace", "TlsReload_Trace.cfg", tp, label="tlsreload")
    out.update({
        "sequences": nruns, "conform": accepted, "events": len(events),
        "reloads": sum(1 for e in events if e["ev"] == "reload"),
        "failed_reload_files_written": sum(1 for e in events if e["ev"] == "write" and e["x"] in (BAD, MISSING)),
        "connections": sum(1 for e in events if e["ev"] == "connect"),
        "probes_closed_by_tracker": sum(1 for e in events if e["ev"] == "probe" and not e["open"]),
        "deviations": [{"run": f["run_index"], "event": f["event"]} for f in failures][:5],
    })
    return out
