"""C09 - WebRTC offers and answers are relayed only along real, unused offers."""
from vlib import *
from storage import *
import ws_storage as W
import c08


def run(ctx):
    c08.model_check(ctx, ["WsSwarm_MC_BQ.cfg"], ["WsSwarm_MC_B.cfg"])
    c08.conformance(ctx, 9, True, [W.mutate_offer_target, mutate_answer_dup])
    ctx.coverage["rule"] = (
        "offer/answer transitions of the generation model executed on the real storage; random histories "
        "biased to offers (0..4 per announce, repeated offer ids) and answers (right / wrong peer, twice, "
        "after stop, after expiry, after clean); every out-message (kind, addressee connection, sender id, "
        "offer id, payload) and the pending-offer tables (verif_dump) validated by TLC")
    ctx.assumptions += [
        "the socket workers' bookkeeping is emulated by the executor (see C08)",
        "an offer's pending state belongs to the offering peer's stored entry (it dies with that entry)",
    ]


def mutate_answer_dup(evs):
    """Duplicate a forwarded answer: the second forward of a consumed offer must be rejected."""
    for i in range(len(evs) - 1, -1, -1):
        e = evs[i]
        if e.get("ev") == "announce" and any(m["kind"] == "answer" for m in e.get("out", [])):
            m = json.loads(json.dumps(evs))
            ans = [x for x in m[i]["out"] if x["kind"] == "answer"][0]
            m[i]["out"].insert(0, dict(ans))
            return m, "forwarded answer duplicated at event %d" % i
    return None
